"""C36 attribute history reports exactly the net change since load (engine H).

Property: for any sequence of scalar assignments, deletions and collection
mutations on a loaded or new object, the history of each attribute reports
added / unchanged / deleted values whose combination equals the difference
between the committed value and the current value, and a flush persists
exactly that difference.

Sub-worlds (mappings from vf.worlds.ormworld3, Session(autoflush=False) so
that every flush is an explicit operation of the history):
 col   P.x (active_history off) and P.y (active_history on) of one object that
       starts transient / pending / persistent-loaded (row 1,1 or NULL,NULL) /
       persistent-expired.  ops: set over {None, 1001, 1002} (1001 = committed value; always a fresh int object),
       del, expire(attr), expire(obj), read, flush.
 ref   many-to-one C.p (active_history off and on) of one child that starts
       pending / loaded (parent p1 or None) / only the relationship expired /
       fully expired.  ops: set p1 | p2 | None, del, expire, read, flush.
 coll  P.cs as one-to-many list / set / attribute-keyed dict and many-to-many
       list of a parent that starts pending / loaded [c1, c2] / expired.
       ops: the collection's mutators over c1..c3, whole-collection assignment,
       backref-induced changes (c.p = p1 / None; M2M: c.ps.append / remove),
       expire, read, flush.

Oracle after every operation, for ``inspect(obj).attrs.<a>.history`` (and
``load_history()`` on every new canonical state), from the reference
vf.models.sessref3.AttrHist which only tracks (value in the row, committed
value as known at the first mutation, current value):
  * unchanged + added = current value(s);
  * committed value known at the first mutation (attribute was loaded, or
    active_history, or derivable without SQL): unchanged + deleted = committed,
    setting back to the committed value is "no change", added and deleted are
    disjoint;  not known: deleted is empty;
  * flush: the UPDATE of the object's row SETs exactly the column attributes
    whose history has_changes(); a many-to-one writes the foreign key exactly
    when it differs from the row; collection flush UPDATEs exactly the child
    rows whose parent changes (M2M: INSERT / DELETE exactly added / deleted
    association rows); afterwards the database rows equal the current values
    and every history is back to "unchanged".
Engine H: BFS over histories by replay on fresh objects, dedupe on a canonical
state (values, loadedness, committed_state, pending mutations, rows).

Value-equality variants (shards tagged ``eq``): the ``ref`` world and a
unidirectional one-to-many list world are repeated with mapped classes whose
``__eq__`` / ``__hash__`` are value based so that *distinct rows compare
equal* - re-pointing c1.p to an equal-but-different parent, or replacing a
member by an equal one, is a change, must be reported as one and must be
flushed (object references go by identity).  list.remove(x) and the backref's
removal go by == in plain Python as well, so the eq list world has no
remove-by-value op and no child side.

First-mutation coverage: every mutator with its own event path (list pop /
pop(i) / del [i]; set pop / discard; dict pop(k) / pop(k, default) / popitem /
setdefault / del [k] / update / clear) is in the alphabet of BOTH tiers and
therefore occurs as the first mutation after a load (starts ``loaded``,
``loaded1`` - a single member, which makes set.pop() deterministic -,
``expired``, ``pending``) and as the first mutation after a flush.

Genuine defect found on the unchanged tree (kept as a violation with a stable
signature, see the builder report): ``del obj.column_attr`` on a persistent
object followed by ``flush()`` raises KeyError in
persistence._collect_update_commands (history says deleted=[old], the flush
must write NULL); proposed fix proposed_fixes/c36_del_column_attr_flush_keyerror.diff,
with which this check is silent.

Scope notes: ``expire`` in the bidirectional ``coll`` world is only applied
while nothing is pending (expiring one side while the other side still carries
the change is outside the property); the ``ref`` world is a unidirectional
many-to-one for the same reason.  A collection call that fails on the plain
type is not a mutation (nothing claimed below it).  A child row whose foreign
key column is unloaded may be UPDATEd with an unchanged value (committed value
unknown).

Mutations caught (private copy, VF_REPO=/tmp/wt-orm3):
 M1 state.py _modified_event: committed_state overwritten on every set ->
    "set back to the committed value 1001 but history is ((1001,), (), (None,))"
 M2 state.py _modified_event: collection copy not taken before first mutation
    -> "cs.remove(c1) -> unchanged+deleted = ['c2'], committed ['c1','c2']"
 M3 attributes.py History.from_scalar_attribute: identity instead of is_equal
    -> "set back to the committed value 1001 but history is ((1001,),(),(1001,))"
 M4 attributes.py History.from_collection: deleted computed against the wrong set
 M5 persistence.py _collect_update_commands: is_equal test disabled -> "UPDATE
    sets ('x',), attributes with a net change ()"
 M6 attributes.py _ScalarAttributeImpl.set: active_history branch never loads
    -> col/expired "y = None -> deleted=(), committed value was 1001"
 M7 attributes.py History.from_object_attribute: None kept in deleted ->
    ref "p = p1 -> deleted=(None,), committed value was None"
 A1 attributes.py History.from_object_attribute: ``current == original`` instead
    of ``is`` -> ref/.../eq "p = p2 -> changed attribute reports unchanged=('p2',)"
 A2 attributes.py History.from_collection: membership by == instead of identity
    -> coll/o2m-list/.../eq "cs.append(c3) -> unchanged+deleted = [c1,c2,c3]"
 B1 collections.py dict pop: __before_pop after the item left the dict ->
    coll/o2m-dict/loaded "(first op) cs.pop(c1) -> unchanged+deleted = ['c2'],
    committed members ['c1', 'c2']"
 B2 / B3 the same for set pop() and list pop()
"""
import gc
import itertools
import re

from sqlalchemy import exc as sa_exc
from sqlalchemy import inspect as sa_inspect
from sqlalchemy.orm import make_transient_to_detached
from sqlalchemy.orm import Session
from sqlalchemy.orm.attributes import NO_VALUE
from sqlalchemy.orm.attributes import set_committed_value
from sqlalchemy.orm.base import LoaderCallableStatus

from ..engines import hist
from ..models.sessref3 import ABSENT
from ..models.sessref3 import AttrHist
from ..models.sessref3 import coll_apply
from ..models.sessref3 import has_dups
from ..models.sessref3 import members
from ..models.sessref3 import render
from ..models.sessref3 import UNKNOWN
from ..worlds.ormworld3 import SqlLog
from ..worlds.ormworld3 import world

ID = "C36"
LEVEL = "model_checking"
META = dict(
    engine="H",
    technique="explicit-state BFS over mutation/expire/flush histories on real mapped objects, net-change reference model in lock-step, canonical-state dedupe",
    design_ref="DESIGN.md §5 C36",
    level_text="Every history over set / del / collection mutators / backref-induced changes / expire / read / flush is replayed "
    "on fresh real objects for scalar columns (active_history on and off), a many-to-one reference (active_history on and "
    "off) and list / set / dict / many-to-many collections, from new, loaded, partially and fully expired start states. "
    "After every operation inspect(obj).attrs.<a>.history of every subject attribute is compared with the net change "
    "computed by a plain reference (row value, committed value as known at first mutation, current value); every flush's "
    "emitted statements are compared with the histories (SET columns, touched child rows, association rows) and the "
    "database rows with the current values. Dedupe on a canonical state that includes committed_state and pending "
    "mutations; explored to a fixpoint where reached, else to the stated depth.",
    level_note="Trusted: AttrHist (90 lines) and the per-world bookkeeping of which row value / loadedness an operation "
    "produces (loadedness itself is observed, loaded values are verified against the tracked row). SET columns are read "
    "from the emitted UPDATE text (column names only). autoflush is off so that flush is an explicit operation.",
    rule="case = (sub-world, start state, canonical state, op); non-trivial = the op leaves at least one attribute with a "
    "pending net change or is a flush that has something to write; outcomes = distinct (op, history triple shapes)",
    assumptions=[
        "Session(autoflush=False), one session, no concurrent writer",
        "value domain {None, 1001, 1002} for columns, 2 parents / 3 children for references",
        "a list never holds the same child twice (see C37)",
    ],
    bounds=dict(
        quick="col: fixpoint; ref (plain and value-eq classes): fixpoint; coll (4 collection kinds + value-eq list) x 4 starts: depth 3, every event path in the alphabet",
        thorough="col: fixpoint; ref: fixpoint; coll: depth 5, full mutator alphabet (more argument variety)",
    ),
)

PY_ERRORS = (ValueError, KeyError, IndexError)
DEPTH = {}


def _sym(v):
    if v is NO_VALUE or isinstance(v, LoaderCallableStatus):
        return str(getattr(v, "name", v))
    if hasattr(v, "_sa_instance_state"):
        return _nm(v)
    if isinstance(v, (list, tuple, set, frozenset)):
        return sorted(_sym(x) for x in v)
    if isinstance(v, dict):
        return sorted((k, _sym(x)) for k, x in v.items())
    return v


def _nm(o):
    if o is None:
        return None
    n = o.__dict__.get("name")
    if n:
        return n
    st = sa_inspect(o)
    pk = st.identity[0] if st.identity else o.__dict__.get("id")
    return ("c%d" % (pk - 10)) if pk > 10 else "p%d" % pk


def hist_tuple(o, attr, load=False):
    a = sa_inspect(o).attrs[attr]
    h = a.load_history() if load else a.history
    conv = lambda seq: tuple(_nm(x) if hasattr(x, "_sa_instance_state") else x for x in seq)  # noqa: E731
    return conv(h.added), conv(h.unchanged), conv(h.deleted)


_LOGS = {}


def sqllog(w, engine):
    log = _LOGS.get(id(engine))
    if log is None:
        log = _LOGS[id(engine)] = SqlLog(engine)
    return log


def update_sets(stmts, table):
    """[(set-column-names, parameters)] of the UPDATEs on ``table``"""
    out = []
    for sql, params in stmts:
        m = re.match(r"UPDATE (\w+) SET (.*?) WHERE", sql.replace("\n", " "))
        if m and m.group(1) == table:
            cols = tuple(sorted(x.split("=")[0].strip() for x in m.group(2).split(",")))
            out.append((cols, params))
    return out


class Ctx:
    pass


# ================================================================== col world

COL_INITS = ("transient", "pending", "loaded", "expired", "loaded_null")
V1, V2 = 1001, 1002  # above CPython's small-int cache: equality is not identity


def _fresh(v):
    return None if v is None else int(str(v))


COL_AH = {"x": False, "y": True}


def col_build(init):
    ctx = Ctx()
    w = ctx.w = world("o2m", "list", "bp")
    ctx.sess = None
    if init in ("transient", "pending"):
        o = w.P(id=1, name="p1")
        if init == "pending":
            ctx.engine = w.memory_engine()
            ctx.sess = Session(ctx.engine, autoflush=False)
            ctx.sess.add(o)
    else:
        v = "NULL" if init == "loaded_null" else str(V1)
        ctx.engine = w.memory_engine("insert into p (id, name, x, y) values (1, 'p1', %s, %s)" % (v, v))
        ctx.sess = Session(ctx.engine, autoflush=False)
        if init == "expired":
            o = w.P(id=1)
        else:
            val = None if init == "loaded_null" else _fresh(V1)
            o = w.P(id=1, name="p1", x=val, y=_fresh(val))
        make_transient_to_detached(o)
        ctx.sess.add(o)
    ctx.o = o
    ctx.log = sqllog(w, ctx.engine) if ctx.sess is not None else None
    return ctx


class ColModel:
    def __init__(self, init):
        self.status = "transient" if init == "transient" else "pending" if init == "pending" else "persistent"
        self.a = {}
        for k in ("x", "y"):
            if self.status != "persistent":
                self.a[k] = AttrHist("col", None, loaded=True, absent=True)
            elif init == "expired":
                self.a[k] = AttrHist("col", V1, loaded=False)
            else:
                v = None if init == "loaded_null" else V1
                self.a[k] = AttrHist("col", v, loaded=True, cur=v)

    def copy(self):
        import copy

        return copy.deepcopy(self)

    def load_expired(self):
        for m in self.a.values():
            if not m.loaded and not m.dirty:
                m.loaded, m.cur, m.absent = True, m.row, False

    def _first(self, k):
        m = self.a[k]
        if self.status == "persistent" and not m.loaded and COL_AH[k] and not m.dirty:
            self.load_expired()
        if not m.dirty:
            if m.loaded and not m.absent:
                orig = m.cur
            elif self.status != "persistent":
                orig = ABSENT
            else:
                orig = UNKNOWN
            m.first_mutation(orig)
        return m

    def apply(self, op):
        name = op[0]
        if name == "set":
            m = self._first(op[1])
            m.cur, m.loaded, m.absent = op[2], True, False
        elif name == "del":
            m = self._first(op[1])
            m.cur, m.loaded, m.absent = None, True, True
        elif name == "expire":
            m = self.a[op[1]]
            m.loaded, m.absent, m.cur = False, False, None
            m.reset()
        elif name == "expire_all":
            for m in self.a.values():
                m.loaded, m.absent, m.cur = False, False, None
                m.reset()
        elif name == "read":
            if self.status == "persistent" and not self.a[op[1]].loaded:
                self.load_expired()
        elif name == "flush":
            if self.status == "pending":
                self.status = "persistent"
                for m in self.a.values():
                    m.row = m.effective()
                    m.reset()
            else:
                for m in self.a.values():
                    if m.dirty:
                        m.row = m.effective()
                    m.reset()  # (a deleted column attribute stays without a value: not expired, reads None)

    def enabled(self):
        ops = []
        for k in ("x", "y"):
            m = self.a[k]
            for v in (None, V1, V2):
                ops.append(["set", k, v])
            if not m.absent:  # del of an attribute without a value is an AttributeError
                ops.append(["del", k])
            if self.status == "persistent":
                ops.append(["expire", k])
            if not (m.dirty and m.absent):
                ops.append(["read", k])
        if self.status == "persistent":
            ops.append(["expire_all"])
        if self.status != "transient":
            ops.append(["flush"])
        return ops

    def key(self):
        return (self.status, tuple((k, m.row, m.loaded, m.cur, m.absent, m.dirty, m.orig) for k, m in sorted(self.a.items())))


def col_apply(ctx, op):
    o = ctx.o
    if op[0] == "set":
        setattr(o, op[1], _fresh(op[2]))  # equal to, never identical with, the committed value
    elif op[0] == "del":
        delattr(o, op[1])
    elif op[0] == "expire":
        ctx.sess.expire(o, [op[1]])
    elif op[0] == "expire_all":
        ctx.sess.expire(o)
    elif op[0] == "read":
        return getattr(o, op[1])
    elif op[0] == "flush":
        ctx.sess.flush()


def col_canon(ctx):
    st = sa_inspect(ctx.o)
    d = ctx.o.__dict__
    life = "T" if st.transient else "N" if st.pending else "P"
    row = ctx.w.raw_rows("select x, y from p") if ctx.sess is not None and life != "T" and ctx.sess._transaction is not None and ctx.sess._transaction._connections else "init"
    return (
        life,
        tuple((k, d.get(k, "<no>")) for k in ("x", "y")),
        sorted((k, _sym(v)) for k, v in st.committed_state.items()),
        sorted(st.expired_attributes & {"x", "y"}),
        st.expired,
        st.modified,
        str(row),
    )


# ================================================================== ref world

REF_INITS = ("pending", "loaded", "rel_expired", "all_expired", "loaded_none")


def ref_build(ah, init, eq=False):
    ctx = Ctx()
    w = ctx.w = world("m2o", None, "bp", m2o_active_history=ah, value_eq=eq)
    fk = {"pending": None, "loaded_none": "NULL"}.get(init, "1")
    rows = "insert into p (id, name) values (1, 'p1'); insert into p (id, name) values (2, 'p2')"
    if init != "pending":
        rows += "; insert into c (id, name, p_id) values (11, 'c1', %s)" % fk
    ctx.engine = w.memory_engine(rows)
    ctx.sess = Session(ctx.engine, autoflush=False)
    ps = {n: w.P(id=w.pk(n), name=n, x=None, y=None) for n in ("p1", "p2")}
    if init == "pending":
        c = w.C(id=11, name="c1")
    elif init == "all_expired":
        c = w.C(id=11)
    else:
        par = None if init == "loaded_none" else ps["p1"]
        c = w.C(id=11, name="c1", x=None, y=None, p_id=par.id if par else None)
        set_committed_value(c, "p", par)
    for p in ps.values():
        make_transient_to_detached(p)
    if init != "pending":
        make_transient_to_detached(c)
    for p in ps.values():
        ctx.sess.add(p)
    ctx.sess.add(c)
    if init == "rel_expired":
        ctx.sess.expire(c, ["p"])
    ctx.o = c
    ctx.ps = ps
    ctx.log = sqllog(w, ctx.engine)
    return ctx


class RefModel:
    def __init__(self, ah, init):
        self.ah = ah
        self.status = "pending" if init == "pending" else "persistent"
        row = None if init in ("pending", "loaded_none") else "p1"
        if init == "pending":
            self.m = AttrHist("ref", None, loaded=True, absent=True)
        elif init in ("loaded", "loaded_none"):
            self.m = AttrHist("ref", row, loaded=True, cur=row)
        else:
            self.m = AttrHist("ref", row, loaded=False)

    def copy(self):
        import copy

        return copy.deepcopy(self)

    def _first(self, fk_loaded):
        m = self.m
        if not m.dirty:
            if m.loaded and not m.absent:
                orig = m.cur
            elif self.status != "persistent":
                orig = ABSENT
            elif m.absent:
                orig = UNKNOWN
            elif self.ah or fk_loaded:
                orig = m.row  # fetched (active_history) or found through the identity map
            else:
                orig = UNKNOWN
            m.first_mutation(orig)
        return m

    def apply(self, op, fk_loaded):
        name = op[0]
        m = self.m
        if name == "set":
            self._first(fk_loaded)
            m.cur, m.loaded, m.absent = op[2], True, False
        elif name == "del":
            self._first(fk_loaded)
            m.cur, m.loaded, m.absent = None, True, True
        elif name in ("expire", "expire_all"):
            m.loaded, m.absent, m.cur = False, False, None
            m.reset()
        elif name == "read":
            if self.status == "persistent" and not m.loaded:
                m.loaded, m.cur = True, m.row
        elif name == "flush":
            if m.dirty or self.status == "pending":
                m.row = m.effective()
            self.status = "persistent"
            if m.absent:
                m.loaded, m.absent = False, False  # reads lazily from the row again
            m.reset()

    def enabled(self):
        m = self.m
        ops = [["set", "p", v] for v in ("p1", "p2", None)]
        if not m.absent:
            ops.append(["del", "p"])
        if self.status == "persistent":
            ops += [["expire", "p"], ["expire_all"]]
        if not (m.dirty and m.absent):
            ops.append(["read", "p"])
        ops.append(["flush"])
        return ops

    def key(self):
        m = self.m
        return (self.status, m.row, m.loaded, m.cur, m.absent, m.dirty, m.orig)


def ref_apply(ctx, op):
    o = ctx.o
    if op[0] == "set":
        o.p = ctx.ps[op[2]] if op[2] else None
    elif op[0] == "del":
        del o.p
    elif op[0] == "expire":
        ctx.sess.expire(o, ["p"])
    elif op[0] == "expire_all":
        ctx.sess.expire(o)
    elif op[0] == "read":
        return o.p
    elif op[0] == "flush":
        ctx.sess.flush()


def ref_canon(ctx):
    st = sa_inspect(ctx.o)
    d = ctx.o.__dict__
    life = "N" if st.pending else "P"
    par = d.get("p", "<no>")
    active = ctx.sess._transaction is not None and ctx.sess._transaction._connections
    return (
        life,
        _nm(par) if par not in ("<no>", None) else par,
        d.get("p_id", "<no>"),
        sorted((k, _sym(v)) for k, v in st.committed_state.items() if k in ("p", "p_id")),
        sorted(st.expired_attributes & {"p", "p_id"}),
        st.modified,
        str(ctx.w.raw_rows("select id, p_id from c")) if active else "init",
    )


# ================================================================== coll world

COLL_KINDS = ("o2m-list", "o2m-set", "o2m-dict", "m2m-list")
COLL_INITS = ("pending", "loaded", "loaded1", "expired")  # loaded1: a single member (set.pop() is then deterministic)
CH = ("c1", "c2", "c3")


def coll_world(kc, eq=False):
    kind, coll = kc.split("-")
    # value-equal members: unidirectional, because a backref removes from the
    # other side's list with list.remove(), i.e. by ==
    return world(kind, coll, "uni" if eq else "bp", value_eq=eq)


def coll_build(kc, init, eq=False):
    ctx = Ctx()
    w = ctx.w = coll_world(kc, eq)
    pairs = [("p1", "c1")] if init == "loaded1" else [("p1", "c1"), ("p1", "c2")]
    if init == "pending":
        ctx.engine = w.memory_engine()
        ctx.sess = Session(ctx.engine, autoflush=False)
        ctx.objs = {n: w.new(n) for n in ("p1",) + CH}
        ctx.sess.add_all(list(ctx.objs.values()))
    else:
        ctx.engine = w.memory_engine(w.rows_sql(["p1"], list(CH), pairs))
        ctx.sess = Session(ctx.engine, autoflush=False)
        ctx.objs = w.persistent_universe(ctx.sess, ["p1"], list(CH), pairs, loaded=(init in ("loaded", "loaded1")))
    ctx.o = ctx.objs["p1"]
    ctx.log = sqllog(w, ctx.engine)
    return ctx


def coll_mutators(kc, tier, eq=False):
    """every mutator of the collection type; each one that fires a remove /
    append event through its own code path (pop, popitem, setdefault, del,
    discard ...) is in BOTH tiers so that it also occurs as the first mutation
    after a load and after a flush; thorough adds argument variety"""
    shape = kc.split("-")[1]
    full = tier == "thorough"
    ms = []
    if shape == "list":
        for e in CH:
            ms += [["append", e]]
            if not eq:
                ms += [["remove", e]]  # list.remove goes by ==: meaningless with value-equal members
            if full:
                ms += [["insert", 0, e], ["setitem", 0, e]]
        ms += [["pop"], ["pop", 0], ["delitem", 0], ["clear"], ["extend", ["c3", "c1"]], ["setitem", 0, "c3"]]
        if full:
            ms += [["setslice", [0, 1, None], ["c3"]], ["delslice", [0, 1, None]]]
        vals = [[], ["c1"], ["c3"], ["c2", "c1"], ["c1", "c3"], ["c1", "c2", "c3"]]
    elif shape == "set":
        for e in CH:
            ms += [["add", e], ["remove", e], ["discard", e]]
        ms += [["pop"], ["clear"], ["update", ["c1", "c3"]], ["difference_update", ["c1", "c3"]]]
        if full:
            ms += [["symmetric_difference_update", ["c2", "c3"]], ["intersection_update", ["c1"]]]
        vals = [[], ["c1"], ["c3"], ["c1", "c3"], ["c1", "c2", "c3"]]
    else:
        for e in CH:
            ms += [["setitem", e, e], ["delitem", e], ["pop", e], ["popd", e]]
            if e != "c2" or full:
                ms += [["setdefault", e, e]]
        ms += [["popitem"], ["clear"], ["update", {"c1": "c1", "c3": "c3"}]]
        vals = [{}, {"c1": "c1"}, {"c3": "c3"}, {"c1": "c1", "c3": "c3"}, {"c1": "c1", "c2": "c2", "c3": "c3"}]
    return [["coll", m] for m in ms] + [["assign", v] for v in vals]


class CollModel:
    def __init__(self, kc, init):
        self.kind, self.shape = kc.split("-")
        self.status = "pending" if init == "pending" else "persistent"
        row = [] if init == "pending" else ["c1"] if init == "loaded1" else ["c1", "c2"]
        self.rel = {c: ("p1" if c in row else None) for c in CH}  # intended parent / membership: last write wins
        self.rowrel = dict(self.rel)  # what the database holds
        self.child_known = {c: init in ("loaded", "loaded1", "pending") for c in CH}
        if init in ("loaded", "loaded1"):
            self.m = AttrHist("coll", row, loaded=True, cur=self._mk(row))
        else:
            self.m = AttrHist("coll", row, loaded=False)
        self.pend_add, self.pend_del = [], []

    def copy(self):
        import copy

        return copy.deepcopy(self)

    def _mk(self, names):
        if self.shape == "set":
            return set(names)
        if self.shape == "dict":
            return {n: n for n in names}
        return list(names)

    def load(self):
        """what touching the unloaded collection yields (autoflush off: the
        rows, plus the mutations queued by backrefs)"""
        m = self.m
        if m.loaded:
            return
        if self.status != "persistent":
            m.loaded, m.cur = True, self._mk([])
            return
        base = [c for c in CH if self.rowrel[c] == "p1"]
        m.loaded = True
        if self.pend_add or self.pend_del:
            m.first_mutation(list(base))
            base = [c for c in base if c not in self.pend_del] + [c for c in self.pend_add if c not in base]
        m.cur = self._mk(base)
        self.pend_add, self.pend_del = [], []

    def _first(self):
        m = self.m
        if not m.dirty:
            m.first_mutation(ABSENT if (self.status != "persistent" and not self._was_loaded) else list(members(m.cur)))

    def apply(self, op, choice=None):
        m = self.m
        name = op[0]
        if name in ("coll", "assign"):
            self._was_loaded = m.loaded
            if name == "coll":
                self.load()
                before = list(members(m.cur))
                new = m.copy().cur
                ret = coll_apply(new, op[1], choice=choice)  # may raise: state untouched
                self._first_with(before)
                m.cur = new
            else:
                if self.status == "persistent":
                    self.load()  # assignment loads the old collection to fire removes
                    before = list(members(m.cur))
                    self._first_with(before)
                else:
                    if not m.dirty:
                        m.first_mutation(list(members(m.cur)) if m.loaded else ABSENT)
                    before = list(members(m.cur)) if m.loaded else []
                    m.loaded = True
                ret = None
                m.cur = self._mk(list(op[1].values()) if isinstance(op[1], dict) else op[1])
            after = members(m.cur)
            for c in before:
                if c not in after:
                    self.rel[c] = None
                    self.child_known[c] = True
            for c in after:
                if c not in before:
                    self.rel[c] = "p1"
                    self.child_known[c] = True
            return ret
        if name == "bset":
            c, to = op[1], op[2]
            self.rel[c] = to
            self.child_known[c] = True
            if m.loaded or self.status != "persistent":
                self._was_loaded = m.loaded
                self.load()
                inside = c in members(m.cur)
                if (to == "p1") != inside:
                    self._first_with(list(members(m.cur)))
                    if to == "p1":
                        self._add(c)
                    else:
                        self._drop(c)
            else:
                if to == "p1":
                    if c in self.pend_del:
                        self.pend_del.remove(c)
                    elif c not in self.pend_add:
                        self.pend_add.append(c)
                else:
                    if c in self.pend_add:
                        self.pend_add.remove(c)
                    elif c not in self.pend_del:
                        self.pend_del.append(c)
            return None
        if name in ("expire", "expire_all"):
            m.loaded, m.cur = False, None
            m.reset()
            self.pend_add, self.pend_del = [], []
        elif name == "read":
            self.load()
        elif name == "flush":
            self.status = "persistent"
            self.rowrel = dict(self.rel)
            m.row = [c for c in CH if self.rel[c] == "p1"]
            m.reset()
            self.pend_add, self.pend_del = [], []
        return None

    def _first_with(self, before):
        m = self.m
        if not m.dirty:
            if self.status != "persistent" and not getattr(self, "_was_loaded", True):
                m.first_mutation(ABSENT)
            else:
                m.first_mutation(list(before))

    def _add(self, c):
        m = self.m
        if self.shape == "set":
            m.cur.add(c)
        elif self.shape == "dict":
            m.cur[c] = c
        else:
            m.cur.append(c)

    def _drop(self, c):
        m = self.m
        if self.shape == "set":
            m.cur.discard(c)
        elif self.shape == "dict":
            m.cur.pop(c, None)
        else:
            m.cur.remove(c)

    def key(self):
        m = self.m
        return (self.status, tuple(sorted(self.rel.items())), tuple(sorted(self.rowrel.items())), m.loaded, render(m.cur) if m.cur is not None else None, m.dirty, str(m.orig), tuple(self.pend_add), tuple(self.pend_del), tuple(sorted(self.child_known.items())))


def coll_enabled_factory(kc, tier, eq=False):
    muts = coll_mutators(kc, tier, eq)
    kind = kc.split("-")[0]

    def enabled(ms):
        ops = []
        for op in muts:
            if ms.shape == "set" and op[0] == "coll" and op[1][0] == "pop":
                t = ms.copy()
                t.load()
                if len(t.m.cur) > 1:
                    continue  # which member a set of objects pops depends on id(): not deterministic
            if ms.shape == "list":
                t = ms.copy()
                try:
                    t.apply(op)
                except PY_ERRORS:
                    ops.append(op)
                    continue
                if has_dups(t.m.cur):
                    continue
            ops.append(op)
        for c in CH:
            inside = ms.rel[c] == "p1"
            if eq:
                continue  # unidirectional world: no child side
            if not inside:
                ops.append(["bset", c, "p1"])
            elif ms.child_known[c]:
                ops.append(["bset", c, None])
        if ms.status == "persistent" and not ms.m.dirty and ms.rel == ms.rowrel and not ms.pend_add and not ms.pend_del:
            ops += [["expire", "cs"], ["expire_all"]]
        ops += [["read", "cs"], ["flush"]]
        return ops

    return enabled


def coll_apply_impl(ctx, kc, op):
    o, objs = ctx.o, ctx.objs
    kind, shape = kc.split("-")
    if op[0] == "coll":
        return coll_apply(o.cs, op[1], objs.__getitem__)
    if op[0] == "assign":
        v = op[1]
        if shape == "dict":
            o.cs = {k: objs[x] for k, x in v.items()}
        elif shape == "set":
            o.cs = {objs[x] for x in v}
        else:
            o.cs = [objs[x] for x in v]
    elif op[0] == "bset":
        c = objs[op[1]]
        if kind == "o2m":
            c.p = o if op[2] else None
        elif op[2]:
            c.ps.append(o)
        else:
            c.ps.remove(o)
    elif op[0] == "expire":
        ctx.sess.expire(o, ["cs"])
    elif op[0] == "expire_all":
        ctx.sess.expire(o)
    elif op[0] == "read":
        return o.cs
    elif op[0] == "flush":
        ctx.sess.flush()


def coll_rows(ctx, kc):
    if kc.startswith("m2m"):
        return {"c%d" % (c - 10): "p1" for p, c in ctx.w.raw_rows("select p_id, c_id from pc")}
    return {"c%d" % (i - 10): ("p%d" % p if p else None) for i, p in ctx.w.raw_rows("select id, p_id from c")}


def coll_canon(ctx, kc):
    out = []
    for n, o in sorted(ctx.objs.items()):
        st = sa_inspect(o)
        d = o.__dict__
        attr = "cs" if n == "p1" else ("ps" if kc.startswith("m2m") else "p")
        v = d.get(attr, "<no>")
        if v != "<no>":
            v = _sym(v) if not isinstance(v, (list, dict)) else ([_nm(x) for x in v] if isinstance(v, list) else sorted(v))
        pm = st.__dict__.get("_pending_mutations") or {}
        pend = sorted((k, [_nm(x) for x in pc.added_items], sorted(_nm(x) for x in pc.deleted_items)) for k, pc in pm.items())
        life = "N" if st.pending else "P"
        out.append((n, life, v, d.get("p_id", "<no>") if n != "p1" else None, sorted((k, _sym(x)) for k, x in st.committed_state.items() if k in (attr, "p_id")), pend, sorted(st.expired_attributes & {attr, "p_id", "name"}), st.modified, "name" in d))
    active = ctx.sess._transaction is not None and ctx.sess._transaction._connections
    return (tuple(out), str(sorted(coll_rows(ctx, kc).items())) if active else "init")


# ================================================================== steps


def sig_text(s):
    return s


def make_step(rec, shard, tier):
    sub = shard[0]
    name = "/".join(str(x) for x in shard)
    seen = set()
    bad = set()

    def fail(cat, ms_key, hist_, op, problem, kind=None):
        sig = "%s %s: %s -> %s" % (cat, name, op_text(op), problem)
        detail = "history: %s; then %s -> %s" % ("; ".join(op_text(h) for h in hist_) or "(initial)", op_text(op), problem)
        rec.violation(sig, detail, dict(shard=shard, tier=tier, history=[list(h) for h in hist_], op=op), kind=kind or (cat, op[0], re.sub(r"[\[\(].*", "", problem)))

    def op_text(op):
        if op[0] == "set":
            return "%s = %s" % (op[1], op[2])
        if op[0] == "bset":
            return "%s.p = %s" % (op[1], op[2]) if not shard[1].startswith("m2m") else "%s.ps.%s(p1)" % (op[1], "append" if op[2] else "remove")
        if op[0] == "coll":
            return "cs.%s(%s)" % (op[1][0], ", ".join(str(x) for x in op[1][1:]))
        if op[0] == "assign":
            return "cs = %s" % render(op[1])
        return " ".join(str(x) for x in op)

    # ---- builders per sub-world
    if sub == "col":
        build = lambda: col_build(shard[1])  # noqa: E731
        apply_impl = col_apply
        canon = col_canon
        attrs = lambda ctx: [(ctx.o, "x"), (ctx.o, "y")]  # noqa: E731
    elif sub == "ref":
        build = lambda: ref_build(shard[1], shard[2], len(shard) > 3)  # noqa: E731
        apply_impl = ref_apply
        canon = ref_canon
    else:
        build = lambda: coll_build(shard[1], shard[2], len(shard) > 3)  # noqa: E731
        apply_impl = lambda ctx, op: coll_apply_impl(ctx, shard[1], op)  # noqa: E731
        canon = lambda ctx: coll_canon(ctx, shard[1])  # noqa: E731

    def replay_hist(ctx, hist_):
        for h in hist_:
            try:
                apply_impl(ctx, h)
            except PY_ERRORS:
                pass

    def subject_models(ms):
        if sub == "col":
            return [("x", ms.a["x"]), ("y", ms.a["y"])]
        if sub == "ref":
            return [("p", ms.m)]
        return [("cs", ms.m)]

    def observe_values(ctx, ms, hist_, op):
        """loaded values equal the model's; loadedness is adopted"""
        d = ctx.o.__dict__
        for a, m in subject_models(ms):
            present = a in d
            if sub == "coll":
                if present:
                    v = d[a]
                    names = [_nm(x) for x in (v.values() if isinstance(v, dict) else v)]
                    if not m.loaded:
                        ms.load()
                    if sorted(names) != sorted(members(m.cur)):
                        fail("value", None, hist_, op, "cs holds %s, reference %s" % (sorted(names), sorted(members(m.cur))))
                        return False
                    if ms.shape == "list":
                        m.cur = names
                elif m.loaded and not m.dirty:
                    m.loaded, m.cur = False, None  # not materialised / unloaded again: reads from the row
                elif m.loaded and ms.status == "persistent":
                    fail("value", None, hist_, op, "cs is unloaded, reference holds %s" % render(m.cur))
                    return False
                elif m.loaded and not members(m.cur):
                    pass
                elif m.loaded:
                    fail("value", None, hist_, op, "cs is absent, reference holds %s" % render(m.cur))
                    return False
                continue
            val = d.get(a)
            if sub == "ref" and val is not None:
                val = _nm(val)
            if present:
                if not m.loaded:
                    # something loaded it (refresh of the row): must be the row value
                    m.loaded, m.cur, m.absent = True, m.row, False
                if m.absent and not m.dirty and val == m.row:
                    m.absent, m.cur = False, m.row  # re-read from the row
                if m.absent or val != m.cur:
                    fail("value", None, hist_, op, "%s is %r in memory, reference %s" % (a, val, "no value" if m.absent else repr(m.cur)))
                    return False
            else:
                if m.loaded and not m.absent:
                    if m.dirty:
                        fail("value", None, hist_, op, "%s lost its pending value %r" % (a, m.cur))
                        return False
                    m.loaded, m.cur = False, None  # unloaded by the operation (flush expires server-side values etc.)
        return True

    def check_histories(ctx, ms, hist_, op, load=False):
        for a, m in subject_models(ms):
            try:
                h = hist_tuple(ctx.o, a, load=load)
            except (sa_exc.SQLAlchemyError, AssertionError, KeyError) as e:
                fail("raised", None, hist_, op, "%s.history raised %s" % (a, type(e).__name__))
                return False
            problem = m.check(h)
            rec.outcome((sub, op[0], a, tuple(len(x) for x in h), load))
            if problem:
                fail("history" if not load else "load_history", None, hist_, op, "%s: %s" % (a, problem))
                return False
        return True

    def check_flush(ctx, ms_before, ms, hist_, op, stmts):
        """the flush wrote exactly the net change"""
        w = ctx.w
        if sub == "col":
            was_pending = ms_before.status == "pending"
            ups = update_sets(stmts, "p")
            exp = tuple(sorted(k for k, m in ms_before.a.items() if m.changed()))
            if was_pending:
                if ups:
                    fail("flush", None, hist_, op, "INSERT of a pending object also emitted UPDATE %r" % (ups,))
                    return False
            else:
                got = tuple(sorted(c for cols, _ in ups for c in cols))
                if got != exp:
                    fail("flush", None, hist_, op, "UPDATE sets %r, attributes with a net change %r" % (got, exp))
                    return False
            row = w.raw_rows("select x, y from p")
            want = (ms.a["x"].row, ms.a["y"].row)
            if not row or tuple(row[0]) != want:
                fail("flush", None, hist_, op, "row is %r, current values %r" % (row, want))
                return False
        elif sub == "ref":
            row = w.raw_rows("select p_id from c where id = 11")
            want = w.pk(ms.m.row) if ms.m.row else None
            if not row or row[0][0] != want:
                fail("flush", None, hist_, op, "c1.p_id is %r in the row, current parent %r" % (row, ms.m.row))
                return False
            ups = update_sets(stmts, "c")
            before_fk = w.pk(ms_before.m.row) if ms_before.m.row else None
            if ms_before.status == "persistent":
                if want != before_fk and not ups:
                    fail("flush", None, hist_, op, "foreign key changed %r -> %r without UPDATE" % (before_fk, want))
                    return False
                if ups and not ms_before.m.changed() and ctx.fk_loaded:
                    # (with the foreign key column itself unloaded the committed
                    # value is unknown and writing the same value is allowed)
                    fail("flush", None, hist_, op, "UPDATE %r although the reference has no net change" % (ups,))
                    return False
        else:
            rows = coll_rows(ctx, shard[1])
            for c in CH:
                if rows.get(c) != ms.rowrel[c]:
                    fail("flush", None, hist_, op, "%s's parent in the database is %r, in memory %r" % (c, rows.get(c), ms.rowrel[c]))
                    return False
            if ms_before.status == "persistent":
                changed = sorted(c for c in CH if ms_before.rowrel[c] != ms.rowrel[c])
                if shard[1].startswith("m2m"):
                    ins = sorted("c%d" % (p[1] - 10) for sql, ps in stmts if sql.startswith("INSERT INTO pc") for p in ([ps] if isinstance(ps, tuple) else ps))
                    dels = sorted("c%d" % (p[1] - 10) for sql, ps in stmts if sql.startswith("DELETE FROM pc") for p in ([ps] if isinstance(ps, tuple) else ps))
                    exp_ins = sorted(c for c in changed if ms.rowrel[c])
                    exp_del = sorted(c for c in changed if not ms.rowrel[c])
                    if ins != exp_ins or dels != exp_del:
                        fail("flush", None, hist_, op, "association INSERT %r DELETE %r, net change +%r -%r" % (ins, dels, exp_ins, exp_del))
                        return False
                else:
                    touched = sorted("c%d" % (p[-1] - 10) for cols, ps in update_sets(stmts, "c") for p in ([ps] if isinstance(ps, tuple) else ps))
                    # a child whose foreign key was not loaded is written even
                    # when the value turns out to be the same (committed value
                    # unknown): allowed; everything else must be a real change
                    extra = [c for c in touched if c not in changed]
                    if [c for c in changed if c not in touched] or [c for c in extra if c not in ctx.fk_unknown]:
                        fail("flush", None, hist_, op, "UPDATEd child rows %r, children whose parent changed %r" % (touched, changed))
                        return False
        return True

    def step(hist_, ms, op):
        ctx = build()
        try:
            replay_hist(ctx, hist_)
            return _step(ctx, hist_, ms, op)
        finally:
            if ctx.sess is not None:
                ctx.sess.close()

    def _step(ctx, hist_, ms, op):
        m2 = ms.copy()
        mark = ctx.log.mark() if ctx.log else 0
        fk_loaded = "p_id" in ctx.o.__dict__ if sub == "ref" else None
        ctx.fk_loaded = fk_loaded
        if sub == "coll":
            ctx.fk_unknown = {c for c in CH if "p_id" not in ctx.objs[c].__dict__}
        exc = ret = None
        try:
            ret = apply_impl(ctx, op)
        except PY_ERRORS as e:
            if op[0] == "flush":
                facts = ", ".join(
                    "%s: %s" % (a, "deleted" if m.absent else "set") for a, m in subject_models(ms) if m.dirty and m.kind != "coll"
                )
                sig = "flush %s: flush raised %s with pending change {%s}" % (sub, type(e).__name__, facts)
                detail = "history: %s; then flush -> %s: %s" % ("; ".join(op_text(h) for h in hist_) or "(initial)", type(e).__name__, e)
                rec.violation(sig, detail, dict(shard=shard, tier=tier, history=[list(h) for h in hist_], op=op), kind=("flush-raise", type(e).__name__))
                return None
            exc = e
        except (sa_exc.SQLAlchemyError, AssertionError, AttributeError, TypeError) as e:
            fail("raised", None, hist_, op, "raised %s: %s" % (type(e).__name__, str(e).split("\n")[0][:90]), kind=("raise", op[0], type(e).__name__))
            return None
        stmts = ctx.log.since(mark) if ctx.log else []
        exp = None
        try:
            if sub == "ref":
                m2.apply(op, fk_loaded)
            elif sub == "coll":
                choice = None
                if op[0] == "coll" and op[1][0] == "popitem" and exc is None:
                    choice = ret[0]
                elif op[0] == "coll" and op[1] == ["pop"] and shard[1].endswith("-set") and exc is None:
                    choice = _nm(ret)
                m2.apply(op, choice)
            else:
                m2.apply(op)
        except PY_ERRORS as e:
            exp = type(e)
            m2 = ms.copy()
            if sub == "coll":
                m2.load()
        if (exp is None) != (exc is None) or (exp is not None and not isinstance(exc, exp)):
            fail("raised", None, hist_, op, "raised %r, plain type %s" % (exc, exp.__name__ if exp else "succeeds"))
            return None
        if exp is not None and sub == "coll":
            # a failed collection call is not a mutation (its remove event may
            # have reached the child already, see C37): nothing claimed below
            rec.count("failed_collection_ops_not_expanded")
            rec.case((name, ms.key(), repr(op)), nontrivial=False)
            return None
        nontrivial = any(m.changed() for _, m in subject_models(m2)) or (op[0] == "flush" and any(m.changed() for _, m in subject_models(ms)))
        rec.case((name, ms.key(), repr(op)), nontrivial=nontrivial)
        if not observe_values(ctx, m2, hist_, op):
            return None
        if not check_histories(ctx, m2, hist_, op):
            return None
        if op[0] == "flush" and not check_flush(ctx, ms, m2, hist_, op, stmts):
            return None
        if op[0] == "read" and sub != "coll" and exc is None:
            want = subject_models(m2)[0][1] if sub == "ref" else m2.a[op[1]]
            got = _nm(ret) if sub == "ref" and ret is not None else ret
            if got != want.effective():
                fail("value", None, hist_, op, "read returned %r, reference %r" % (got, want.effective()))
                return None
        key = repr((name, canon(ctx)))
        if key in bad:
            return None  # this state already failed its load_history probe (reported once)
        if key not in seen:
            seen.add(key)
            if nontrivial:
                rec.sample(dict(world=name, history=[op_text(h) for h in hist_], op=op_text(op), histories={a: list(map(list, hist_tuple(ctx.o, a))) for a, _ in subject_models(m2)}), limit=3)
            # load_history() on a throw-away copy of the state: loads what is
            # unloaded, then the same net-change rules
            m3 = m2.copy()
            if sub == "col":
                if m3.status == "persistent":
                    m3.load_expired()
            elif sub == "ref":
                if m3.status == "persistent" and not m3.m.loaded:
                    m3.m.loaded, m3.m.cur = True, m3.m.row
            else:
                m3.load()
            if not check_histories(ctx, m3, hist_, op, load=True):
                bad.add(key)
                return None
        return m2, key

    return step


def enabled_for(shard, tier):
    if shard[0] == "coll":
        return coll_enabled_factory(shard[1], tier, len(shard) > 3)
    return lambda ms: ms.enabled()


def initial_model(shard):
    if shard[0] == "col":
        return ColModel(shard[1])
    if shard[0] == "ref":
        return RefModel(shard[1], shard[2])
    return CollModel(shard[1], shard[2])


def depth_for(shard, tier):
    if tier in DEPTH:
        return DEPTH[tier]
    if shard[0] in ("col", "ref"):
        return None  # fixpoint
    return 3 if tier == "quick" else 5


def shards(tier, seed):
    out = [["col", i] for i in COL_INITS]
    out += [["ref", ah, i] for ah in (False, True) for i in REF_INITS]
    out += [["coll", kc, i] for kc in COLL_KINDS for i in COLL_INITS]
    # the same worlds with value-based __eq__/__hash__ on the mapped classes:
    # distinct rows compare equal, references must still be told apart
    out += [["ref", ah, i, "eq"] for ah in (False, True) for i in REF_INITS]
    out += [["coll", "o2m-list", i, "eq"] for i in COLL_INITS]
    return out


def run_shard(shard, tier, rec):
    gc.disable()
    try:
        step = make_step(rec, shard, tier)
        ms = initial_model(shard)
        d = hist.explore(rec, [((), ms, repr(("root", shard)))], enabled_for(shard, tier), step, depth=depth_for(shard, tier), state_cap=200000)
        rec.count("depth_reached " + "/".join(str(x) for x in shard), d)
    finally:
        gc.enable()
        gc.collect()


def replay(case):
    from ..core import Rec, StopShard

    rec = Rec(ID)
    shard, tier = case["shard"], case.get("tier", "quick")
    step = make_step(rec, shard, tier)
    ms = initial_model(shard)
    gc.disable()
    try:
        hist_ = []
        for op in case["history"]:
            out = step(tuple(hist_), ms, op)
            if out is None:
                break
            ms = out[0]
            hist_.append(op)
        else:
            step(tuple(hist_), ms, case["op"])
    except StopShard:
        pass
    finally:
        gc.enable()
    return [(v["sig"], v["detail"]) for v in rec.violations]
