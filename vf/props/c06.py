"""C06 identifier quoting round-trips every representable name (engine I).

Enumerated: every string of length 1..3 (quick) / 1..4 (thorough) over the
14-character alphabet ``a A _ 1 " ` [ ] . % space $ e-acute long-s`` plus every
word of every vendor keyword list and of every dialect's own
``reserved_words`` (about 700 words).

Oracles (all behavioural):

E  SQLite, executed on the real engine, one fresh in-memory database per name.
   The name is used as table + column + UNIQUE + CHECK constraint name, as
   index name, as foreign-key constraint / referred table / referred column
   name and as (attached database) schema name: CREATE, INSERT, SELECT ..
   WHERE .. ORDER BY, UPDATE, DELETE, DROP must all succeed, return the values
   that were stored under that name (so a keyword silently read as a constant
   is caught), result keys must be the name, and Inspector.get_table_names /
   get_columns / get_pk_constraint / get_indexes / get_unique_constraints /
   get_check_constraints / get_foreign_keys / get_schema_names must return the
   same name.
L  Every dialect (postgresql x psycopg2/asyncpg/pg8000, mysql x
   mysqldb/mysqlconnector, mariadb, mssql x pyodbc/pymssql, oracle, sqlite,
   default): ``preparer.quote(name)`` -- after the %-formatting a format /
   pyformat DBAPI applies -- is read by that backend's reference lexer
   (vf.models.sqllex_ref) as exactly one token that denotes `name`: a quoted
   identifier that un-escapes to `name`, or a bare word that is spelled `name`,
   is lower case (SQLAlchemy's case-insensitive convention), matches the
   backend's bare-identifier grammar and is not in the backend's vendor
   reserved-word list (vf.models.keywords_ref).  ``format_table`` / ``format_column``
   with a schema and forced quoting (``quoted_name(.., True)``) are lexed likewise.
U  ``unformat_identifiers`` of the dotted rendering of every pair / triple of
   short names recovers the components (on the server-side text).
N  name-normalising dialects (oracle): what the server stores for the emitted
   identifier (quoted -> as is, bare -> upper case) equals
   ``denormalize_name(name)``; ``normalize_name(S)`` of any server-side name S
   is a name whose emitted form addresses S again.

The lexers and keyword lists are validated at run time (shard "validate"):
shared grammar executed on SQLite, vendor encoders (libmysqlclient, libpq via
psycopg, pymssql, ..) lexed back, SQLite keyword list re-derived by trying
every word of every list bare in 7 positions.  A disagreement there is a
harness error, not a finding.

Failing names are reduced by the driver to the minimal failing name of the
same failure class (characters deleted / replaced by ``a``), so a root cause
has one signature in every shard.

Names a backend cannot represent at all are outside the property and skipped
per backend (counted): empty name, NUL; Oracle: a name containing ``"``;
MySQL/MariaDB: trailing space, non-BMP characters; names colliding with
SQLite's internal namespace (``sqlite_%``) and the schema names ``main`` / ``temp``.

Findings on the unchanged tree (reported; each has one stable signature):
  * SQLite dialect's reserved words lack ``returning`` and ``nothing`` (executed:
    CREATE TABLE fails) -- proposed_fixes/c06_sqlite_reserved_words_returning_nothing.diff
  * SQLite reflection of UNIQUE / CHECK / FOREIGN KEY constraint *names* does not
    un-escape ``""`` and does not accept ``$`` in a bare name (names ``"`` and ``a$``)
  * vendor-documented reserved words missing from the PostgreSQL (5), SQL Server
    (4) and Oracle (23) reserved sets (documentation-based, cannot be executed here)

Mutations caught (each in a private copy, VF_REPO=/tmp/wt-strings/<m>):
  * postgresql RESERVED_WORDS: ``"user"`` removed -> ``reserved-word postgresql: 'user' is rendered bare``
  * IdentifierPreparer._escape_identifier: quote doubling dropped -> exec + lex fail on every name with ``"``
  * LEGAL_CHARACTERS widened by a space -> ``a a`` emitted bare: exec fails, lex ``not-one-identifier-token``
  * MSIdentifierPreparer._escape_identifier: ``]]`` doubling dropped -> ``lex mssql+pyodbc: name ']'``
  * unformat_identifiers: ``_unescape_identifier`` call dropped -> ``unformat ..: components ['"']: unformat-differs``
Not applicable to identifiers (belongs to C05, caught there): pymssql ``_double_percents = False`` removed
(MSSQL's own ``_escape_identifier`` never doubles ``%``).
"""
import itertools
import sqlite3
import warnings

import sqlalchemy as sa
from sqlalchemy import CheckConstraint
from sqlalchemy import Column
from sqlalchemy import ForeignKeyConstraint
from sqlalchemy import Index
from sqlalchemy import inspect
from sqlalchemy import Integer
from sqlalchemy import MetaData
from sqlalchemy import String
from sqlalchemy import Table
from sqlalchemy import UniqueConstraint
from sqlalchemy.pool import NullPool
from sqlalchemy.sql.elements import quoted_name

from ..models import keywords_ref as K
from ..models import sqllex_ref as L

ID = "C06"
LEVEL = "exploration"
META = dict(
    engine="I",
    technique="exhaustive small-scope enumeration of identifier strings + complete keyword lists; execution on SQLite, "
    "reference lexer / vendor keyword model for the other backends",
    design_ref="DESIGN.md §5 C06",
    level_text="Every name within the bound is really used in every identifier role on SQLite (DDL, DML, reflection) and its quoted "
    "form is read back by a reference lexer of each other backend's identifier grammar, including every keyword of every vendor list. "
    "Complete for the bound: any quoting / escaping / reserved-word defect that shows on a name of <=3 (quick) / <=4 (thorough) "
    "characters of the alphabet or on a listed keyword is found.",
    level_note="Trusted: vf.models.sqllex_ref (validated at run time against SQLite and the offline vendor encoders) and the vendor "
    "keyword lists in vf.models.keywords_ref (only SQLite's can be re-derived here; the PostgreSQL / MySQL / MariaDB / SQL Server / Oracle "
    "lists are documentation copies, conservative where in doubt). Non-SQLite backends are judged by grammar, not executed.",
    rule="case = (oracle family, dialect variant, name or name tuple); non-trivial = the name needs quoting under the reference model "
    "(special character, upper case, digit/$ initial, or reserved word) so that quoting / escaping is exercised",
    assumptions=[
        "a backend reads identifiers as described in vf.models.sqllex_ref; format/pyformat DBAPIs turn %% into % (pymssql, pg8000, mysqlconnector do not, as their dialects state)",
        "vendor reserved-word lists as of PostgreSQL 16, MySQL 8.0, SQL Server 2022, Oracle 19c, SQLite 3.40",
    ],
    bounds=dict(
        quick="all names of length 1..3 over 14 characters + ~700 keywords; dotted pairs of names <=2 and triples of names <=1; 13 dialect variants",
        thorough="all names of length 1..4 over 14 characters + ~700 keywords; dotted pairs of names <=2, triples of names <=1 + 30 idioms; 13 dialect variants",
    ),
)

ALPHA = ["a", "A", "_", "1", '"', "`", "[", "]", ".", "%", " ", "$", "é", "ſ"]
_ORDER = {ch: i for i, ch in enumerate(ALPHA)}


def names_upto(n, lo=1):
    for k in range(lo, n + 1):
        for t in itertools.product(ALPHA, repeat=k):
            yield "".join(t)


# ------------------------------------------------------------------ dialect variants


def _variants():
    from sqlalchemy.dialects import mssql
    from sqlalchemy.dialects import mysql
    from sqlalchemy.dialects import oracle
    from sqlalchemy.dialects import postgresql
    from sqlalchemy.dialects import sqlite
    from sqlalchemy.dialects.mssql import pymssql
    from sqlalchemy.dialects.mssql import pyodbc
    from sqlalchemy.dialects.mysql import mariadb
    from sqlalchemy.dialects.mysql import mysqlconnector
    from sqlalchemy.dialects.mysql import mysqldb
    from sqlalchemy.dialects.postgresql import asyncpg
    from sqlalchemy.dialects.postgresql import pg8000
    from sqlalchemy.dialects.postgresql import psycopg2
    from sqlalchemy.engine import default

    # name -> (dialect factory, grammar, keyword set key, does the DBAPI un-double %%)
    def maria():
        d = mariadb.MariaDBDialect()
        d.is_mariadb = True
        d.identifier_preparer._set_mariadb()
        return d

    return {
        "postgresql+psycopg2": (psycopg2.dialect, "postgresql", "postgresql", True),
        "postgresql+asyncpg": (asyncpg.dialect, "postgresql", "postgresql", False),
        "postgresql+pg8000": (pg8000.dialect, "postgresql", "postgresql", False),
        "mysql+mysqldb": (mysqldb.dialect, "mysql", "mysql", True),
        "mysql+mysqlconnector": (mysqlconnector.dialect, "mysql", "mysql", False),
        "mariadb": (maria, "mysql", "mariadb", True),
        "mssql+pyodbc": (lambda: pyodbc.dialect(paramstyle="qmark"), "mssql", "mssql", False),
        "mssql+pymssql": (lambda: pymssql.dialect(paramstyle="pyformat"), "mssql", "mssql", False),
        "oracle": (oracle.dialect, "oracle", "oracle", False),
        "sqlite": (sqlite.dialect, "sqlite", "sqlite", False),
        "default": (default.DefaultDialect, "postgresql", None, False),
    }


_VCACHE = {}


def variant(vname):
    if vname not in _VCACHE:
        fac, gname, kwkey, undouble = _variants()[vname]
        d = fac()
        _VCACHE[vname] = (d, L.GRAMMARS[gname], kwkey, undouble)
    return _VCACHE[vname]


VARIANT_NAMES = [
    "postgresql+psycopg2",
    "postgresql+asyncpg",
    "postgresql+pg8000",
    "mysql+mysqldb",
    "mysql+mysqlconnector",
    "mariadb",
    "mssql+pyodbc",
    "mssql+pymssql",
    "oracle",
    "sqlite",
    "default",
]

_SQLITE_RESERVED_OBSERVED = None


def sqlite_reserved_observed():
    """words SQLite 3.40 really rejects / mis-reads bare, derived by execution over every listed word"""
    global _SQLITE_RESERVED_OBSERVED
    if _SQLITE_RESERVED_OBSERVED is None:
        _SQLITE_RESERVED_OBSERVED = {w: tuple(K.sqlite_bare_failures(w, sqlite3)) for w in all_words()}
        _SQLITE_RESERVED_OBSERVED = {w: v for w, v in _SQLITE_RESERVED_OBSERVED.items() if v}
    return _SQLITE_RESERVED_OBSERVED


_WORDS = None


def all_words():
    global _WORDS
    if _WORDS is None:
        s = set(K.all_words())
        from sqlalchemy.dialects.mysql import reserved_words as rw

        s |= set(rw.RESERVED_WORDS_MARIADB) | set(rw.RESERVED_WORDS_MYSQL)
        for vn in VARIANT_NAMES:
            s |= set(variant(vn)[0].identifier_preparer.reserved_words)
        _WORDS = sorted(w.lower() for w in s)
    return _WORDS


def reserved_ref(kwkey):
    if kwkey is None:
        return frozenset()
    if kwkey == "sqlite":
        return frozenset(sqlite_reserved_observed())
    return K.RESERVED[kwkey]


# ------------------------------------------------------------------ oracle L (lexer) on one name


def server_text(sql, dialect, undouble):
    if undouble:
        t, err = L.driver_format(sql, dialect.paramstyle)
        return t, err
    if dialect.paramstyle in ("format", "pyformat"):
        # a DBAPI that does not un-double: the text goes out as is
        return sql, None
    return sql, None


def judge_token(text, name, g, kwset, forced=False):
    """is `text` exactly one identifier token denoting `name` for grammar g?  returns None or a failure kind+detail"""
    tok = L.lex_single(text, g)
    if tok.kind == "qid":
        if tok.value != name:
            return "quoted-identifier-denotes-other-name", "%r reads as %r" % (text, tok.value)
        return None
    if tok.kind == "word":
        if forced:
            return "forced-quote-not-quoted", "%r" % (text,)
        if tok.text != name:
            return "bare-identifier-differs", "%r" % (text,)
        if name != name.lower():
            return "bare-identifier-not-lower-case", "%r would be case-folded by the backend" % (text,)
        if name.lower() in kwset:
            return "reserved-word-unquoted", "%r is reserved (%s)" % (text, g.name)
        if not g.bare_re.match(name) or name.isdigit():
            return "bare-identifier-illegal", "%r is not a legal bare identifier" % (text,)
        return None
    return "not-one-identifier-token", "%r lexes as %s %r" % (text, tok.kind, tok.value if tok.kind == "bad" else tok.text)


def needs_quote_ref(name, g, kwset):
    return not (name == name.lower() and g.bare_re.match(name) and not name.isdigit() and name.lower() not in kwset)


def check_lex(vname, name):
    """returns (list of (kind, detail), nontrivial)"""
    d, g, kwkey, undouble = variant(vname)
    if not L.representable_ident(name, g):
        return None, False
    kwset = reserved_ref(kwkey)
    prep = d.identifier_preparer
    out = []
    for label, fn, forced in (
        ("quote", lambda: prep.quote(name), False),
        ("quote_schema", lambda: prep.quote_schema(name) if not (vname.startswith("mssql") and any(ch in name for ch in ".[]")) else prep.quote(name), False),
        ("format_column", lambda: prep.format_column(sa.column(name)), False),
        ("forced", lambda: prep.quote(quoted_name(name, True)), True),
    ):
        try:
            sql = fn()
        except Exception as e:
            out.append((label + "-raises", "%s: %s" % (type(e).__name__, e)))
            continue
        txt, err = server_text(sql, d, undouble)
        if err:
            out.append((label + "-stray-percent", "%r: %s" % (sql, err)))
            continue
        if not undouble and "%" in name and sql.count("%") != name.count("%"):
            out.append((label + "-percent-doubled-for-non-formatting-driver", "%r" % (sql,)))
            continue
        r = judge_token(txt, name, g, kwset, forced)
        if r:
            out.append((label + ":" + r[0], r[1]))
    # normalize / denormalize (oracle style)
    if getattr(d, "requires_name_normalize", False):
        fold = lambda text: (lambda t: t.value if t.kind == "qid" else (t.text.upper() if t.kind == "word" else None))(L.lex_single(text, g))  # noqa: E731
        try:
            stored = fold(prep.quote(name))
            dn = d.denormalize_name(name)
            if stored is not None and dn != stored:
                out.append(("denormalize-differs-from-emitted", "emitted %r is stored as %r, denormalize_name gives %r" % (prep.quote(name), stored, dn)))
            # every string is also a possible server-side name S
            nn = d.normalize_name(name)
            back = fold(prep.quote(nn))
            if back != name:
                out.append(("normalize-addresses-other-name", "server name %r normalizes to %r which is emitted as %r -> %r" % (name, nn, prep.quote(nn), back)))
            rt = d.normalize_name(d.denormalize_name(name))
            if fold(prep.quote(rt)) != stored:
                out.append(("normalize-denormalize-roundtrip", "%r -> %r -> %r" % (name, dn, rt)))
        except Exception as e:
            out.append(("normalize-raises", "%s: %s" % (type(e).__name__, e)))
    return out, needs_quote_ref(name, g, kwset)


def check_unformat(vname, comps):
    d, g, kwkey, undouble = variant(vname)
    if not all(L.representable_ident(c, g) for c in comps):
        return None
    prep = d.identifier_preparer
    try:
        sql = ".".join(prep.quote(c) for c in comps)
        txt, err = server_text(sql, d, undouble)
        got = list(prep.unformat_identifiers(txt))
    except Exception as e:
        return [("unformat-raises", "%s: %s" % (type(e).__name__, e))]
    if got != list(comps):
        return [("unformat-differs", "%r -> %r" % (txt, got))]
    if len(comps) == 2 and not vname.startswith("mssql"):
        t = Table(comps[1], MetaData(), schema=comps[0])
        try:
            sql2 = prep.format_table(t)
        except Exception as e:
            return [("format_table-raises", "%s: %s" % (type(e).__name__, e))]
        if sql2 != sql:
            return [("format_table-differs-from-quote", "%r vs %r" % (sql2, sql))]
    return []


# ------------------------------------------------------------------ oracle E (executed on SQLite)


_ENGINE = None


def engine():
    global _ENGINE
    if _ENGINE is None:
        _ENGINE = sa.create_engine("sqlite://", poolclass=NullPool)
    return _ENGINE


def sqlite_representable(name):
    if name == "" or "\0" in name:
        return False
    if name.lower().startswith("sqlite_"):
        return False
    return True


class _Fail(Exception):
    pass


_EXEC_MEMO = {}


def exec_scenarios(name):
    """returns list of (kind, detail); kind names role + step (memoised per process: deterministic, fresh database each time)"""
    if name not in _EXEC_MEMO:
        if len(_EXEC_MEMO) > 20000:
            _EXEC_MEMO.clear()
        _EXEC_MEMO[name] = _exec_scenarios(name)
    return _EXEC_MEMO[name]


def _exec_scenarios(name):
    out = []

    def step(role, tag, fn):
        try:
            return fn()
        except (sa.exc.SQLAlchemyError, sqlite3.Error) as e:
            msg = str(getattr(e, "orig", e)).split("\n")[0]
            out.append(("%s:%s-fails" % (role, tag), "%s: %s" % (type(e).__name__, msg[:120])))
            raise _Fail()

    def expect(role, tag, got, want):
        if got != want:
            out.append(("%s:%s" % (role, tag), "got %r expected %r" % (got, want)))

    other = "vf_o" if name.lower() != "vf_o" else "vf_p"
    # ---- role: table + column + unique + check constraint
    try:
        with engine().connect() as conn:
            m = MetaData()
            t = Table(
                name,
                m,
                Column(name, Integer, primary_key=True),
                Column(other, String),
                UniqueConstraint(other, name=name),
                CheckConstraint(sa.column(name) > 0, name=name),
            )
            step("table", "create", lambda: m.create_all(conn))
            step("table", "insert", lambda: conn.execute(t.insert(), [{name: 17, other: "x"}, {name: 4, other: "y"}]))
            r = step("column", "select", lambda: conn.execute(sa.select(t.c[name], t.c[other]).where(t.c[name] == 17).order_by(t.c[name])).all())
            expect("column", "select-value", [tuple(x) for x in r], [(17, "x")])
            r = step("column", "select-keys", lambda: [dict(x) for x in conn.execute(sa.select(t).where(t.c[name] == 17)).mappings()])
            expect("column", "result-key", r, [{name: 17, other: "x"}])
            r = step("column", "select-labelled", lambda: [dict(x) for x in conn.execute(sa.select(t).set_label_style(sa.LABEL_STYLE_TABLENAME_PLUS_COL).where(t.c[name] == 17)).mappings()])
            expect("column", "result-key-labelled", r, [{name + "_" + name: 17, name + "_" + other: "x"}])
            al = t.alias(name)
            r = step("alias", "select", lambda: conn.execute(sa.select(al.c[name].label(name)).where(al.c[name] == 4)).mappings().all())
            expect("alias", "select-value", [dict(x) for x in r], [{name: 4}])
            step("column", "update", lambda: conn.execute(t.update().where(t.c[name] == 4).values({name: 5})))
            r = step("column", "select2", lambda: conn.execute(sa.select(t.c[name]).order_by(t.c[name].desc())).scalars().all())
            expect("column", "update-value", r, [17, 5])
            insp = inspect(conn)
            expect("table", "reflect-name", step("table", "get_table_names", insp.get_table_names), [name])
            expect("column", "reflect-name", step("column", "get_columns", lambda: [c["name"] for c in insp.get_columns(name)]), [name, other])
            expect("column", "reflect-pk", step("column", "get_pk_constraint", lambda: insp.get_pk_constraint(name)["constrained_columns"]), [name])
            expect(
                "constraint",
                "reflect-unique-name",
                step("constraint", "get_unique_constraints", lambda: [(u["name"], u["column_names"]) for u in insp.get_unique_constraints(name)]),
                [(name, [other])],
            )
            expect(
                "constraint",
                "reflect-check-name",
                step("constraint", "get_check_constraints", lambda: [u["name"] for u in insp.get_check_constraints(name)]),
                [name],
            )
            m2 = MetaData()
            t2 = step("table", "autoload", lambda: Table(name, m2, autoload_with=conn))
            expect("table", "autoload-columns", [c.name for c in t2.columns], [name, other])
            step("column", "delete", lambda: conn.execute(t.delete().where(t.c[name] == 5)))
            step("table", "drop", lambda: m.drop_all(conn))
            conn.commit()
    except _Fail:
        pass
    # ---- role: index name
    try:
        with engine().connect() as conn:
            m = MetaData()
            tn = "vf_t" if name.lower() != "vf_t" else "vf_u"
            t3 = Table(tn, m, Column("c", Integer), Column(name, Integer))
            ix = Index(name, t3.c.c, t3.c[name])
            step("index", "create", lambda: m.create_all(conn))
            insp = inspect(conn)
            got = step("index", "get_indexes", lambda: [(i["name"], i["column_names"]) for i in insp.get_indexes(tn)])
            expect("index", "reflect-name", got, [(name, ["c", name])])
            step("index", "drop", lambda: ix.drop(conn))
            expect("index", "dropped", step("index", "get_indexes2", lambda: inspect(conn).get_indexes(tn)), [])
            step("table", "drop2", lambda: m.drop_all(conn))
            conn.commit()
    except _Fail:
        pass
    # ---- role: foreign key constraint name / referred table / referred column
    try:
        with engine().connect() as conn:
            m = MetaData()
            tn = "vf_t" if name.lower() != "vf_t" else "vf_u"
            t = Table(name, m, Column(name, Integer, primary_key=True))
            Table(tn, m, Column("c", Integer), Column(name, Integer), ForeignKeyConstraint([name], [t.c[name]], name=name))
            step("constraint", "create-fk", lambda: m.create_all(conn))
            insp = inspect(conn)
            fk = step("constraint", "get_foreign_keys", lambda: [(f["name"], f["constrained_columns"], f["referred_table"], f["referred_columns"]) for f in insp.get_foreign_keys(tn)])
            expect("constraint", "reflect-fk", fk, [(name, [name], name, [name])])
            step("table", "drop3", lambda: m.drop_all(conn))
            conn.commit()
    except _Fail:
        pass
    # ---- role: schema (attached database)
    if name.lower() not in ("main", "temp"):
        try:
            with engine().connect() as conn:
                q = '"' + name.replace('"', '""') + '"'
                conn.exec_driver_sql("ATTACH DATABASE ':memory:' AS " + q)
                m = MetaData()
                t = Table("vf_t", m, Column("c", Integer, primary_key=True), Column("d", Integer), schema=name)
                tc = Table("vf_c", m, Column("c", Integer, sa.ForeignKey(t.c.c)), schema=name)
                Index("vf_ix", t.c.d)
                step("schema", "create", lambda: m.create_all(conn))
                step("schema", "insert", lambda: conn.execute(t.insert(), [{"c": 3, "d": 4}]))
                r = step("schema", "select", lambda: conn.execute(sa.select(t.c.c, t.c.d).where(t.c.c == 3)).all())
                expect("schema", "select-value", [tuple(x) for x in r], [(3, 4)])
                step("schema", "update", lambda: conn.execute(t.update().values(d=5)))
                insp = inspect(conn)
                sn = step("schema", "get_schema_names", insp.get_schema_names)
                expect("schema", "reflect-name", sorted(sn), sorted(["main", name]))
                expect("schema", "reflect-tables", step("schema", "get_table_names", lambda: insp.get_table_names(schema=name)), ["vf_c", "vf_t"])
                expect("schema", "reflect-columns", step("schema", "get_columns", lambda: [c["name"] for c in insp.get_columns("vf_t", schema=name)]), ["c", "d"])
                expect("schema", "reflect-indexes", step("schema", "get_indexes", lambda: [i["name"] for i in insp.get_indexes("vf_t", schema=name)]), ["vf_ix"])
                fk = step("schema", "get_foreign_keys", lambda: [(f["referred_schema"], f["referred_table"]) for f in insp.get_foreign_keys("vf_c", schema=name)])
                expect("schema", "reflect-fk-schema", fk, [(name, "vf_t")])
                step("schema", "drop", lambda: m.drop_all(conn))
                conn.commit()
        except _Fail:
            pass
    return out


# ------------------------------------------------------------------ minimisation of failing names


def _shrinks(name):
    for i in range(len(name)):
        yield name[:i] + name[i + 1 :]
    for i in range(len(name)):
        if name[i] != "a":
            yield name[:i] + "a" + name[i + 1 :]


def _nkey(name):
    return (len(name), [_ORDER.get(ch, 99) for ch in name])


def minimise(name, kind, fails_fn):
    """smallest name (by deletion / replacement with 'a') on which fails_fn(name) still reports `kind`"""
    if name.isalpha() and name.isascii() and len(name) > 1 and name == name.lower():
        return name  # keywords are their own minimal case
    cur = name
    improved = True
    while improved:
        improved = False
        for cand in sorted(set(_shrinks(cur)), key=_nkey):
            if cand == "" or _nkey(cand) >= _nkey(cur):
                continue
            res = fails_fn(cand)
            if res and any(k == kind for k, _ in res):
                cur = cand
                improved = True
                break
    return cur


# ------------------------------------------------------------------ shards


def _name_list(tier):
    n = 3 if tier == "quick" else 4
    return list(names_upto(n))


IDIOMS = ["select", "user", "order", "a.b", 'a"b', "a`b", "a]b", "a b", "A", "%(x)s", "%s", "a%%b", "tAbLe", "été", "1a", "$a", "_a", "a$", "a#", "a@b", "a-b", "a/b", "a\\b", "a'b", "a;b", "a--b", "a/*b", ":a", "?", "a\nb"]


def shards(tier, seed):
    out = [("validate",)]
    nexec = 16 if tier == "quick" else 96
    for i in range(nexec):
        out.append(("exec", i, nexec))
    out.append(("exec-words", 0, 4))
    out.append(("exec-words", 1, 4))
    out.append(("exec-words", 2, 4))
    out.append(("exec-words", 3, 4))
    for vn in VARIANT_NAMES:
        nl = 1 if tier == "quick" else 4
        for i in range(nl):
            out.append(("lex", vn, i, nl))
        for i in range(8):
            out.append(("lex-words", vn, i, 8))
        out.append(("unformat", vn))
    return out


def _report(rec, family, vname, name, res, fails_fn):
    """one signature per minimal failing name, listing every failure kind that name shows;
    a vendor-reserved word rendered bare is one signature per (backend, word) whatever the driver variant / entry point"""
    minima = []
    for kind, detail in res:
        if kind.endswith(":reserved-word-unquoted"):
            kwkey = variant(vname)[2]
            rec.violation(
                "reserved-word %s: %r is rendered bare" % (kwkey, name),
                "%s; %s.identifier_preparer.quote(%r) -> %s; source of the list: %s" % (detail, vname, name, variant(vname)[0].identifier_preparer.quote(name), K.SOURCES[kwkey]),
                dict(family="lex", variant=vname, name=name),
            )
            continue
        mn = minimise(name, kind, fails_fn)
        if mn not in minima:
            minima.append(mn)
    for mn in minima:
        rm = [(k, d) for k, d in fails_fn(mn) if not k.endswith(":reserved-word-unquoted")]
        kinds = sorted(set(k for k, _ in rm))
        sig = "%s%s: name %r: %s" % (family, " " + vname if vname else "", mn, "; ".join(kinds))
        rec.violation(sig, " | ".join("%s: %s" % kd for kd in rm) + " (first seen on %r)" % (name,), dict(family=family, variant=vname, name=mn))


def run_shard(shard, tier, rec):
    warnings.simplefilter("ignore")
    fam = shard[0]
    if fam == "validate":
        _validate(rec, tier)
        return
    if fam in ("exec", "exec-words"):
        if fam == "exec":
            pool = _name_list(tier) + (IDIOMS if shard[1] == 0 else [])
        else:
            pool = all_words()
        kwset = reserved_ref("sqlite")
        g = L.GRAMMARS["sqlite"]
        for idx, name in enumerate(pool):
            if idx % shard[2] != shard[1]:
                continue
            if not sqlite_representable(name):
                rec.count("excluded_not_representable")
                continue
            res = exec_scenarios(name)
            nt = needs_quote_ref(name, g, kwset)
            rec.case(("exec", name), nontrivial=nt)
            rec.outcome(("exec", tuple(k for k, _ in res), engine().dialect.identifier_preparer.quote(name) != name))
            if nt and (idx // shard[2]) % 97 == 3:
                rec.sample(dict(family="exec", name=name, rendered=engine().dialect.identifier_preparer.quote(name), failures=[k for k, _ in res]))
            if res:
                _report(rec, "exec sqlite", "", name, res, exec_scenarios)
        return
    if fam in ("lex", "lex-words"):
        vn = shard[1]
        pool = (_name_list(tier) + IDIOMS) if fam == "lex" else all_words()
        for idx, name in enumerate(pool):
            if idx % shard[3] != shard[2]:
                continue
            res, nt = check_lex(vn, name)
            if res is None:
                rec.count("excluded_not_representable")
                continue
            rec.case(("lex", vn, name), nontrivial=nt)
            rec.outcome(("lex", vn, variant(vn)[0].identifier_preparer.quote(name) == name, tuple(k for k, _ in res)))
            if nt and idx % 1013 == 7:
                rec.sample(dict(family="lex", variant=vn, name=name, rendered=variant(vn)[0].identifier_preparer.quote(name)))
            if res:
                _report(rec, "lex", vn, name, res, lambda n, vn=vn: (check_lex(vn, n)[0] or []))
        return
    if fam == "unformat":
        vn = shard[1]
        s1 = list(names_upto(1))
        s2 = list(names_upto(2)) + IDIOMS
        n = 0
        for comps in itertools.chain(itertools.product(s2, repeat=2), itertools.product(s1, repeat=3), ((a,) for a in s2)):
            res = check_unformat(vn, comps)
            if res is None:
                rec.count("excluded_not_representable")
                continue
            n += 1
            nt = any(ch in c for c in comps for ch in '."`[]%')
            rec.case(("unformat", vn, comps), nontrivial=nt)
            rec.outcome(("unformat", vn, tuple(k for k, _ in res)))
            if nt and n % 20011 == 5:
                rec.sample(dict(family="unformat", variant=vn, components=list(comps)))
            for kind, detail in res:
                mc = _min_comps(vn, comps, kind)
                r2 = [d for k, d in (check_unformat(vn, mc) or []) if k == kind]
                rec.violation("unformat %s: components %r: %s" % (vn, list(mc), kind), (r2[0] if r2 else detail) + " (first seen on %r)" % (list(comps),), dict(family="unformat", variant=vn, comps=list(mc)))
        return
    raise AssertionError("unknown shard %r" % (shard,))


def _min_comps(vn, comps, kind):
    cur = tuple(comps)

    def fails(c):
        r = check_unformat(vn, c)
        return bool(r) and any(k == kind for k, _ in r)

    improved = True
    while improved:
        improved = False
        cands = []
        if len(cur) > 1:
            for i in range(len(cur)):
                cands.append(cur[:i] + cur[i + 1 :])
        for i, c in enumerate(cur):
            for s in _shrinks(c):
                if s:
                    cands.append(cur[:i] + (s,) + cur[i + 1 :])
        key = lambda c: (len(c), sum(len(x) for x in c), [_nkey(x) for x in c])  # noqa: E731
        for cand in sorted(set(cands), key=key):
            if key(cand) < key(cur) and fails(cand):
                cur = cand
                improved = True
                break
    return cur


def _validate(rec, tier):
    """conformance of the reference models; disagreement = harness error"""
    strs = [""] + list(names_upto(3 if tier == "quick" else 3)) + ["a'b", "a\\b", "a''b\\\\", "\\'", "a\nb"]
    conn = sqlite3.connect(":memory:")
    n, bad = L.validate_against_sqlite(strs, strs, conn)
    conn.close()
    if bad:
        raise AssertionError("reference lexer disagrees with SQLite: %r" % (bad[:3],))
    rec.count("lexer_checks_against_sqlite", n)
    n2, bad2, names = L.validate_against_vendors(strs)
    if bad2:
        raise AssertionError("reference lexer disagrees with vendor encoder: %r" % (bad2[:3],))
    rec.count("lexer_checks_against_vendor_encoders", n2)
    rec.note("vendor encoders used for lexer validation: " + ", ".join(names))
    obs = sqlite_reserved_observed()
    listed = set(K.SQLITE_KEYWORDS)
    unlisted = sorted(w for w in obs if w not in listed)
    if unlisted:
        raise AssertionError("SQLite rejects bare words missing from keywords_ref.SQLITE_KEYWORDS: %r" % (unlisted,))
    rec.count("sqlite_keywords_listed", len(listed))
    rec.count("sqlite_keywords_really_reserved", len(obs))
    rec.count("words_tried_bare_on_sqlite", len(all_words()))
    rec.case(("validate",), nontrivial=False, n=n + n2 + len(all_words()))


def replay(case):
    warnings.simplefilter("ignore")
    fam = case["family"]
    rec = _MiniRec()
    if fam == "exec sqlite":
        res = exec_scenarios(case["name"])
        if res:
            _report(rec, fam, "", case["name"], res, exec_scenarios)
    elif fam == "lex":
        vn = case["variant"]
        res, _ = check_lex(vn, case["name"])
        if res:
            _report(rec, "lex", vn, case["name"], res, lambda n, vn=vn: (check_lex(vn, n)[0] or []))
    elif fam == "unformat":
        res = check_unformat(case["variant"], tuple(case["comps"]))
        return [("unformat %s: components %r: %s" % (case["variant"], case["comps"], k), d) for k, d in (res or [])]
    else:
        raise AssertionError(fam)
    return rec.out


class _MiniRec:
    def __init__(self):
        self.out = []

    def violation(self, sig, detail, case, kind=None):
        self.out.append((sig, detail))
