"""C27 disconnect handling: fault enumeration over operation histories (engine F over H).

A real ``Engine`` (QueuePool(2, 0)) runs over the ledger proxy of ``sqlite3``
(``vf.engines.faults``) against a file-backed database; before the history starts two pooled
connections exist: the one the ``Connection`` under test holds and one idle one opened
earlier.  A history is a sequence of

    exec (insert a fresh marker)   sel (select + fetchall)   begin   begin_nested
    conn.commit   conn.rollback   sp.commit   sp.rollback (innermost savepoint handle)
    reconn (conn.close(); conn = engine.connect())

and every operation may carry one injected fault: *the j-th driver call this operation makes
raises* a disconnect-class error (``sqlite3.ProgrammingError("Cannot operate on a closed
database.")``, classified by the real ``SQLiteDialect_pysqlite.is_disconnect``; the underlying
connection is really closed, so its uncommitted work is gone) or a plain
``sqlite3.OperationalError("boom")`` (thorough: also ``KeyboardInterrupt``).  The number of
calls is learnt from the fault-free run of the same operation in the same state, so *every*
driver-call position of *every* operation in *every* reachable state gets every fault kind
(1 fault per history quick, <= 2 thorough).  Configurations: ``handle_error`` listener in
{none, forces is_disconnect=True, forces False, invalidate_pool_on_disconnect=False} x
``pool_pre_ping`` on/off.  Exploration is breadth first with canonical-state dedupe (the state
contains the model, the public flags of the real objects and the pool / ledger summary).

Oracle (the statement, clause by clause; "classified" = what the dialect + listener decide):
 P1 a classified disconnect raised out of a Connection operation carries
    ``connection_invalidated=True`` and leaves ``conn.invalidated`` True;
 P2 the failing DBAPI connection and -- unless the listener switched pool invalidation off --
    every connection opened before the failure never receives another driver call except
    ``close`` and is never the Connection's connection again (ledger ids);
 P3 after a classified disconnect inside a transaction every exec / select / begin_nested /
    commit / savepoint release raises a SQLAlchemy error until ``conn.rollback()`` (savepoint
    rollbacks alone are accepted silently but do not lift the block); nothing of the lost
    transaction ever becomes visible to the observer (no silent continuation);
 P4 afterwards the same ``Connection`` works again on a *new* ledger id, and what it commits is
    exactly what was executed after the reconnect (reference: ``vf.models.txmodel``);
 P5 an error that is not classified as a disconnect leaves ``conn.invalidated`` False, keeps
    the same ledger id in the Connection, closes nothing and leaves ``checkedin()/checkedout()``
    unchanged; after a failed statement the transaction remains usable with savepoint semantics.
Where the statement is silent (a plain error out of commit / rollback / RELEASE / ROLLBACK TO,
any fault inside the pool's own calls during ``reconn``, an unclassified real disconnect) the
history continues in *loose* mode: only the invariants P2, "invalidated only by a classified
disconnect" and "only SQLAlchemy errors escape" are checked.

KeyboardInterrupt (thorough) is not an error "the dialect classifies": it only has to propagate unchanged; afterwards
invariants only.  The handle_error listeners re-classify driver errors only (like real handlers do).

Asides seen while building (outside the statement, not checked): (1) after a *plain* error out of DBAPI ``commit()``
the RootTransaction stays associated but inactive, and the ``rollback()`` the user must then call emits no DBAPI
rollback -- the driver transaction with its pending writes survives (on SQLite a busy COMMIT really leaves it open) and
is committed by the next commit; (2) a handle_error listener that sets ``is_disconnect=True`` for the
ResourceClosedError raised by ``begin()`` on a closed Connection trips ``assert dbapi_conn_wrapper is not None``.

Outage family (both tiers, shard "outage" per configuration): the global fault bound cannot express "the database is
down for a while", so a targeted family adds it: <prefix>; the database goes down (every connection dies, every
connect() fails with the disconnect-class error); an operation that hits the disconnect; rollback(); 1..2 operations
whose transparent reconnect fails; the database is back; an operation that reconnects; then every operation with one
plain (thorough: also disconnect-class) error at every driver-call position -- judged by the same clauses.
The canonical state also contains the Connection's private transaction / error-handler bookkeeping (for dedupe only),
so histories that differ only in such hidden state are both explored.

Mutations caught (private copy, README rule 6; each gave VIOLATION lines on the quick tier):
 M2  engine/base.py _revalidate_connection: `_invalid_transaction()` check removed              -> silent-continuation
 M3  _handle_dbapi_exception: `pool._invalidate(...)` never called                              -> retired-connection-used
 M6  _handle_dbapi_exception: `connection_invalidated=self._is_disconnect` not passed           -> P1-connection_invalidated-flag
 M7  _handle_dbapi_exception: `self.invalidate(e)` skipped                                      -> P1-not-invalidated
 M9  RootTransaction._do_commit: `_transaction = None` also when the commit failed              -> silent-continuation
 M10 _handle_dbapi_exception: listener's `ctx.is_disconnect` ignored                            -> P1-not-invalidated (force_true)
 M11 pool/base.py _ConnectionFairy.invalidate: always soft                                      -> invalidated-without-disconnect
 M12 pool/base.py get_connection: `_invalidate_time > starttime` reversed                       -> retired-connection-used
 M13 _handle_dbapi_exception: `del self._is_disconnect` only when not yet invalidated (sticky after a failed reconnect)
     -> invalidated-without-disconnect (outage family); M14 same, only when the pool is invalidated too -> same
 M15 RootTransaction._close_impl: `in_nested_transaction()` instead of `_nested_transaction` (inactive savepoint stays
     attached after a failed RELEASE) -> spurious-raise PendingRollbackError; M16 NestedTransaction._cancel without
     `_deactivate_from_connection()` -> same
"""
from __future__ import annotations

import gc
import logging
import os
import shutil
import sqlite3
import warnings
from collections import deque

from sqlalchemy import create_engine
from sqlalchemy import event
from sqlalchemy import exc as sa_exc
from sqlalchemy.pool import QueuePool

from .. import core
from ..engines import faults
from ..models.txmodel import TxModel

ID = "C27"
LEVEL = "fault_enumeration"
DEPTH = dict(quick=4, thorough=5)
MAXF = dict(quick=1, thorough=2)
KINDS = dict(quick=("disc", "err"), thorough=("disc", "err", "exit"))
LISTENERS = ("none", "force_true", "force_false", "no_pool_inval")
META = dict(
    engine="F",
    technique="fault injection at every driver-call position of every operation in every reachable state "
    "(BFS over histories with canonical-state dedupe, ledger proxy DBAPI over sqlite3, reference model in lock-step)",
    design_ref="DESIGN.md §5 C27",
    level_text="All histories of <=4 (quick) / <=5 (thorough) operations over exec / select / begin / begin_nested / "
    "commit / rollback / savepoint commit / savepoint rollback / close+reconnect on a real Engine(QueuePool(2,0)) over "
    "file-backed SQLite, with <=1 (quick) / <=2 (thorough) injected driver errors placed at every driver-call "
    "position (position count learnt from the fault-free run of the same operation in the same state), error kinds "
    "disconnect / plain (/ KeyboardInterrupt), 4 handle_error listener settings x pre_ping on/off.  Invalidations, "
    "raised errors, ledger identities of the DBAPI connections used afterwards, pool counters and the rows visible "
    "to an independent observer are compared with the model after every operation.",
    level_note="Trusted: this driver's model of the statement (clauses P1-P5 in the module docstring), "
    "vf/models/txmodel.py, vf/engines/faults.py.  Only the SQLite dialect's is_disconnect is exercised; a disconnect is "
    "simulated by really closing the sqlite3 connection.  Where the statement is silent the check only keeps "
    "invariants (loose mode).",
    rule="case = (configuration, history, operation, fault position, fault kind); non-trivial = a fault fired in it or "
    "an earlier fault of the history left the Connection invalidated / blocked; distinct by canonical state x op x fault",
    assumptions=[
        "single-threaded use of one Connection and one Engine",
        "sqlite3 autocommit=False mode",
        "pool timestamps come from a virtual clock that advances on every read (the pool assumes measurable time passes)",
    ],
    bounds=dict(
        quick="histories <=4 ops, 1 fault at every driver call, kinds disconnect/plain, 8 configurations",
        thorough="histories <=5 ops, <=2 faults at every driver call, kinds disconnect/plain/KeyboardInterrupt, 8 configurations",
    ),
)
SHARD_TIMEOUT = dict(quick=300, thorough=1700)
logging.getLogger("sqlalchemy").addHandler(logging.NullHandler())

OPS = ("exec", "sel", "begin", "nested", "commit", "rollback", "spc", "spr", "reconn")
OPNAME = dict(down="[database goes down]", up="[database is back]", exec="exec", sel="select", begin="begin", nested="begin_nested", commit="conn.commit",
              rollback="conn.rollback", spc="sp.commit", spr="sp.rollback", reconn="close;connect")
SWALLOWED = ("cursor_close",)
STMT_CALLS = ("cursor", "execute", "fetchall", "fetchone", "fetchmany")

# --------------------------------------------------------------------- model


class M:
    """status: 'ok' | 'inv' (Connection invalidated)
    root: 0 no transaction object pending | 1 transaction in progress | 2 lost, rollback() required
    sps: tuple of 1 (live) / 0 (lost) for the savepoint handles, outermost first
    tx: TxModel of the database content; zombie: DBAPI connection dead but nobody has seen it yet
    loose: statement silent from here on; retired: ledger ids that must never be used again"""

    __slots__ = ("status", "root", "sps", "tx", "zombie", "loose", "retired", "nins", "nfaults", "down")

    def __init__(self, status="ok", root=0, sps=(), tx=None, zombie=False, loose=False, retired=frozenset(), nins=0,
                 nfaults=0, down=False):
        (self.status, self.root, self.sps, self.tx, self.zombie, self.loose, self.retired, self.nins, self.nfaults,
         self.down) = (status, root, sps, tx if tx is not None else TxModel(), zombie, loose, retired, nins, nfaults, down)

    def replace(self, **kw):
        d = {k: getattr(self, k) for k in self.__slots__}
        d.update(kw)
        return M(**d)

    def blocked(self):
        return self.root == 2 or (0 in self.sps)

    def key(self):
        tx = self.tx
        allm = set(tx.pub) | set(tx.cur)
        for s in tx.snaps or ():
            allm |= set(s)
        rank = {m: i for i, m in enumerate(sorted(allm))}

        def rl(s):
            return tuple(sorted(rank[x] for x in s))

        return (self.status, self.root, self.sps, rl(tx.pub), None if tx.snaps is None else tuple(rl(s) for s in tx.snaps),
                rl(tx.cur), self.zombie, self.loose, self.nfaults, self.down)


def base_ops(m):
    ops = []
    for o in OPS:
        if o in ("spc", "spr") and not m.sps:
            continue
        if o == "nested" and len(m.sps) >= 2:
            continue
        ops.append(o)
    return ops


def expect_plain(m, op):
    """expected outcome of a fault-free operation: 'ok' | 'raise'"""
    if m.blocked():
        if op in ("exec", "sel", "nested", "commit", "begin"):
            return "raise"
        if op == "spc":
            return "raise"
        return "ok"  # rollback, spr, reconn
    if op == "begin":
        return "raise" if m.root else "ok"
    return "ok"


def apply_plain(m, op, outcome):
    """model after a fault-free operation that had the expected outcome"""
    tx = m.tx
    if outcome == "raise":
        if op == "exec":
            return m.replace(nins=m.nins + 1)
        if op == "commit" and m.blocked():
            return m  # stays blocked: rollback() required
        return m
    if op in ("exec", "sel", "nested", "begin"):
        if not tx.in_tx:
            tx = tx.begin()
        m = m.replace(status="ok", root=1)
        if op == "exec":
            return m.replace(tx=tx.add(m.nins + 1), nins=m.nins + 1)
        if op == "nested":
            tx, _ = tx.savepoint()
            return m.replace(tx=tx, sps=m.sps + (1,))
        return m.replace(tx=tx)
    if op == "commit":
        if m.root == 0:
            return m
        return m.replace(tx=tx.commit() if tx.in_tx else tx, root=0, sps=())
    if op == "rollback":
        return m.replace(tx=tx.rollback(), root=0, sps=())
    if op == "spc":
        lv = len(m.sps)
        return m.replace(tx=tx.release(lv), sps=m.sps[:-1])
    if op == "spr":
        if m.sps[-1]:
            lv = len(m.sps)
            return m.replace(tx=tx.rollback_to(lv), sps=m.sps[:-1])
        return m.replace(sps=m.sps[:-1])
    if op == "reconn":
        return m.replace(tx=tx.rollback(), root=0, sps=(), status="ok", zombie=False)
    raise AssertionError(op)


# --------------------------------------------------------------------- implementation world


class Env:
    def __init__(self):
        self.dir = "/dev/shm/vf-%d-c27" % os.getpid()
        shutil.rmtree(self.dir, ignore_errors=True)
        os.makedirs(self.dir)
        self.db = os.path.join(self.dir, "t.db")
        c = sqlite3.connect(self.db)
        c.execute("create table t (x integer primary key)")
        c.commit()
        c.close()
        self.obs = sqlite3.connect(self.db, isolation_level=None, timeout=0)
        self.world = None
        self.n = 0
        self.clock = faults.VirtualClock()
        self._cm = faults.pool_clock(self.clock)
        self._cm.__enter__()

    def reset(self):
        w, self.world = self.world, None
        if w is not None:
            w.dispose()
        self.n += 1
        if self.n % 128 == 0:
            gc.collect()
        self.obs.execute("delete from t")
        self.clock.now = 1000.0

    def dispose(self):
        try:
            self.reset()
            self.obs.close()
        finally:
            self._cm.__exit__(None, None, None)
            shutil.rmtree(self.dir, ignore_errors=True)


class World:
    def __init__(self, env, cfg):
        env.reset()
        env.world = self
        self.env = env
        listener, pp = cfg
        self.led = led = faults.Ledger()
        led.enabled = False
        self.dbapi = faults.LedgerDBAPI(led)
        self.eng = eng = create_engine(
            "sqlite:///" + env.db, module=self.dbapi, poolclass=QueuePool, pool_size=2, max_overflow=0,
            pool_pre_ping=pp, pool_timeout=0, connect_args={"autocommit": False, "timeout": 0},
        )
        if listener != "none":

            @event.listens_for(eng, "handle_error")
            def _h(ctx):
                if not isinstance(ctx.original_exception, sqlite3.Error):
                    return  # like real handlers, only driver errors are re-classified
                if listener == "force_true":
                    ctx.is_disconnect = True
                elif listener == "force_false":
                    ctx.is_disconnect = False
                else:
                    ctx.invalidate_pool_on_disconnect = False

        c1 = eng.connect()
        c2 = eng.connect()
        c2.close()
        c1.close()
        self.conn = eng.connect()
        self.sps = []
        self.nins = 0
        self.junk = []
        led.enabled = True

    def dispose(self):
        self.led.enabled = False
        for c in [self.conn] + self.junk:
            try:
                c.close()
            except BaseException:
                pass
        try:
            self.eng.dispose()
        except BaseException:
            pass
        self.led.close_all()

    def cur_cid(self):
        return self.led.cid_of(self.conn)

    def apply(self, op, fault):
        """-> (outcome, exception, ledger slice, rows)  outcome: ok | raise | exit | crash"""
        led = self.led
        start = len(led.log)
        led.plan.clear()
        if fault is not None:
            led.plan[led.n + fault[0]] = fault[1]
        conn = self.conn
        rows = None
        try:
            if op == "exec":
                self.nins += 1
                conn.exec_driver_sql("insert into t (x) values (%d)" % self.nins)
            elif op == "sel":
                rows = frozenset(r[0] for r in conn.exec_driver_sql("select x from t").fetchall())
            elif op == "begin":
                conn.begin()
            elif op == "nested":
                self.sps.append(conn.begin_nested())
            elif op == "commit":
                del self.sps[:]
                conn.commit()
            elif op == "rollback":
                del self.sps[:]
                conn.rollback()
            elif op == "spc":
                self.sps[-1].commit()
                self.sps.pop()
            elif op == "spr":
                h = self.sps.pop()
                h.rollback()
            elif op == "down":
                led.outage(True)
            elif op == "up":
                led.outage(False)
            elif op == "reconn":
                del self.sps[:]
                try:
                    conn.close()
                finally:
                    if not conn.closed:
                        self.junk.append(conn)
                    self.conn = self.eng.connect()
            out, err = "ok", None
        except sa_exc.SQLAlchemyError as e:
            out, err = "raise", e
        except KeyboardInterrupt as e:
            out, err = "exit", e
        except Exception as e:
            out, err = "crash", e
        led.plan.clear()
        return out, err, led.log[start:], rows

    def observe(self):
        conn = self.conn
        try:
            pub = frozenset(r[0] for r in self.env.obs.execute("select x from t"))
        except sqlite3.OperationalError:
            pub = None  # a leaked connection keeps the database locked (only legitimate in loose mode)
        o = dict(pub=pub, invalidated=conn.invalidated, closed=conn.closed, in_tx=conn.in_transaction(),
                 in_nested=conn.in_nested_transaction(), cid=self.cur_cid(), inside=None,
                 checkedin=self.eng.pool.checkedin(), checkedout=self.eng.pool.checkedout(),
                 open=tuple(self.led.open_ids()))
        cid = o["cid"]
        if cid is not None and not self.led.conns[cid].dead:
            real = self.led.conns[cid].obj._vf_real
            try:
                o["inside"] = frozenset(r[0] for r in real.execute("select x from t"))
            except sqlite3.Error:
                o["inside"] = None
        return o

    def extras(self, m):
        led = self.led
        cur = self.cur_cid()
        conns = tuple(sorted((c.cid == cur, c.cid in m.retired, c.dead) for c in led.conns.values() if c.open))
        # private bookkeeping of the Connection, for the canonical key only (never consulted by the oracle): two
        # histories that agree on everything public may differ in what a later statement / error handler consults
        d = self.conn.__dict__
        hidden = (d.get("_transaction") is not None, d.get("_nested_transaction") is not None,
                  bool(getattr(d.get("_transaction"), "is_active", False)),
                  bool(getattr(d.get("_nested_transaction"), "is_active", False)),
                  "_is_disconnect" in d, "_reentrant_error" in d)
        return (tuple(bool(h.is_active) for h in self.sps), conns, self.eng.pool.checkedin(), self.eng.pool.checkedout(), hidden)


# --------------------------------------------------------------------- lock-step evaluation


def fault_name(f):
    return "-" if f is None else "%s@call%d" % (f[1], f[0])


def classify(listener, ev_kind):
    """does dialect + listener classify this driver error as a disconnect?"""
    if listener == "force_true":
        return True
    if listener == "force_false":
        return False
    return ev_kind in ("disc", "exit")


def first_event(slice_):
    """first driver error of the operation that SQLAlchemy does not swallow:
    (position in slice, call, kind 'disc'|'err'|'exit')"""
    for i, c in enumerate(slice_):
        if c.kind in SWALLOWED and c.fault != "exit":
            continue
        if c.kind == "close" and c.fault != "exit":
            continue  # the pool logs and swallows errors of close()
        if c.fault is not None:
            return i, c, c.fault
        if c.dead and c.kind != "close":
            return i, c, "disc"  # native "Cannot operate on a closed database."
    return None


def swallowed_kill(slice_, cid):
    """a disconnect that hit a call whose errors are swallowed, on the connection the Connection still uses"""
    return any(c.kind in SWALLOWED and c.fault == "disc" and c.cid == cid for c in slice_)


class Res:
    __slots__ = ("model", "ncalls", "calls", "extras")

    def __init__(self, model, calls, extras=None):
        self.model, self.ncalls, self.calls, self.extras = model, len(calls), calls, extras


def make_step(rec, env, cfg):
    listener, pp = cfg

    def step(hist_, ms, opf):
        with warnings.catch_warnings():
            warnings.simplefilter("ignore")
            return _step(hist_, ms, opf)

    def _step(hist_, ms, opf):
        op, fault = opf
        w = World(env, cfg)
        for o, f in hist_:
            w.apply(o, f)
        before = w.observe()
        outcome, err, sl, rows = w.apply(op, fault)
        after = w.observe()
        fired = [c for c in sl if c.fault is not None]
        if fault is not None and not fired:
            return Res(None, sl)  # position beyond the calls actually made: identical to the fault-free run
        case = dict(cfg=list(cfg), history=[[o, list(f) if f else None] for o, f in hist_],
                    op=[op, list(fault) if fault else None])
        names = ["%s%s" % (OPNAME[o], "" if f is None else "!" + fault_name(f)) for o, f in list(hist_) + [opf]]
        state = "%s%s%s%s%s" % (
            {"ok": "valid", "inv": "invalidated"}[ms.status], {0: "", 1: " in-tx", 2: " lost-tx"}[ms.root],
            " sp=%s" % "".join(str(x) for x in ms.sps) if ms.sps else "", " zombie" if ms.zombie else "",
            " loose" if ms.loose else "")
        ev = first_event(sl) if op != "reconn" else None
        sit = "%s in state [%s] listener=%s pre_ping=%s fault=%s" % (
            OPNAME[op], state, listener, int(pp), "-" if ev is None else "%s at %s" % (ev[2], ev[1].kind))
        nontrivial = bool(fired) or ms.status == "inv" or ms.blocked() or ms.zombie
        rec.case((cfg, hist_, opf), nontrivial=nontrivial)
        rec.transition()
        rec.trace()

        def bad(kind, what):
            rec.violation("%s: %s -> %s" % (kind, sit, what), "cfg %s history %s: %s\nledger of the last op: %s"
                          % (list(cfg), names, what, [repr(c) for c in sl][:30]), case, kind=(kind, sit))
            return Res(None, sl)

        def finish(m2):
            if after["cid"] is not None and after["cid"] in m2.retired:
                return bad("retired-connection-used", "the Connection runs on a retired DBAPI connection (c%s)" % after["cid"])
            if not m2.loose:
                # data clauses: P3 no silent continuation, P4 / P5 committed == executed
                if after["pub"] is None:
                    return bad("database-left-locked", "the observer connection cannot read: a lock was left behind")
                if after["pub"] != m2.tx.pub:
                    return bad("published-rows", "observer sees %s, model %s" % (sorted(after["pub"]), sorted(m2.tx.pub)))
                if (after["inside"] is not None and not m2.zombie and m2.status == "ok"
                        and after["inside"] != m2.tx.visible()):
                    return bad("visible-rows", "connection sees %s, model %s" % (
                        sorted(after["inside"]), sorted(m2.tx.visible())))
                if m2.root != 2 and after["in_tx"] != (m2.root == 1):
                    return bad("in_transaction", "in_transaction()=%s, model %s" % (after["in_tx"], m2.root == 1))
                if after["invalidated"] != (m2.status == "inv"):
                    return bad("invalidated-flag", "conn.invalidated=%s, model %s" % (after["invalidated"], m2.status == "inv"))
            rec.outcome((op, None if ev is None else (ev[2], ev[1].kind), outcome, type(err).__name__ if err else None,
                         m2.status, m2.root, m2.loose, after["invalidated"], after["in_tx"],
                         None if after["pub"] is None else len(after["pub"])))
            if fired and (len(hist_) + m2.root + len(sl)) % 7 == 3:
                rec.sample(dict(listener=listener, pre_ping=pp, history=names,
                                raised=None if err is None else type(err).__name__,
                                connection_invalidated=getattr(err, "connection_invalidated", None),
                                conn_invalidated=after["invalidated"], ledger_id_before=before["cid"],
                                ledger_id_after=after["cid"], retired=sorted(m2.retired),
                                published=None if after["pub"] is None else sorted(after["pub"])))
            return Res(m2, sl, w.extras(m2) + (after["in_tx"], after["in_nested"], after["invalidated"], after["closed"]))

        def retire(m2, pool_too):
            cid = ev[1].cid
            gone = {cid}
            if pool_too:
                gone |= {c.cid for c in w.led.conns.values() if c.opened_at <= ev[1].idx and not c.failed_connect}
            return m2.replace(retired=m2.retired | frozenset(gone))

        if op in ("down", "up"):
            # environment, not an operation of the program: while down every connection is dead and connect() fails
            if op == "down":
                return finish(ms.replace(down=True, tx=ms.tx.rollback(), zombie=(ms.status == "ok")))
            return finish(ms.replace(down=False))

        # ---- invariants that hold in every mode
        if outcome == "crash":
            return bad("internal-error", "%s: %s" % (type(err).__name__, str(err)[:160]))
        if outcome == "exit" and not any(c.fault == "exit" for c in sl):
            return bad("internal-error", "KeyboardInterrupt without an injected one")
        for c in sl:
            if c.cid in ms.retired and c.kind not in ("close", "cursor_close"):
                return bad("retired-connection-used", "driver call %s on a connection retired by an earlier disconnect" % (c.kind,))
        # the savepoint-handle stack follows the harness mechanically (see World.apply)
        if op in ("commit", "rollback", "reconn"):
            mech = ()
        elif op == "spr" or (op == "spc" and outcome == "ok"):
            mech = ms.sps[:-1]
        elif op == "nested" and outcome == "ok":
            mech = ms.sps + (1,)
        else:
            mech = ms.sps
        m2 = ms.replace(nfaults=ms.nfaults + (1 if fired else 0))
        cls = classify(listener, ev[2]) if ev is not None else None
        # (a real disconnect the listener vetoed may still invalidate: the autorollback on the dead connection fails
        # with a second, unvetoed disconnect error -- the statement is silent about that combination)
        if (after["invalidated"] and not before["invalidated"] and op != "reconn" and not ms.loose
                and not (ev is not None and (cls or ev[2] in ("disc", "exit")))):
            return bad("invalidated-without-disconnect", "conn.invalidated became True")

        dead_calls = any(c.dead and c.kind != "close" for c in sl)
        # a transparent reconnect with pre_ping pings the idle connection it is given: those three calls are the
        # pool's (C26), not the Connection's
        ping_fault = False
        if ms.status == "inv" and pp and op != "reconn":
            fresh = {c.cid for c in sl if c.kind == "connect"}
            first = next((c.cid for c in sl if c.kind != "close" and c.cid not in fresh), None)
            if first is not None:
                mine = [c for c in sl if c.cid == first and c.kind != "close"][:3]
                bad_ = [c for c in mine if c.fault is not None or c.dead]  # injected fault, or the idle connection is dead
                if any(c.kind == "execute" and c.info == "SELECT 1" for c in mine) or (mine and mine[0] in bad_):
                    ping_fault = bool(bad_)
        if ms.loose or ping_fault or (op == "reconn" and (fired or ms.zombie or dead_calls)):
            # the statement is silent here: keep exploring with the invariants only
            m2 = m2.replace(loose=True, nins=ms.nins + (1 if op == "exec" else 0), sps=mech)
            if ev is not None and cls and outcome in ("raise", "exit") and after["invalidated"] and after["cid"] is None:
                m2 = retire(m2, listener != "no_pool_inval" and ev[2] != "exit")
            return finish(m2)

        if ev is None:
            # ---- no driver error reached SQLAlchemy: plain expectations
            exp = expect_plain(ms, op)
            if exp == "ok" and outcome != "ok":
                return bad("spurious-raise", "%s: %s" % (type(err).__name__, str(err).split("\n")[0][:140]))
            if exp == "raise" and outcome != "raise":
                return bad("silent-continuation", "returned normally although the lost transaction was not rolled back")
            m2 = apply_plain(m2, op, outcome).replace(sps=mech)
            if op == "sel" and outcome == "ok" and not ms.zombie and rows != m2.tx.visible():
                return bad("select-rows", "select returned %s, model %s" % (sorted(rows), sorted(m2.tx.visible())))
            if swallowed_kill(sl, after["cid"]):
                m2 = m2.replace(zombie=True, tx=m2.tx.rollback())
            if ms.status == "inv" and outcome == "ok" and op in ("exec", "sel", "nested", "begin"):
                if after["invalidated"] or after["cid"] is None:
                    return bad("P4-no-reconnect", "the Connection did not obtain a new DBAPI connection")
            return finish(m2)

        # ---- a driver error reached SQLAlchemy inside a Connection operation
        kind = ev[2]
        if outcome == "ok":
            return bad("driver-error-swallowed", "operation returned normally")
        if ev[1].kind == "connect":
            # the transparent reconnect itself failed: nothing can have changed (pool recovery is C26's subject)
            if not after["invalidated"] or after["cid"] is not None:
                return bad("failed-reconnect-state", "invalidated=%s cid=%s after a failed reconnect" % (after["invalidated"], after["cid"]))
            if kind == "exit":
                return finish(m2.replace(loose=True, nins=ms.nins + (1 if op == "exec" else 0), sps=mech))
            return finish(m2.replace(nins=ms.nins + (1 if op == "exec" else 0), sps=mech))
        if kind == "exit":
            # not a dialect-classified error: the statement is silent; it must propagate, then invariants only
            if outcome != "exit":
                return bad("exit-exception-lost", "KeyboardInterrupt replaced by %s" % type(err).__name__)
            m2 = m2.replace(loose=True, nins=ms.nins + (1 if op == "exec" else 0), sps=mech)
            if after["invalidated"] and after["cid"] is None:
                m2 = retire(m2, False)
            return finish(m2)
        if not isinstance(err, sa_exc.DBAPIError) or not isinstance(getattr(err, "orig", None), sqlite3.Error):
            return bad("driver-error-not-wrapped", "%s: %s" % (type(err).__name__, str(err)[:120]))
        nins = ms.nins + (1 if op == "exec" else 0)
        if cls:
            # P1
            if kind != "exit" and not err.connection_invalidated:
                return bad("P1-connection_invalidated-flag", "DBAPIError.connection_invalidated is False")
            if not after["invalidated"]:
                return bad("P1-not-invalidated", "conn.invalidated is False after a classified disconnect")
            # P2: calls after the failure on connections that are retired by it
            m2 = retire(m2, listener != "no_pool_inval" and kind != "exit")
            for c in sl[ev[0] + 1:]:
                if c.cid in m2.retired and c.kind not in ("close", "cursor_close"):
                    return bad("retired-connection-used", "driver call %s on a retired connection after the disconnect" % (c.kind,))
            tx = m2.tx.rollback()
            # was a transaction in progress?  (a cursor() failure precedes autobegin: accept the Connection's view)
            pending = 2 if (ms.root or after["in_tx"]) else 0
            dead = tuple(0 for _ in mech)
            m2 = m2.replace(status="inv", root=0 if op == "rollback" else pending, sps=dead, tx=tx, zombie=False, nins=nins)
            return finish(m2)
        if kind == "disc":
            # a real disconnect the listener declared harmless: the DBAPI connection is dead, statement silent
            return finish(m2.replace(loose=True, zombie=True, nins=nins, sps=mech))
        # P5: not a disconnect
        if getattr(err, "connection_invalidated", False):
            return bad("P5-connection_invalidated-flag", "connection_invalidated True on a non-disconnect")
        if after["invalidated"]:
            return bad("P5-invalidated", "conn.invalidated True after a non-disconnect error")
        if after["cid"] != ev[1].cid:
            return bad("P5-connection-changed", "ledger id c%s -> c%s" % (ev[1].cid, after["cid"]))
        if ms.status == "inv":
            pass  # the operation reconnected first: the pool was legitimately used before the error
        elif any(c.kind == "close" for c in sl) or after["open"] != before["open"]:
            return bad("P5-pool-touched", "DBAPI connections closed / opened: %s -> %s" % (before["open"], after["open"]))
        if ms.status != "inv" and (after["checkedin"], after["checkedout"]) != (before["checkedin"], before["checkedout"]):
            return bad("P5-pool-touched", "checkedin/checkedout %s -> %s" % (
                (before["checkedin"], before["checkedout"]), (after["checkedin"], after["checkedout"])))
        if kind != "err":
            # an exit exception the listener declared harmless: statement silent from here
            return finish(m2.replace(loose=True, nins=nins, sps=mech))
        if ev[1].kind in STMT_CALLS and op in ("exec", "sel", "nested"):
            # failed statement: the transaction remains usable (autobegin may or may not have happened yet)
            root = 1 if (ms.root or after["in_tx"]) else 0
            tx = m2.tx
            if root and not tx.in_tx:
                tx = tx.begin()
            return finish(m2.replace(status="ok", root=root, tx=tx, nins=nins, sps=mech))
        return finish(m2.replace(loose=True, nins=nins, sps=mech))

    return step


def explore(rec, env, cfg, tier, roots, depth):
    """BFS; the fault positions of an operation are read off its fault-free run in the same state"""
    step = make_step(rec, env, cfg)
    kinds, maxf = KINDS[tier], MAXF[tier]
    frontier = deque()
    for h, m, key in roots:
        if rec.state(key):
            frontier.append((tuple(h), m, 0))
    while frontier:
        h, m, d = frontier.popleft()
        if d >= depth:
            continue
        for op in base_ops(m):
            variants = [None]
            vi = 0
            while vi < len(variants):
                f = variants[vi]
                vi += 1
                r = step(h, m, (op, f))
                if f is None and m.nfaults < maxf:
                    for j, c in enumerate(r.calls):
                        if not c.dead:
                            variants += [(j, k) for k in kinds]
                if r.model is None:
                    continue
                if rec.state((cfg, r.model.key(), r.extras)):
                    frontier.append((h + ((op, f),), r.model, d + 1))


def shards(tier, seed):
    first = base_ops(M())
    out = [((li, pp), op) for li in LISTENERS for pp in (False, True) for op in first]
    return out + [((li, pp), "outage") for li in LISTENERS for pp in (False, True)]


OUTAGE = dict(
    quick=dict(pre=[(), ("exec", "nested")], fail=("exec", "sel", "spc"), retries=[("exec",), ("begin", "exec")],
               ok=("exec", "nested"), kinds=("err",)),
    thorough=dict(pre=[(), ("exec",), ("begin",), ("nested",), ("exec", "nested"), ("nested", "nested")],
                  fail=("exec", "sel", "nested", "commit", "spc", "spr"),
                  retries=[("exec",), ("sel",), ("begin",), ("nested",), ("exec", "exec"), ("begin", "sel"), ("nested", "exec")],
                  ok=("exec", "sel", "begin", "nested"), kinds=("err", "disc")),
)


def outage_family(rec, env, cfg, tier):
    """the 'database outage' plans (needs 3+ failing driver calls, beyond the global fault bound):
         <prefix>; [down]; an operation that hits the disconnect; conn.rollback();
         1..2 operations whose transparent reconnect fails (connect() raises the disconnect-class error); [up];
         an operation that reconnects and succeeds; then every operation with one plain (thorough: also
         disconnect-class) error at every driver-call position -- judged by the same clauses (P5 for the plain error)"""
    step = make_step(rec, env, cfg)
    F = OUTAGE[tier]

    def advance(h, m, opf):
        r = step(h, m, opf)
        if r.model is None:
            return None
        rec.state((cfg, r.model.key(), r.extras))
        return h + (opf,), r.model, r

    for pre in F["pre"]:
        st = ((), M())
        for o in pre:
            st = st and advance(st[0], st[1], (o, None))
            st = st and st[:2]
        if not st:
            continue
        st1 = advance(st[0], st[1], ("down", None))
        if not st1:
            continue
        for fo in F["fail"]:
            if fo not in base_ops(st1[1]):
                continue
            st2 = advance(st1[0], st1[1], (fo, None))
            st2 = st2 and advance(st2[0], st2[1], ("rollback", None))
            if not st2:
                continue
            for retry in F["retries"]:
                st3 = st2
                for o in retry:
                    st3 = st3 and advance(st3[0], st3[1], (o, None))
                # a retry like begin leaves a transaction object that needs rollback() before the next attempt
                st3 = st3 and advance(st3[0], st3[1], ("rollback", None))
                st3 = st3 and advance(st3[0], st3[1], ("up", None))
                if not st3:
                    continue
                for ok in F["ok"]:
                    st4 = advance(st3[0], st3[1], (ok, None))
                    if not st4:
                        continue
                    h, m = st4[0], st4[1]
                    for op in base_ops(m):
                        r = step(h, m, (op, None))
                        for j, c in enumerate(r.calls):
                            if not c.dead:
                                for k in F["kinds"]:
                                    step(h, m, (op, (j, k)))


def _hist(h):
    return tuple((o, tuple(f) if f else None) for o, f in h)


def run_shard(shard, tier, rec):
    gc.disable()
    cfg, first = tuple(shard[0]), shard[1]
    env = Env()
    try:
        if first == "outage":
            outage_family(rec, env, cfg, tier)
            return
        # the shard owns every history that starts with `first` (all its fault variants included)
        step = make_step(rec, env, cfg)
        m0 = M()
        kinds, maxf = KINDS[tier], MAXF[tier]
        if first not in base_ops(m0):
            return
        variants = [None]
        roots = []
        vi = 0
        while vi < len(variants):
            f = variants[vi]
            vi += 1
            r = step((), m0, (first, f))
            if f is None:
                for j, c in enumerate(r.calls):
                    variants += [(j, k) for k in kinds]
            if r.model is not None:
                roots.append((((first, f),), r.model, (cfg, r.model.key(), r.extras)))
        explore(rec, env, cfg, tier, roots, DEPTH[tier] - 1)
    finally:
        env.dispose()


def replay(case):
    rec = core.Rec(ID)
    silent = core.Rec(ID)
    cfg = (case["cfg"][0], bool(case["cfg"][1]))
    env = Env()
    try:
        h = _hist(case["history"])
        opf = (case["op"][0], tuple(case["op"][1]) if case["op"][1] else None)
        m = M()
        sstep = make_step(silent, env, cfg)
        ok = True
        for i, of in enumerate(h):
            r = sstep(h[:i], m, of)
            if r.model is None:
                ok = False
                break
            m = r.model
        if ok:
            try:
                make_step(rec, env, cfg)(h, m, opf)
            except core.StopShard:
                pass
    finally:
        env.dispose()
    return [(v["sig"], v["detail"]) for v in rec.violations]
