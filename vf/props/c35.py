"""C35 object lifecycle states and events vs the documented state machine (engine H).

Every history over the alphabet below is replayed on a fresh Session / fresh
SQLite file; the reference model ``SessRef`` (vf/models/sessref1.py, rules
cited from doc/build/orm/session_*.rst) is stepped in lock-step and, after
every operation, for every tracked object:

 (1) exactly one of transient/pending/persistent/deleted/detached is true and
     it agrees with the documented membership guarantees (pending <=> in
     Session.new, persistent <=> in identity_map, deleted => in neither
     identity_map nor Session.deleted, ``obj in session`` <=> pending|persistent);
 (2) the lifecycle events recorded *for that object* during the operation form
     a path through the documented machine from its state before to its state
     after (one event per transition, none spurious; only make_transient /
     make_transient_to_detached move an object without an event);
 (3) state, event sequence, outcome class (ok / SQLAlchemy error), result
     objects and transaction depth equal the model's prediction.

Defects this check found on the original tree (each judged against
doc/build/orm/session_events.rst, session_state_management.rst and the
SessionEvents docstrings; all fixed in /repo by the commits 1b94f69, 21e8961,
7fe5e03, b96aaaf, d63795a; the signatures are root-cause keyed, see
``check_step``): deleted objects stayed "deleted" after commit with
expire_on_commit=False and after close(); deleted_to_persistent fired on
rollback for an object that was only *marked* for deletion; objects that had
left the session (expunge / make_transient) but were still in the
transaction's snapshot collections received events / state changes or made
rollback() raise; a stale ``_deleted`` flag survived the rollback of
INSERT+DELETE and made the next INSERT report the "deleted" state.  Reverting
any of those commits makes the corresponding signature reappear.

Additional worlds (same oracle): ``falsy`` / ``falsylen`` -- mapped classes
defining ``__bool__`` / only ``__len__`` with a falsy and a truthy row plus a
falsy new object (code that truth-tests an instance instead of comparing with
None); ``single_noaf`` -- Session(autoflush=False), and ``begin_nested()``
inside ``no_autoflush`` in every world (it must flush all the same);
``casc_su`` / ``casc_all`` / ``casc_do`` -- a parent and a child under the
cascade presets "save-update", "all", "all, delete-orphan" (append / remove /
add / expire / refresh / expunge / delete / flush / commit / rollback /
savepoint, autoflush off), checked with (1) and (2) only: every transition a
cascade causes must be a documented edge announced by exactly its event.
The cascade worlds found two more defects: the expunge cascade fires events
for (and would detach) objects that are not in the session, and the delete
cascade puts an object that is already in the deleted state back into
identity_map / Session.deleted (proposed_fixes/c35_expunge_cascade_*.diff,
c35_delete_cascade_*.diff).

Mutations caught in the additional worlds:
 * session.py `_update_impl`: `if obj is None` -> `if not obj` (truth-tests
   the instance) -> "add: object detached -> detached, documented: persistent",
   "rollback: object deleted -> persistent but not in Session.identity_map"
 * identity.py `WeakInstanceDict.get`: `if o is None` -> `if not o` ->
   "query: unexpected new object ..." (second instance for a falsy row)
 * session.py `_conditional_expire`: `state._detach(self)` -> `state._detach()`
   (no event for a pending child expunged by expire/refresh of its parent) ->
   "expire: object pending: state changed pending -> transient without an event"
 * session.py `_flush`: pending orphan evicted without `_expunge_states`
   -> "flush: object pending: state changed pending -> transient without an event"
 * state.py `_detach_states`: pending_to_transient suppressed when
   to_transient -> "rollback: ... pending -> transient without an event"
 * session.py `_take_snapshot`: `self.session.flush()` ->
   `self.session._autoflush()` -> "begin_nested: object pending -> pending,
   documented: persistent" (autoflush=False world and no_autoflush variant)

Mutations caught (each in a private copy, `VF_REPO=/tmp/wt-orm1 ./check C35`):
 * session.py `_register_persistent`: pending_to_persistent dispatched for
   `states.difference(self._new)` (wrong branch) -> "state changed pending ->
   persistent without an event"
 * state.py `_detach_states`: `if to_transient` / `else` swapped
   (persistent_to_transient <-> persistent_to_detached) -> event/path mismatch
 * session.py `_remove_snapshot`: `parent._new.update(self._new)` dropped
   (savepoint release forgets INSERTs) -> "rollback: object
   persistent+inserted-in-open-tx -> persistent, documented: transient"
 * session.py `_update_impl`: deleted_to_persistent dispatch dropped on
   revert_deletion -> "state changed deleted -> persistent without an event"
 * state.py `InstanceState.persistent` computed without `not self._deleted`
   -> "not exactly one lifecycle state: 'persistent+deleted'"
 * session.py `expunge_all`: pending states left out of `all_states` ->
   "close: state pending but (obj in Session.new) is False"
 * session.py `_after_attach`: detached_to_persistent / transient_to_pending
   swapped -> "add: event detached_to_persistent fired while the object was transient"
"""
from __future__ import annotations

import gc

from ..engines import hist
from ..models import sessref1 as M
from ..worlds import ormworld1 as W

ID = "C35"
LEVEL = "model_checking"
META = dict(
    engine="H",
    technique="explicit-state BFS over Session operation histories by replay on the real Session, reference model "
    "(documented lifecycle machine + nested-transaction scopes) in lock-step, canonical-state dedupe",
    design_ref="DESIGN.md §5 C35",
    level_text="(Plus: the same alphabet on mapped classes whose instances are falsy, a Session(autoflush=False) world, begin_nested() "
    "inside no_autoflush, and three Parent/Child cascade worlds checked with the model-free parts (1)+(2) of the oracle.) "
    "All histories up to the stated depth over add/delete/expunge/set/flush/commit/rollback/close/"
    "begin_nested/savepoint rollback+release/query/merge/make_transient/make_transient_to_detached on 1-2 "
    "constructed objects (incl. two instances with the same primary key and a row pre-existing in the database) "
    "plus objects born from loads/merges, for expire_on_commit on and off. After every operation every object's "
    "lifecycle flags, the per-object event sequence, session membership and the outcome class are compared with "
    "the model; the event sequence must be a path of the documented machine.",
    level_note="Trusted: sessref1 (the documented rules as ~300 lines of Python) and the deep canonical state "
    "(transaction stack with per-level snapshot membership, identity map, per-object flags / committed_state / "
    "loaded values, database rows) used for dedupe. Histories in which a flush fails are checked up to the "
    "failure and not continued (C32's subject). delete() of an object already in the deleted state is outside "
    "Session.delete's documented precondition and not in the alphabet.",
    rule="state = model state + deep canonical form of the real Session; transition = one op applied to a replayed "
    "history; every transition is executed on the implementation and the model (trace validated); non-trivial = "
    "the op fired >= 1 lifecycle event or changed a lifecycle state",
    assumptions=[
        "single Session, single thread, SQLite file database with autocommit=False (real SAVEPOINTs)",
        "transient objects are (re)initialised with explicit attribute values before add()",
    ],
    bounds=dict(
        quick="worlds single/twin/seeded x expire_on_commit {True,False}: all histories of depth <= 6 (single), <= 4 (twin), <= 5 (seeded) "
        "with canonical-state dedupe, savepoint depth <= 2, 1 born object; single with Session(autoflush=False): <= 5; falsy-instance "
        "worlds (__bool__ / __len__ classes, 2 born objects): <= 4; cascade worlds: save-update <= 5, all <= 6, all+delete-orphan <= 6",
        thorough="single: depth <= 7 (2 born objects); twin: <= 5; seeded: <= 5 (2 born); autoflush=False: <= 6; falsy worlds: <= 5; "
        "cascade worlds: <= 6 / 7 / 7, expire_on_commit both ways; savepoint depth <= 2",
    ),
)

T, PE, P, D, DT = M.T, M.PE, M.P, M.D, M.DT

WORLDS = dict(
    single=dict(universe=[("x", "Plain", {"id": 1, "name": "a"})]),
    twin=dict(universe=[("x", "Plain", {"id": 1, "name": "a"}), ("y", "Plain", {"id": 1, "name": "t"})]),
    seeded=dict(universe=[("x", "Plain", {"id": 1, "name": "a"})], seed={"plain": [(1, "s")]}),
    # instances that are FALSY (class defines __bool__ / only __len__): one falsy + one truthy row
    # in the database, one falsy new object; same alphabet, same oracle
    # Session(autoflush=False): query / merge do not flush, begin_nested() still must
    single_noaf=dict(universe=[("x", "Plain", {"id": 1, "name": "a"})], autoflush=False),
    falsy=dict(universe=[("x", "FalsyB", {"id": 3, "name": "a", "flag": 0})], seed={"falsyb": [(1, "s", 0), (2, "t", 1)]}, cls="FalsyB"),
    falsylen=dict(universe=[("x", "FalsyL", {"id": 3, "name": "a", "flag": 0})], seed={"falsyl": [(1, "s", 0), (2, "t", 1)]}, cls="FalsyL"),
)
# cascade worlds: a parent and a (not yet attached) child, one world per cascade preset of
# Parent.children; autoflush off; oracle = checks (1) and (2) only (no model prediction: which
# object a cascade reaches is C39's subject, here every transition that happens must be a
# documented edge announced by exactly its event)
CASCADE_WORLDS = dict(
    casc_su=("ParentSU", "ChildSU", "save-update"),
    casc_all=("Parent", "Child", "all"),
    casc_do=("ParentDO", "ChildDO", "all, delete-orphan"),
)
DEPTH = dict(
    quick=dict(single=6, twin=4, seeded=5, single_noaf=5, falsy=4, falsylen=4, casc_su=5, casc_all=6, casc_do=6),
    thorough=dict(single=7, twin=5, seeded=5, single_noaf=6, falsy=5, falsylen=5, casc_su=6, casc_all=7, casc_do=7),
)
BORN = dict(
    quick=dict(single=1, twin=1, seeded=1, single_noaf=1, falsy=2, falsylen=2),
    thorough=dict(single=2, twin=1, seeded=2, single_noaf=1, falsy=2, falsylen=2),
)
ROLLBACK_OPS = ("rollback", "sp_rollback")
IMPLICIT_FLUSH_OPS = ("commit", "begin_nested", "begin_nested_nf", "sp_commit", "query", "merge")


def make_cfg(world, eoc):
    if world in CASCADE_WORLDS:
        pc, cc, _ = CASCADE_WORLDS[world]
        return dict(
            universe=[("c", cc, {"id": 1, "name": "c"}), ("p", pc, {"id": 1, "name": "p"})],
            eoc=eoc,
            world=world,
            autoflush=False,
            tables=(W.CLASSES[pc].__table__.name, W.CLASSES[cc].__table__.name),
        )
    cfg = dict(WORLDS[world])
    cfg["eoc"] = eoc
    cfg["world"] = world
    cfg.setdefault("cls", "Plain")
    cfg["tables"] = (M.TABLE_OF[cfg["cls"]],)
    return cfg


# ------------------------------------------------------------------ alphabet


def enabled(ms, max_born, cls="Plain"):
    """ops enabled in model state ms, simplest first.  Everything the API
    accepts is enabled (misuse included); exceptions are listed in META."""
    ops = []
    names = [n for n in ms.order if ms.objs[n].held]
    for n in names:
        o = ms.objs[n]
        reinit = tuple(sorted(o.vals.items())) if o.state == T else None
        ops.append(("add", n, reinit))
        if not (o.state == D or (o.state == DT and o.wasdel)):
            ops.append(("delete", n))
        ops.append(("expunge", n))
    ops += [("flush",), ("commit",), ("rollback",), ("close",)]
    if ms.nsp < 2:
        ops.append(("begin_nested",))
        ops.append(("begin_nested_nf",))  # the same inside ``with session.no_autoflush:``
    if ms.nsp > 0:
        ops += [("sp_rollback",), ("sp_commit",)]
    for n in names:
        o = ms.objs[n]
        ops.append(("set", n, "name", "b" if o.vals.get("name") != "b" else "c"))
    free = max_born - ms.nborn
    if ms.would_bear(cls) <= free:
        ops.append(("query", cls))
    if free >= 1:
        ops.append(("merge", cls, (("id", 1), ("name", "m"))))
    for n in names:
        o = ms.objs[n]
        ops.append(("make_transient", n))
        reinit = tuple(sorted(o.vals.items())) if o.state == T else None
        if o.state != T or o.vals.get("id") in ms.view().get(M.TABLE_OF[cls], {}):
            # make_transient_to_detached asserts "this object has a row": enabled for
            # transient objects only when that is true (misuse on non-transient objects stays)
            ops.append(("mttd", n, reinit))
    return ops


C35Model = M.SessRef


def build(cfg, history):
    w = W.World(cfg)
    for op in history:
        w.apply(tuple(op))
    w.take_events()
    return w


# ------------------------------------------------------------------ oracle


def describe(ms, name, full=True, op=None):
    """abstract, history-free description of an object in model state ms"""
    o = ms.objs.get(name)
    if o is None:
        return "unborn"
    s = o.state
    if o.marked:
        s += "+marked-for-delete"
    if op is not None and op[0] not in ROLLBACK_OPS:
        full = False
    if full and any(name in sc.new for sc in ms.tx):
        s += "+inserted-in-open-tx"
    if o.wasdel and o.state != D:
        s += "+was_deleted"
    return s


def path_problem(before, after, evs, op, pre, inserted_here, is_rollback):
    """(2): events must form a path of the documented machine from before to after.
    pre: description of the object before the op; inserted_here: it was INSERTed in a
    still open transaction scope"""
    cur = before
    for i, e in enumerate(evs):
        src, dst = M.EDGE_OF_EVENT[e]
        if cur is None and i == 0 and src in (None, T):
            # born inside the ORM: loaded, or constructed (transient) and added by merge()
            cur = dst
            continue
        if src is None:
            return "loaded_as_persistent fired for an object that already existed (%s)" % pre
        if src != cur:
            if is_rollback and cur in (T, DT) and inserted_here:
                return "lifecycle event fired for an object that had left the session (expunged / made transient after its INSERT in the rolled-back transaction)"
            return "event %s fired while the object was %s" % (e, pre if i == 0 else cur)
        cur = dst
    if cur == after:
        return None
    if (cur, after) in M.SILENT_EDGES and op[0] in ("make_transient", "mttd"):
        return None
    if is_rollback and cur == DT and after == T and before == D and inserted_here:
        # evicted by the rollback of the transaction that INSERTed it: the
        # documentation leaves the event open (see sessref1.rollback_scope)
        return None
    if cur is None:
        return "object appeared in state %s without loaded_as_persistent / transient_to_pending" % after
    return "object %s: state changed %s -> %s without an event" % (pre, cur, after)


def membership_problem(w, name, state):
    """(1): documented guarantees tying the state to session collections"""
    mb = w.membership(name)
    if "+" in state or not state:
        return "not exactly one lifecycle state: %r" % state
    if (state == PE) != mb["new"]:
        return "state %s but (obj in Session.new) is %s" % (state, mb["new"])
    if state == P and not mb["in_map"]:
        return "persistent but not in Session.identity_map"
    if state in (D, T, DT, PE) and mb["in_map"]:
        return "%s but present in Session.identity_map" % state
    if state == D and mb["deleted"]:
        return "deleted state but member of Session.deleted"
    if mb["contains"] != (state in (PE, P)):
        return "state %s but (obj in session) is %s" % (state, mb["contains"])
    if (mb["key"] is None) != (state in (T, PE)):
        return "state %s but identity key is %r" % (state, mb["key"])
    return None


def opclass(op):
    return "rollback" if op[0] in ROLLBACK_OPS else ("begin_nested" if op[0] == "begin_nested_nf" else op[0])


def check_step(cfg, hist_, ms, op, max_born):
    """replay hist_, apply op to implementation and model.
    returns (problems, m2, pred, world_canon, info); problems = [(sig, detail)]"""
    w = build(cfg, hist_)
    try:
        before = w.lifecycle()
        pre_wasdel = {n: bool(W.inspect(o).was_deleted) for n, o in w.objs.items()}
        m2 = ms.copy()
        pr = m2.apply(op)
        if pr.undefined:
            return [], m2, pr, None, dict(before=before, after=before, events={}, outcome="(not executed)", warnings=[])
        out = w.apply(op)
        raw_events = w.take_events()
        after = w.lifecycle()
        eoc = cfg["eoc"]
        head = "%s(eoc=%s)" % (opclass(op), eoc) if op[0] in ("commit",) else opclass(op)
        problems = []
        culprit = {}  # index in problems -> object name
        evs = {}
        for n, e in raw_events:
            evs.setdefault(n, []).append(e)
        info = dict(before=before, after=after, events=evs, outcome=out.short(), warnings=list(out.warnings))

        # ---- outcome class
        if not out.ok and not out.is_sa_error:
            problems.append(("%s: raised %s (not a SQLAlchemy error)" % (head, out.exc_name), out.short()))
        elif pr.outcome == "ok" and not out.ok:
            tgt = describe(ms, op[1]) if len(op) > 1 and op[1] in ms.objs else "-"
            problems.append(("%s on %s: raised %s, documented: succeeds" % (head, tgt, out.exc_name), out.short()))
        elif pr.outcome in ("error", "flushfail") and out.ok:
            tgt = describe(ms, op[1]) if len(op) > 1 and op[1] in ms.objs else "-"
            problems.append(("%s on %s: succeeded, documented: raises (%s)" % (head, tgt, pr.outcome), ""))

        # ---- per object
        names = sorted(set(after) | set(m2.objs))
        for n in names:
            pre = describe(ms, n, op=op)
            st_b = before.get(n)
            st_a = after.get(n)
            got_ev = evs.get(n, [])
            if st_a is None:
                problems.append(("%s: object %s predicted by the model was not created" % (head, pre), ""))
                continue
            p = membership_problem(w, n, st_a)
            if p:
                culprit[len(problems)] = n
                problems.append(("%s: object %s -> %s" % (head, pre, p), "events %r" % got_ev))
                continue
            is_rb = op[0] in ROLLBACK_OPS or pr.outcome == "flushfail"
            p = path_problem(st_b, st_a, got_ev, op, describe(ms, n, full=False), any(n in sc.new for sc in ms.tx), is_rb)
            if p:
                culprit[len(problems)] = n
                problems.append(("%s: %s" % ("rollback" if is_rb else head, p), "object %s -> %s events=%s" % (pre, st_a, got_ev)))
                continue
            if pr.outcome == "flushfail" or n not in m2.objs:
                if n not in m2.objs:
                    problems.append(("%s: unexpected new object in state %s events=%s" % (head, st_a, got_ev), ""))
                continue
            want_state = m2.objs[n].state
            want_ev = pr.events.get(n, [])
            if st_a != want_state or got_ev != want_ev:
                culprit[len(problems)] = n
            if st_a != want_state:
                problems.append(
                    ("%s: object %s -> %s, documented: %s" % (head, pre, st_a, want_state), "events %r, model events %r" % (got_ev, want_ev))
                )
            elif got_ev != want_ev:
                # an object INSERTed and DELETEd inside the rolled-back scope: the documentation
                # leaves open whether its eviction is reported as deleted_to_detached or as
                # deleted_to_persistent + persistent_to_transient (sessref1.rollback_scope)
                alt = is_rb and st_b == D and st_a == T and want_ev == ["deleted_to_detached"] and got_ev == ["deleted_to_persistent", "persistent_to_transient"]
                if not alt:
                    problems.append(("%s: object %s -> %s events=%s, documented: %s" % (head, pre, st_a, got_ev, want_ev), ""))

        # ---- root-cause signatures (one per defect, independent of the op that exposes it)
        for i, n in culprit.items():
            o = ms.objs.get(n)
            if o is None:
                continue
            if pre_wasdel.get(n) and not o.wasdel and o.state != D:
                problems[i] = (
                    "stale was_deleted: an object INSERTed and DELETEd inside a rolled-back transaction keeps "
                    "InstanceState._deleted after it became transient; later operations treat it as a deleted object",
                    "%s | %s" % problems[i],
                )
            elif o.state != D and any(n in sc.deleted for sc in ms.tx) and (op[0] in ROLLBACK_OPS + ("commit",) or pr.outcome == "flushfail"):
                problems[i] = (
                    "%s: an object DELETEd in the open transaction that has since left the deleted state (expunged / "
                    "made transient / re-added) is still processed as a deleted object" % ("commit" if op[0] == "commit" and pr.outcome != "flushfail" else "rollback"),
                    "%s | %s" % problems[i],
                )
        if not out.ok and pr.outcome == "ok" and op[0] in ROLLBACK_OPS + ("commit",):
            gone = [n for n, o in ms.objs.items() if o.state != D and any(n in sc.deleted for sc in ms.tx)]
            if gone and problems:
                problems[0] = (
                    "%s: an object DELETEd in the open transaction that has since left the deleted state (expunged / "
                    "made transient / re-added) is still processed as a deleted object" % opclass(op),
                    "%s | %s" % problems[0],
                )

        canon = None
        rows_differ = False
        if not problems and pr.outcome != "flushfail":
            if pr.value is not None and out.ok:
                got_v = out.value[0] if op[0] == "merge" else out.value
                if got_v != pr.value:
                    problems.append(("%s: returned %r, model %r" % (head, got_v, pr.value), ""))
                if op[0] == "merge" and out.value[1] != T:
                    problems.append(("merge: the source object left the transient state: %s" % out.value[1], ""))
            canon = W.deep_canon(w)
            depth_impl = sum(1 for lv in canon[0][0] if lv[1] in ("ACTIVE", "PREPARED") and (lv[0] or lv[2] in ("BEGIN", "AUTOBEGIN")))
            if depth_impl != len(m2.tx):
                problems.append(("%s: transaction nesting depth %d, model %d" % (head, depth_impl, len(m2.tx)), repr(canon[0][0])))
            sv = dict(canon[2])
            mv = {t: tuple(tuple(r[c] for c in W.TABLE_COLS[t]) for _, r in sorted(tr.items())) for t, tr in m2.view().items() if tr}
            if sv != mv:
                # not C35's subject (row contents are C30/C33's): the model's rows are only
                # used to predict primary-key conflicts, so the branch is cut, not reported
                info["rows_differ"] = (sv, mv)
        return problems, m2, pr, canon, info
    finally:
        w.close()


def make_step(cfg, rec, max_born):
    def step(hist_, ms, op):
        problems, m2, pr, canon, info = check_step(cfg, hist_, ms, op, max_born)
        changed = any(info["before"].get(n) != s for n, s in info["after"].items()) or bool(info["events"])
        rec.case((cfg["world"], cfg["eoc"], ms.canon(), op), nontrivial=changed)
        for n, s in info["after"].items():
            edge = (info["before"].get(n), s, tuple(info["events"].get(n, ())))
            if edge[0] != edge[1] or edge[2]:
                rec.outcome((opclass(op), edge))
                rec.count("edge %s -> %s via %s" % (edge[0], edge[1], ",".join(edge[2]) or "no event"))
        if problems:
            sig, detail = problems[0]
            case = dict(world=cfg["world"], eoc=cfg["eoc"], history=[list(h) for h in hist_], op=list(op), max_born=max_born)
            if op[0] in IMPLICIT_FLUSH_OPS and not ms.is_clean():
                # minimise: the same op after an explicit flush
                h2 = tuple(hist_) + (("flush",),)
                m_f = ms.copy()
                pr_f = m_f.apply(("flush",))
                if pr_f.outcome == "ok" and not pr_f.undefined:
                    p1, _, _, _, info1 = check_step(cfg, hist_, ms, ("flush",), max_born)
                    if p1:
                        sig, detail = p1[0]
                        info = info1
                        op = ("flush",)
                        case["op"] = ["flush"]
                    else:
                        p2, _, _, _, info2 = check_step(cfg, h2, m_f, op, max_born)
                        if p2:
                            sig, detail = p2[0]
                            info = info2
                            case["history"] = [list(h) for h in h2]
            detail = "%s\nhistory: %s\nop: %s\nobserved: %s" % (detail, [list(h) for h in case["history"]], list(op), info)
            rec.violation("C35 " + sig, detail, case)
            return None
        if info.get("rows_differ"):
            rec.count("branches cut: database rows differ from the model's (row switch after make_transient_to_detached)")
            return None
        if pr.undefined:
            rec.count("ops skipped: outcome undocumented (a persistent object without a row is flushed / merged onto)")
            return None
        if pr.outcome == "flushfail" or pr.terminal:
            rec.count("histories ending in a failed flush (not continued)")
            return None
        if changed and len(hist_) >= 2:
            rec.sample(dict(world=cfg["world"], eoc=cfg["eoc"], history=[list(h) for h in hist_], op=list(op), before=info["before"], after=info["after"], events=info["events"]), limit=3)
        return m2, (cfg["world"], cfg["eoc"], m2.canon(), canon)

    return step



# ------------------------------------------------------------------ cascade worlds (model-free)


class CLight:
    """bookkeeping for the cascade worlds: only the savepoint depth (both objects stay held)"""

    __slots__ = ("nsp",)

    def __init__(self, nsp=0):
        self.nsp = nsp

    def canon(self):
        return (self.nsp,)


def enabled_cascade(ms):
    ops = [
        ("append_if", "p", "children", "c"), ("add", "p", "auto"), ("add", "c", "auto"), ("flush",), ("expire", "p"), ("refresh", "p"),
        ("remove_if", "p", "children", "c"), ("expunge", "p"), ("expunge", "c"), ("delete_live", "p"), ("delete_live", "c"),
        ("commit",), ("rollback",),
    ]
    if ms.nsp < 1:
        ops.append(("begin_nested",))
    else:
        ops.append(("sp_rollback",))
    return ops


def impl_inserted(w):
    """names of objects INSERTed in a still open transaction scope (read from the Session)"""
    out = set()
    t = w.session._transaction
    while t is not None:
        for st in list(t._new):
            o = st.obj()
            if o is not None and o.__dict__.get("_vf_name"):
                out.add(o.__dict__["_vf_name"])
        t = t._parent
    return out


def check_step_free(cfg, hist_, ms, op):
    w = build(cfg, hist_)
    try:
        before = w.lifecycle()
        inserted = impl_inserted(w)
        out = w.apply(op)
        evs = {}
        for n, e in w.take_events():
            evs.setdefault(n, []).append(e)
        after = w.lifecycle()
        info = dict(before=before, after=after, events=evs, outcome=out.short(), cascade=CASCADE_WORLDS[cfg["world"]][2])
        problems = []
        head = opclass(op)
        if not out.ok and not out.is_sa_error:
            problems.append(("%s [cascade=%s]: raised %s (not a SQLAlchemy error)" % (head, info["cascade"], out.exc_name), out.short()))
        failed = not out.ok and not w.session.is_active
        is_rb = op[0] in ROLLBACK_OPS or failed
        for n in sorted(after):
            st_b, st_a, got_ev = before.get(n), after[n], evs.get(n, [])
            p = membership_problem(w, n, st_a) if w.session.is_active else None
            if p and op[0] == "delete_live" and n != op[1] and st_b == D:
                problems.append(
                    ("delete: the delete cascade re-registered an object that is already in the deleted state (back in identity_map / Session.deleted)", p)
                )
                continue
            if p:
                problems.append(("%s: object %s -> %s" % (head, st_b, p), "events %r" % got_ev))
                continue
            p = path_problem(st_b, st_a, got_ev, op, st_b, n in inserted, is_rb)
            if p and op[0] == "expunge" and n != op[1] and st_b in (T, DT) and got_ev:
                p = "the expunge cascade reached an object that is not in the session and fired a lifecycle event for it"
            if p:
                problems.append(("%s: %s" % ("rollback" if is_rb else head, p), "object %s -> %s events=%s" % (st_b, st_a, got_ev)))
        canon = None
        if not problems and not failed:
            canon = W.deep_canon(w)
        return problems, CLight(len(w.sps)), canon, info, failed
    finally:
        w.close()


def make_step_free(cfg, rec):
    def step(hist_, ms, op):
        problems, m2, canon, info, failed = check_step_free(cfg, hist_, ms, op)
        changed = any(info["before"].get(n) != s_ for n, s_ in info["after"].items()) or bool(info["events"])
        rec.case((cfg["world"], cfg["eoc"], hist_[-3:], op), nontrivial=changed)
        for n, s_ in info["after"].items():
            edge = (info["before"].get(n), s_, tuple(info["events"].get(n, ())))
            if edge[0] != edge[1] or edge[2]:
                rec.outcome((cfg["world"], opclass(op), n, edge))
                rec.count("edge %s -> %s via %s" % (edge[0], edge[1], ",".join(edge[2]) or "no event"))
                if n == "c" and op[0] not in ("add", "expunge", "delete_live") or (n == "c" and op[1:2] == ("p",)):
                    rec.count("cascade-driven transitions of the child")
        if problems:
            sig, detail = problems[0]
            case = dict(world=cfg["world"], eoc=cfg["eoc"], history=[list(h) for h in hist_], op=list(op))
            rec.violation("C35 " + sig, "%s\nhistory: %s\nop: %s\nobserved: %s" % (detail, case["history"], list(op), info), case)
            return None
        if failed:
            rec.count("histories ending in a failed flush (not continued)")
            return None
        if changed and len(hist_) >= 2 and len(info["events"]) >= 2:
            rec.sample(dict(world=cfg["world"], cascade=info["cascade"], history=[list(h) for h in hist_], op=list(op), before=info["before"], after=info["after"], events=info["events"]), limit=2)
        return m2, (cfg["world"], cfg["eoc"], m2.canon(), canon)

    return step


# ------------------------------------------------------------------ driver


def shards(tier, seed):
    # one shard: vf.cli then runs it in-process and the level-synchronous BFS
    # fans each level out over its own fork pool (ormworld1.explore_levels)
    return [None]


SHARD_TIMEOUT = dict(quick=4 * 3600, thorough=12 * 3600)  # watchdog only; the box may be heavily overloaded


def warm_history(cfg):
    if cfg["world"] in CASCADE_WORLDS:
        return [("append_if", "p", "children", "c"), ("add", "p", "auto"), ("flush",), ("expire", "p"), ("refresh", "p"), ("remove_if", "p", "children", "c"),
                ("flush",), ("commit",), ("delete_live", "p"), ("flush",), ("rollback",), ("expunge", "p")]
    cls = cfg["cls"]
    return [
        ("add", "x", None), ("flush",), ("set", "x", "name", "w"), ("flush",), ("query", cls), ("begin_nested",),
        ("merge", cls, (("id", 1), ("name", "m"))), ("sp_commit",), ("commit",), ("set", "x", "name", "v"),
        ("delete", "x"), ("flush",), ("rollback",), ("expunge", "x"), ("close",),
    ]


CONFIGS = dict(
    quick=[(w, e) for w in ("single", "twin", "seeded") for e in (True, False)]
    + [("single_noaf", True), ("falsy", True), ("falsylen", True), ("casc_su", True), ("casc_all", True), ("casc_do", True)],
    thorough=[(w, e) for w in ("single", "twin", "seeded") for e in (True, False)]
    + [("single_noaf", True), ("falsy", True), ("falsy", False), ("falsylen", True), ("casc_su", True), ("casc_all", True), ("casc_all", False), ("casc_do", True), ("casc_do", False)],
)


def run_shard(shard, tier, rec):
    gc.collect()
    gc.freeze()
    jobs = W.jobs_from_argv()
    try:
        for world, eoc in CONFIGS[tier]:
            cfg = make_cfg(world, eoc)
            depth = DEPTH[tier][world]
            if world in CASCADE_WORLDS:
                d = W.explore_levels(
                    rec, ID, [((), CLight(), (world, eoc, "root"))], enabled_cascade, lambda r, cfg=cfg: make_step_free(cfg, r), depth, jobs,
                    warm=[(cfg, warm_history(cfg))], ctx=dict(world=world, eoc=eoc),
                )
                rec.count("depth completed %s eoc=%s" % (world, eoc), d)
                continue
            max_born = BORN[tier][world]
            ms0 = C35Model(cfg)
            w0 = build(cfg, ())
            try:
                key0 = (world, eoc, ms0.canon(), W.deep_canon(w0))
            finally:
                w0.close()
            d = W.explore_levels(
                rec,
                ID,
                [((), ms0, key0)],
                lambda ms, max_born=max_born, cls=cfg["cls"]: enabled(ms, max_born, cls),
                lambda r, cfg=cfg, max_born=max_born: make_step(cfg, r, max_born),
                depth,
                jobs,
                warm=[(cfg, warm_history(cfg))],
                ctx=dict(world=world, eoc=eoc, max_born=max_born),
            )
            rec.count("depth completed %s eoc=%s" % (world, eoc), d)
    finally:
        W.cleanup()


def finish(tier, total):
    edges = sorted(k for k in total.counters if k.startswith("edge "))
    events_seen = set()
    for k in edges:
        via = k.split(" via ")[1]
        for e in via.split(","):
            events_seen.add(e)
    missing = [e for e in W.LIFECYCLE_EVENTS if e not in events_seen]
    return dict(lifecycle_edges_observed=len(edges), lifecycle_events_never_fired=missing)


def _tuplify(x):
    if isinstance(x, list):
        return tuple(_tuplify(i) for i in x)
    return x


def replay(case):
    if case.get("kind") == "hang":  # recorded by the per-step watchdog: re-run the step without a limit
        case = dict(case.get("ctx") or {}, history=case["history"], op=case["op"])
    gc.disable()
    try:
        cfg = make_cfg(case["world"], case["eoc"])
        if case["world"] in CASCADE_WORLDS:
            hist_ = tuple(_tuplify(h) for h in case["history"])
            problems, _, _, info, _ = check_step_free(cfg, hist_, CLight(), _tuplify(case["op"]))
            return [("C35 " + s_, "%s\nobserved: %s" % (d, info)) for s_, d in problems[:1]]
        ms = C35Model(cfg)
        hist_ = tuple(_tuplify(h) for h in case["history"])
        for h in hist_:
            ms.apply(h)
        op = _tuplify(case["op"])
        problems, _, _, _, info = check_step(cfg, hist_, ms, op, case.get("max_born", 1))
        return [("C35 " + s, "%s\nobserved: %s" % (d, info)) for s, d in problems[:1]]
    finally:
        W.cleanup()
        gc.enable()
