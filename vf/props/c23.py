"""C23 Connection transactions / savepoints vs a nested-transaction model (engine H).

One real ``Connection`` on a file-backed SQLite database (sqlite3 ``autocommit=False``:
SAVEPOINT takes part in the enclosing transaction) plus an independent autocommit observer
connection.  Every operation history up to the tier's depth over the alphabet

    begin  begin_nested  ins(fresh marker row)  conn.commit  conn.rollback  conn.close
    get_transaction (handle of an autobegun transaction)
    and for each of the <= 3 (quick) / 4 (thorough) transaction handles created so far:
    h.commit  h.rollback  h.close  h.__enter__  h.__exit__(ok)  h.__exit__(exception)

(started either from ``engine.connect()`` or from inside ``with engine.begin() as conn``) is
replayed on fresh objects in lock-step with ``vf.models.txmodel`` -- misuse included (double
commit, ending an outer handle while inner ones are live, use of a handle / the connection
after the context manager's transaction ended, operations after close).

Oracle after every operation (the property's three clauses):
 * rows the observer sees == model's published set; rows the connection itself sees ==
   model's visible set (so a savepoint rollback undid exactly the work since the savepoint,
   an outer rollback / close undid everything unpublished);
 * ``in_transaction()`` / ``in_nested_transaction()`` / ``closed`` == model;
 * an operation on a handle the model marks *ended* raises a SQLAlchemy error (commit) or is
   a silent no-op (rollback / close / context exit, as documented) and changes nothing; an
   operation the model allows must not raise; while the innermost entered ``with`` block
   belongs to an ended transaction, begin / begin_nested / execute must raise (documented
   "Can't operate on closed transaction inside context manager") and change nothing.

Judgement of the DESIGN §6 candidate: ending a savepoint out of order (``h1.rollback()`` /
``commit()`` / ``close()`` while an inner savepoint h2 is registered) leaves
``in_nested_transaction()`` True although no savepoint exists any more in the model or in the
database.  The quantifier of C23 names out-of-order rollback explicitly and the flags clause
has no misuse exemption, so this is reported (one stable signature, see SIG_OOO).  After
that report the history is explored further in *desync* mode: only the data clauses and
"raises are SQLAlchemy errors" are checked, flags are not compared again, and a raise where
the model would act is accepted when nothing changed (the later errors -- "no such
savepoint", PendingRollbackError until the stale handle is rolled back -- are the
"raises instead of acting" half of the statement and are not findings).

Genuine findings (signatures SIG_OOO -- open, listed in known_findings.json -- and SIG_STALE -- fixed in /repo by
7391e04; patches in /verif/proposed_fixes/c23_*.diff; with both patches applied the thorough tier is silent):
 * out-of-order end of a savepoint does not unwind the inner savepoints (NestedTransaction._deactivate_from_connection);
 * rollback()/close()/__exit__ of an ended RootTransaction cancels the live savepoint of a newer transaction
   (RootTransaction._close_impl), after which that savepoint's rollback() silently does nothing.

The canonical state also contains the connection's private context-manager bookkeeping (which `with` block it
believes it is in) -- for dedupe only, never for the oracle -- so that two histories that agree on everything public but
not on that hidden state are both explored (a seeded change in TransactionalContext.__exit__ hid behind the dedupe).

Mutations caught (each in a private copy, README rule 6; every one gave new VIOLATION signatures):
 M1 engine/base.py NestedTransaction._deactivate_from_connection: `_nested_transaction = None` instead of
    `self._previous_nested`                      -> in_nested_transaction False, model True (2 savepoints, inner ended)
 M2 NestedTransaction._cancel: recursion into `_previous_nested` removed -> in_nested_transaction True after outer commit
 M3 engine/util.py TransactionalContext.__exit__: `type_ is None and` dropped (commit on exception) -> published-rows
 M4 Connection.close(): `self._transaction.close()` skipped        -> in_transaction() True after close
 M5 Connection._execute_context: `_trans_ctx_check` branch removed  -> ended-op-did-not-raise (ins in ended `with`)
 M6 NestedTransaction._do_close: `is_active = False` first (close() no longer rolls back to the savepoint) -> visible-rows
 M7 RootTransaction._do_commit: "This transaction is inactive" raise replaced by pass -> ended-op-did-not-raise
 M8 engine/util.py TransactionalContext.__exit__ (clean exit / exception exit): `_trans_context_manager = None` instead
    of the enclosing manager; M9 __enter__: `_outer_trans_ctx = None`      -> ended-op-did-not-raise (ins/begin/begin_nested
    act inside the ended outer `with` block)
"""
from __future__ import annotations

import gc
import logging
import os
import shutil
import sqlite3
import warnings

from sqlalchemy import create_engine
from sqlalchemy import event
from sqlalchemy import exc as sa_exc
from sqlalchemy.pool import NullPool

from .. import core
from ..engines import hist
from ..models.txmodel import TxModel

ID = "C23"
LEVEL = "model_checking"
DEPTH = dict(quick=5, thorough=7)
PREFIX = dict(quick=2, thorough=3)
META = dict(
    engine="H",
    technique="explicit-state BFS over operation histories on a real Connection (replay on fresh objects), "
    "nested-transaction reference model in lock-step, canonical-state dedupe, independent observer connection",
    design_ref="DESIGN.md §5 C23",
    level_text="Every history of <=5 (quick) / <=7 (thorough) operations over begin / begin_nested / insert / "
    "conn.commit / conn.rollback / conn.close / get_transaction and commit / rollback / close / __enter__ / __exit__ "
    "(ok and exception) of up to 3 (quick) / 4 (thorough) transaction handles, from engine.connect() and from inside engine.begin(), is "
    "executed on a real Connection against file-backed SQLite; after every operation the committed rows seen by a "
    "second connection, the rows seen inside, in_transaction(), in_nested_transaction(), closed and the raise / "
    "no-op behaviour of ended handles are compared with the reference model.  Histories are deduplicated on a "
    "canonical state that contains everything a future operation can observe, so the exploration is complete for "
    "the bound.",
    level_note="Trusted: vf/models/txmodel.py (60 lines) and the handle/context bookkeeping in this driver.  SQLite "
    "only (sqlite3 autocommit=False mode); PostgreSQL / MariaDB savepoint handling is not executed.  Two-phase "
    "transactions and AUTOCOMMIT isolation are outside the statement.  Context managers are exited LIFO as the "
    "`with` statement guarantees.",
    rule="state = canonical (published rows, savepoint snapshots, visible rows, handle kinds/levels/liveness/context "
    "status, context stack, closed, public flags of the real objects); transition = one operation applied to a "
    "replayed state on both model and implementation; non-trivial case = the operation ran with a savepoint live, "
    "or addressed an ended handle, or ran inside an ended context manager",
    assumptions=[
        "single-threaded use of one Connection",
        "sqlite3 autocommit=False (the documented non-legacy transaction mode)",
        "context managers exit in LIFO order",
    ],
    bounds=dict(
        quick="all histories of length <=5, <=3 handles, 2 start modes",
        thorough="all histories of length <=7, <=4 handles, 2 start modes",
    ),
)
SHARD_TIMEOUT = dict(quick=300, thorough=1500)

SIG_OOO = (
    "flags: savepoint ended out of order (inner savepoint still registered) -> "
    "in_nested_transaction() stays True, model False"
)

SIG_STALE = (
    "stale handle: rollback()/close()/__exit__ of an ended RootTransaction cancels the live savepoint of a newer "
    "transaction -> in_nested_transaction() False, model True"
)

MAXH = dict(quick=3, thorough=4)
logging.getLogger("sqlalchemy").addHandler(logging.NullHandler())
HOPS = ("commit", "rollback", "close", "enter", "exit_ok", "exit_exc")

# --------------------------------------------------------------------- model
# handle = (kind, level, alive, cx)   kind: 'root'|'nested'; cx: 0 never entered, 1 entered, 2 exited


class M:
    __slots__ = ("tx", "handles", "ctx", "closed", "nins", "desync", "ectx")

    def __init__(self, tx, handles=(), ctx=(), closed=False, nins=0, desync=False, ectx=0):
        self.tx, self.handles, self.ctx, self.closed, self.nins, self.desync, self.ectx = (
            tx, handles, ctx, closed, nins, desync, ectx)

    def replace(self, **kw):
        d = {k: getattr(self, k) for k in self.__slots__}
        d.update(kw)
        return M(**d)

    def ctx_blocked(self):
        return bool(self.ctx) and not self.handles[self.ctx[-1]][2]

    def end_from(self, level):
        return tuple((k, lv, a and not (lv >= level), cx) for k, lv, a, cx in self.handles)

    def in_nested(self):
        return self.tx.depth > 0

    def key(self):
        tx = self.tx
        allm = set(tx.pub) | set(tx.cur)
        for s in tx.snaps or ():
            allm |= set(s)
        rank = {m: i for i, m in enumerate(sorted(allm))}

        def rl(s):
            return tuple(sorted(rank[x] for x in s))

        return (
            rl(tx.pub), None if tx.snaps is None else tuple(rl(s) for s in tx.snaps), rl(tx.cur),
            self.handles, self.ctx, self.closed, self.desync, self.ectx,
        )


def initial(root):
    if root == "connect":
        return M(TxModel())
    # with engine.begin() as conn:  == connect; h0 = begin(); h0.__enter__()
    return M(TxModel().begin(), handles=(("root", 0, True, 1),), ctx=(0,), ectx=1)


def enabled(m, maxh=3):
    ops = []
    if len(m.handles) < maxh:
        ops += [("begin",), ("nested",)]
    ops += [("ins",), ("ccommit",), ("crollback",), ("close",)]
    if len(m.handles) < maxh and m.tx.in_tx and not any(k == "root" and a for k, _, a, _ in m.handles):
        ops.append(("gettx",))
    blocked = m.ctx_blocked()
    for i, (k, lv, a, cx) in enumerate(m.handles):
        for hop in HOPS:
            if hop == "enter":
                # `with conn.begin() as h:` / `with h:` -- a handle is entered once, while it is live
                if cx != 0 or not a:
                    continue
            elif blocked and a and k == "nested" and not (hop.startswith("exit")):
                # inside a `with` block whose own transaction has ended SQLAlchemy refuses every statement
                # (documented), including the RELEASE / ROLLBACK TO of another, still live savepoint; that
                # refused statement then takes the "failed release" path, which C27 explores with faults.
                continue
            elif hop.startswith("exit"):
                # LIFO as `with` guarantees; engine.begin()'s own block is exited by ("ectx", ..)
                if not (m.ctx and m.ctx[-1] == i) or (m.ectx == 1 and i == 0):
                    continue
            ops.append(("h", i, hop))
    if m.ectx == 1 and m.ctx == (0,):
        ops += [("ectx", "ok"), ("ectx", "exc")]
    return ops


def _end_handle(m, i, how):
    """handle i is alive: commit / rollback it in the model"""
    k, lv, a, cx = m.handles[i]
    if k == "root":
        tx = m.tx.commit() if how == "commit" else m.tx.rollback()
        return m.replace(tx=tx, handles=m.end_from(0)), False
    ooo = m.tx.depth > lv
    tx = m.tx.release(lv) if how == "commit" else m.tx.rollback_to(lv)
    return m.replace(tx=tx, handles=m.end_from(lv)), ooo


def model_apply(m, op):
    """-> (model if the op acts, model if the op raises / is a no-op, expectation, out_of_order)
    expectation: 'ok' must not raise | 'raise' must raise, nothing changes |
                 'noop' silent no-op or raise, nothing changes"""
    kind = op[0]
    if kind in ("begin", "nested", "ins"):
        mr = m.replace(nins=m.nins + 1) if kind == "ins" else m
        if m.closed or m.ctx_blocked():
            return mr, mr, "raise", False
        if kind == "begin":
            if m.tx.in_tx:
                return m, m, "raise", False
            return m.replace(tx=m.tx.begin(), handles=m.handles + (("root", 0, True, 0),)), m, "ok", False
        tx = m.tx if m.tx.in_tx else m.tx.begin()
        if kind == "nested":
            tx, lv = tx.savepoint()
            return m.replace(tx=tx, handles=m.handles + (("nested", lv, True, 0),)), m, "ok", False
        return mr.replace(tx=tx.add(m.nins + 1)), mr, "ok", False
    if kind == "gettx":
        return m.replace(handles=m.handles + (("root", 0, True, 0),)), m, "ok", False
    if kind in ("ccommit", "crollback"):
        if not m.tx.in_tx:
            return m, m, "ok", False
        tx = m.tx.commit() if kind == "ccommit" else m.tx.rollback()
        return m.replace(tx=tx, handles=m.end_from(0)), m, "ok", False
    if kind == "close":
        return m.replace(tx=m.tx.rollback(), handles=m.end_from(0), closed=True), m, "ok", False
    if kind == "ectx":
        # leaving `with engine.begin()`: exit h0 (commit / rollback if still alive), then close
        a = m.handles[0][2]
        tx = m.tx
        if a:
            tx = tx.commit() if op[1] == "ok" else tx.rollback()
        else:
            tx = tx.rollback()
        hs = tuple((k, lv, False, 2 if j == 0 else cx) for j, (k, lv, _, cx) in enumerate(m.handles))
        m2 = m.replace(tx=tx, handles=hs, ctx=(), closed=True, ectx=2)
        return m2, m2, "ok", False
    # handle operations
    _, i, hop = op
    k, lv, a, cx = m.handles[i]
    if hop == "enter":
        hs = m.handles[:i] + ((k, lv, a, 1),) + m.handles[i + 1:]
        m2 = m.replace(handles=hs, ctx=m.ctx + (i,))
        return m2, m2, "ok", False
    base = m
    if hop.startswith("exit"):
        hs = m.handles[:i] + ((k, lv, a, 2),) + m.handles[i + 1:]
        base = m.replace(handles=hs, ctx=m.ctx[:-1])
    if not a:
        return base, base, ("raise" if hop == "commit" else "noop"), False
    how = "commit" if hop in ("commit", "exit_ok") else "rollback"
    m2, ooo = _end_handle(base, i, how)
    return m2, base, "ok", ooo


# --------------------------------------------------------------------- implementation world


class Env:
    """per-shard scratch database, engine and observer"""

    def __init__(self):
        self.dir = "/dev/shm/vf-%d-c23" % os.getpid()
        shutil.rmtree(self.dir, ignore_errors=True)
        os.makedirs(self.dir)
        self.db = os.path.join(self.dir, "t.db")
        c = sqlite3.connect(self.db)
        c.execute("create table t (x integer primary key)")
        c.commit()
        c.close()
        self.raw = []
        self.world = None
        self.nreset = 0
        self.eng = create_engine(
            "sqlite:///" + self.db, poolclass=NullPool, connect_args={"autocommit": False, "timeout": 0}
        )
        event.listen(self.eng, "connect", lambda dbc, rec: self.raw.append(dbc))
        self.obs = sqlite3.connect(self.db, isolation_level=None, timeout=0)

    def reset(self):
        w, self.world = self.world, None
        if w is not None:
            try:
                w.conn.close()
            except Exception:
                pass
            del w
        self.nreset += 1
        if self.nreset % 256 == 0:
            gc.collect()
        for r in self.raw:
            try:
                r.close()
            except Exception:
                pass
        del self.raw[:]
        self.obs.execute("delete from t")

    def dispose(self):
        try:
            self.reset()
            self.obs.close()
            self.eng.dispose()
        finally:
            shutil.rmtree(self.dir, ignore_errors=True)


class World:
    def __init__(self, env, root):
        env.reset()
        env.world = self
        self.env = env
        self.handles = []
        self.nins = 0
        self.cm = None
        if root == "connect":
            self.conn = env.eng.connect()
        else:
            self.cm = env.eng.begin()
            self.conn = self.cm.__enter__()
            self.handles.append(self.conn.get_transaction())

    def apply(self, op):
        """-> ('ok'|'raise'|'crash', exception)"""
        conn = self.conn
        kind = op[0]
        try:
            if kind == "begin":
                self.handles.append(conn.begin())
            elif kind == "nested":
                self.handles.append(conn.begin_nested())
            elif kind == "ins":
                self.nins += 1
                conn.exec_driver_sql("insert into t (x) values (%d)" % self.nins)
            elif kind == "gettx":
                self.handles.append(conn.get_transaction())
            elif kind == "ccommit":
                conn.commit()
            elif kind == "crollback":
                conn.rollback()
            elif kind == "close":
                conn.close()
            elif kind == "ectx":
                if op[1] == "ok":
                    self.cm.__exit__(None, None, None)
                else:
                    e = _UserError("body failed")
                    try:
                        if self.cm.__exit__(_UserError, e, None):
                            return "crash", AssertionError("engine.begin() swallowed the body's exception")
                    except _UserError:
                        pass
            else:
                h = self.handles[op[1]]
                hop = op[2]
                if hop == "commit":
                    h.commit()
                elif hop == "rollback":
                    h.rollback()
                elif hop == "close":
                    h.close()
                elif hop == "enter":
                    h.__enter__()
                elif hop == "exit_ok":
                    h.__exit__(None, None, None)
                else:
                    h.__exit__(_UserError, _UserError("body failed"), None)
            return "ok", None
        except sa_exc.SQLAlchemyError as e:
            return "raise", e
        except Exception as e:  # AssertionError, AttributeError, raw DBAPI error ...: not "raises instead of acting"
            return "crash", e

    def observe(self):
        conn = self.conn
        pub = frozenset(r[0] for r in self.env.obs.execute("select x from t"))
        o = dict(pub=pub, closed=conn.closed, in_tx=conn.in_transaction(), in_nested=conn.in_nested_transaction())
        inside = None
        if not conn.closed:
            raw = conn.connection.dbapi_connection
            inside = frozenset(r[0] for r in raw.execute("select x from t"))
        o["inside"] = inside
        return o

    def extras(self):
        conn = self.conn
        hs = self.handles

        def idx(t):
            if t is None:
                return None
            for i, h in enumerate(hs):
                if h is t:
                    return i
            return "other"

        # the context-manager bookkeeping is private state, used for the canonical key only (never by the oracle):
        # two histories that agree on everything public may still differ in which `with` block the connection
        # thinks it is in, and a future execute / begin consults exactly that
        return (
            tuple(bool(h.is_active) for h in hs), conn.closed, conn.invalidated,
            idx(conn.get_transaction()), idx(conn.get_nested_transaction()),
            idx(getattr(conn, "_trans_context_manager", None)),
            tuple(idx(getattr(h, "_outer_trans_ctx", None)) for h in hs),
            tuple(getattr(h, "_trans_subject", None) is not None for h in hs),
        )


class _UserError(Exception):
    pass


# --------------------------------------------------------------------- lock-step


def op_name(op):
    if op[0] == "h":
        return "h%d.%s" % (op[1], op[2])
    if op[0] == "ectx":
        return "engine.begin().__exit__(%s)" % op[1]
    return {"ccommit": "conn.commit", "crollback": "conn.rollback", "close": "conn.close", "nested": "begin_nested",
            "gettx": "get_transaction"}.get(op[0], op[0])


def situation(m, op):
    """abstract, history-independent description of the state an op was applied in"""
    s = "tx=%s savepoints=%d%s%s" % (
        "yes" if m.tx.in_tx else "no", m.tx.depth,
        " closed" if m.closed else "", " in-ended-ctx" if m.ctx_blocked() else "")
    if op[0] == "h":
        k, lv, a, cx = m.handles[op[1]]
        pos = ""
        if a and k == "nested":
            pos = " innermost" if lv == m.tx.depth else " outer-of-%d" % (m.tx.depth - lv)
        s += " handle=%s/%s%s%s" % (k, "live" if a else "ended", pos, {0: "", 1: " entered", 2: " exited"}[cx])
        return "%s [%s]" % (op[2], s)
    return "%s [%s]" % (op_name(op), s)


def make_step(rec, env, root):
    def step(hist_, ms, op):
        with warnings.catch_warnings():
            warnings.simplefilter("ignore")
            return _step(hist_, ms, op)

    def _step(hist_, ms, op):
        w = World(env, root)
        for o in hist_:
            w.apply(o)
        m_ok, m_no, expect, ooo = model_apply(ms, op)
        outcome, err = w.apply(op)
        case = dict(root=root, history=[list(o) for o in hist_], op=list(op))
        sit = situation(ms, op)
        names = [op_name(o) for o in hist_] + [op_name(op)]
        nontrivial = ms.tx.depth > 0 or expect != "ok" or ooo
        rec.case((root, hist_, op), nontrivial=nontrivial)

        def bad(kind, what):
            rec.violation("%s: %s -> %s" % (kind, sit, what), "history %s: %s" % (names, what), case, kind=(kind, sit))
            return None

        if outcome == "crash":
            return bad("internal-error", "%s: %s" % (type(err).__name__, err))
        if expect == "ok":
            if outcome == "raise":
                if not ms.desync:
                    return bad("spurious-raise", "%s: %s" % (type(err).__name__, str(err).split("\n")[0][:120]))
                m2 = m_no
            else:
                m2 = m_ok
        elif expect == "raise":
            if outcome != "raise":
                if ms.desync:  # the stale inner handle makes the context rule unpredictable: stop here
                    rec.count("desync_pruned")
                    return None
                return bad("ended-op-did-not-raise", "returned normally")
            m2 = m_no
        else:
            m2 = m_no
        o = w.observe()
        rec.outcome((op[0], op[-1] if op[0] == "h" else None, expect, outcome, type(err).__name__ if err else None,
                     o["in_tx"], o["in_nested"], o["closed"], len(o["pub"]), None if o["inside"] is None else len(o["inside"])))
        if o["pub"] != m2.tx.pub:
            return bad("published-rows", "other connections see %s, model %s" % (sorted(o["pub"]), sorted(m2.tx.pub)))
        if o["closed"] != m2.closed:
            return bad("closed-flag", "closed=%s, model %s" % (o["closed"], m2.closed))
        if o["inside"] is not None and o["inside"] != m2.tx.visible():
            return bad("visible-rows", "connection sees %s, model %s" % (sorted(o["inside"]), sorted(m2.tx.visible())))
        if not m2.desync:
            exp_tx, exp_n = m2.tx.in_tx, m2.in_nested()
            nidx = w.extras()[4]  # which handle get_nested_transaction() returns
            if ooo and isinstance(nidx, int) and not m2.handles[nidx][2]:
                # the connection still presents a savepoint that ended with the outer one: from here on the
                # flags follow the stale handle (desync mode, see module docstring); the disagreement itself is
                # reported where in_nested_transaction() shows it
                m2 = m2.replace(desync=True)
                if o["in_nested"] and not exp_n:
                    rec.violation(SIG_OOO, "history %s: in_nested_transaction()=True, handle flags %s; the database "
                                  "has no savepoint left" % (names, list(w.extras()[0])), case, kind="ooo")
                    rec.count("out_of_order_flag_findings")
            elif (op[0] == "h" and ms.handles[op[1]][0] == "root" and not ms.handles[op[1]][2] and expect == "noop"
                  and o["in_tx"] == exp_tx and exp_n and not o["in_nested"]):
                rec.violation(SIG_STALE, "history %s: the ended handle acted: in_nested_transaction()=False, handle "
                              "flags %s, but the newer transaction's savepoint was never rolled back or released"
                              % (names, list(w.extras()[0])), case, kind="stale-root")
                rec.count("stale_root_handle_findings")
                return None
            elif o["in_tx"] != exp_tx:
                return bad("in_transaction", "in_transaction()=%s, model %s" % (o["in_tx"], exp_tx))
            elif o["in_nested"] != exp_n:
                return bad("in_nested_transaction", "in_nested_transaction()=%s, model %s" % (o["in_nested"], exp_n))
        if nontrivial and len(hist_) >= 2 and (len(hist_) * 7 + len(m2.handles) * 3 + m2.tx.depth) % 11 == 3:
            rec.sample(dict(start=root, history=names, outcome=outcome if err is None else type(err).__name__,
                            published=sorted(o["pub"]), visible=None if o["inside"] is None else sorted(o["inside"]),
                            in_transaction=o["in_tx"], in_nested_transaction=o["in_nested"]))
        return m2, (root, m2.key(), w.extras())

    return step


ROOTS = ("connect", "ebegin")


def _frontier(tier):
    """distinct states at depth PREFIX[tier] (first history reaching each), deterministic"""
    rec = core.Rec(ID)
    env = Env()
    out = []
    try:
        for root in ROOTS:
            step = make_step(rec, env, root)
            m0 = initial(root)
            seen = {(root, m0.key())}
            level = [((), m0)]
            for d in range(PREFIX[tier]):
                nxt = []
                for h, m in level:
                    for op in enabled(m, MAXH[tier]):
                        r = step(h, m, op)
                        if r is None:
                            continue
                        m2, key = r
                        if key in seen:
                            continue
                        seen.add(key)
                        nxt.append((h + (op,), m2))
                level = nxt
            out += [(root, [list(o) for o in h]) for h, m in level]
    finally:
        env.dispose()
    return out


def shards(tier, seed):
    return [("prefix", r) for r in ROOTS] + [("sub", r, h) for r, h in _frontier(tier)]


def _tup(h):
    return tuple(tuple(o) for o in h)


def run_shard(shard, tier, rec):
    gc.disable()
    env = Env()
    try:
        root = shard[1]
        step = make_step(rec, env, root)
        maxh = MAXH[tier]

        def en(m):
            return enabled(m, maxh)

        if shard[0] == "prefix":
            m0 = initial(root)
            hist.explore(rec, [((), m0, (root, m0.key(), None))], en, step, depth=PREFIX[tier])
        else:
            h = _tup(shard[2])
            # rebuild the model state of the sub-root by lock-step replay (silent recorder)
            m = _replay_model(env, root, h)
            hist.explore(rec, [(h, m, ("subroot", root, h))], en, step, depth=DEPTH[tier] - len(h))
    finally:
        env.dispose()


def _replay_model(env, root, h):
    silent = core.Rec(ID)
    step = make_step(silent, env, root)
    m = initial(root)
    for i, op in enumerate(h):
        r = step(h[:i], m, op)
        if r is None:
            raise core.StopShard()
        m = r[0]
    return m


def replay(case):
    rec = core.Rec(ID)
    env = Env()
    try:
        root = case["root"]
        h = _tup(case["history"])
        op = tuple(case["op"])
        try:
            m = _replay_model(env, root, h)
            make_step(rec, env, root)(h, m, op)
        except core.StopShard:
            pass
    finally:
        env.dispose()
    return [(v["sig"], v["detail"]) for v in rec.violations]
