"""C15 Reflection reproduces the schema that was created (SQLite executed; engine I).

A table definition is a vector of ~30 features (table / column / constraint
names incl. mixed case, spaces, embedded double quotes and reserved words;
1-3 columns x 7 types x nullable x server default; primary key none / single /
composite / composite in non-column order / autoincrement, named or not;
foreign key none / single / composite / self-referential / two constraints,
with every referential action SQLite accepts for ON DELETE and ON UPDATE
(NO ACTION, RESTRICT, SET NULL, SET DEFAULT, CASCADE), [NOT] DEFERRABLE,
INITIALLY DEFERRED / IMMEDIATE and a MATCH clause (accepted and ignored by
SQLite, never reported), named or not, to a parent table whose name and column names vary;
unique constraint, index plain / unique / partial / two-column, CHECK;
main or ATTACHed schema).  Every definition within d feature deviations of
three base tables (a minimal one, a "rich" one that has every kind of object, a
"quoted" one with quoted names, schema and composite keys) is created on a fresh SQLite database with the real ``MetaData.create_all``;
in addition the *full product* ON DELETE x ON UPDATE x DEFERRABLE x INITIALLY
(x MATCH in the thorough tier) is run on the rich and the quoted base.  Then

1. ``Inspector`` output (get_columns / get_pk_constraint / get_foreign_keys /
   get_unique_constraints / get_indexes) is compared feature by feature with
   what the definition says (expected values are computed from the feature
   vector, not from SQLAlchemy objects);
2. ``Table(autoload_with=)`` is re-created with ``create_all`` on a second
   fresh database and inspected again: the two inspector outputs (now
   including CHECK constraints) must be identical (fixpoint).

Mutations caught: (private copy of lib/, quick tier, each gave new VIOLATION signatures)
  * sqlite FK_PATTERN without the ``SET\\s+NULL`` alternative -> inspector-fks: ondelete/onupdate='SET NULL';
  * get_pk_constraint without ``cols.sort(key=primary_key)`` -> inspector-pk / fixpoint-columns: pk='composite_rev';
  * _find_cols_in_sig ``"(.+?)"`` -> ``"(\\w+?)"`` -> inspector-uqs / inspector-fks for names with a space;
  * get_foreign_keys storing ON DELETE under options["onupdate"] -> inspector-fks: ondelete='CASCADE';
  * _resolve_type_affinity keeping only the first numeric argument -> inspector-columns: coltype='NUMERIC(5,2)';
  * engine/reflection.py _reflect_fk dropping fkey_d["options"] -> fixpoint-fks (ON DELETE lost on re-create);
  * get_indexes ``unique=0`` -> inspector-ixs: ix='unique';
  * ON-clause tokenizer ``re.split(r" *\\bON\\b *")`` without the word boundaries (splits inside ACTI-ON)
    -> inspector-fks / recreate-error: ondelete='NO ACTION';
  * the same split with ``maxsplit=1`` (second ON clause swallowed by the first)
    -> inspector-fks: ondelete='CASCADE' onupdate='CASCADE';
  * NO ACTION no longer normalised away for ON DELETE -> inspector-fks: ondelete='NO ACTION';
  * RESTRICT / SET DEFAULT removed from FK_PATTERN -> inspector-fks: ondelete='RESTRICT' / 'SET DEFAULT';
  * deferrable flag inverted -> inspector-fks / fixpoint-fks: deferrable=True;
  * INITIALLY IMMEDIATE not matched -> inspector-fks: deferrable=True initially='IMMEDIATE'.
"""
import itertools
import sqlite3
import warnings

from sqlalchemy import CheckConstraint
from sqlalchemy import Column
from sqlalchemy import create_engine
from sqlalchemy import exc
from sqlalchemy import ForeignKeyConstraint
from sqlalchemy import Index
from sqlalchemy import inspect
from sqlalchemy import MetaData
from sqlalchemy import PrimaryKeyConstraint
from sqlalchemy import Table
from sqlalchemy import text
from sqlalchemy import types as T
from sqlalchemy import UniqueConstraint
from sqlalchemy.pool import StaticPool

ID = "C15"
LEVEL = "exploration"
META = dict(
    engine="I",
    technique="deviation-bounded exhaustive enumeration of table definitions; create -> Inspector -> autoload -> re-create "
    "-> Inspector on real SQLite databases, compared with a definition-derived expectation and with each other (fixpoint)",
    design_ref="DESIGN.md §5 C15",
    level_text="A table definition is a vector of 29 features (names of table / columns / constraints / referred table and "
    "columns / schema from {plain, MixedCase, with space, embedded double quote, reserved word}; 1-3 columns x 7 types x "
    "nullable x 4 server defaults; 5 primary-key shapes x 3 names; 5 foreign-key shapes x 4 names x ON DELETE x ON UPDATE "
    "(None + all five referential actions each) x DEFERRABLE x INITIALLY x MATCH; "
    "5 unique shapes; 6 index shapes; 4 CHECK shapes; main or ATTACHed schema). Every valid definition within 2 (quick) / "
    "3 (thorough) meaningful deviations of three base tables (minimal, rich = every object kind present, quoted = quoted "
    "names + schema + composite keys) is created with create_all on a fresh SQLite database; Inspector.get_columns / "
    "get_pk_constraint / get_foreign_keys / get_unique_constraints / get_indexes are compared with the expectation computed "
    "from the feature vector; the table is reflected with Table(autoload_with=), re-created on a second fresh database and "
    "inspected again (incl. CHECK constraints): both inspections must be equal. The full product of "
    "the foreign key options (6 x 6 x 3 x 3, thorough: x 3 MATCH values) is additionally run on the rich and the quoted "
    "base. NO ACTION is expected to be absent from the reflected options (1.4 changelog, #4741), RESTRICT present. "
    "Complete for the bound.",
    level_note="SQLite 3.40 only (the only executable backend): PostgreSQL / MariaDB reflection queries need a live "
    "catalog and are out of reach; SQLite has no comments. Autoincrement and CHECK text are judged by the fixpoint only. "
    "Trusted: the expectation function (60 lines) and the harness's own identifier quoting.",
    rule="case = (base table, set of deviating features, their values); deviations that mean nothing in the resulting table "
    "(e.g. ON DELETE without a foreign key) are not counted; non-trivial = the created table has a foreign key, unique "
    "constraint, index or composite primary key (the regexp-driven parts of SQLite reflection run)",
    assumptions=["names contain no dot", "one child table and at most one parent table per database"],
    bounds=dict(
        quick="all definitions within 2 deviations of 3 bases + full FK option product (ON DELETE x ON UPDATE x DEFERRABLE x INITIALLY) on 2 bases",
        thorough="all definitions within 3 deviations of 3 bases + full FK option product x MATCH on 2 bases",
    ),
)

# ------------------------------------------------------------------ features

TYPES = {
    "INTEGER": (lambda: T.Integer(), ("INTEGER", ())),
    "VARCHAR(10)": (lambda: T.String(10), ("VARCHAR", (("length", 10),))),
    "NUMERIC(5,2)": (lambda: T.Numeric(5, 2), ("NUMERIC", (("precision", 5), ("scale", 2)))),
    "BOOLEAN": (lambda: T.Boolean(), ("BOOLEAN", ())),
    "DATE": (lambda: T.Date(), ("DATE", ())),
    "TEXT": (lambda: T.Text(), ("TEXT", ())),
    "BLOB": (lambda: T.LargeBinary(), ("BLOB", ())),
}
TYPE_NAMES = list(TYPES)
DEFAULTS = [None, "t:0", "t:'x'", "s:it's"]  # t: = text() clause verbatim, s: = plain python string

FEATURES = [
    ("tname", ["tbl", "MixedTbl", "with space", 'quo"te', "order"]),
    ("schema", [None, "aux", "Aux Db"]),
    ("ncols", [2, 1, 3]),
    ("c0name", ["a", "ColA", "a col", 'a"q', "select"]),
    ("c1name", ["b", "ColB", "b col", 'b"q']),
    ("c2name", ["c", "ColC", "c col", 'c"q']),
    ("c0type", TYPE_NAMES),
    ("c1type", TYPE_NAMES),
    ("c2type", TYPE_NAMES),
    ("c0null", [True, False]),
    ("c1null", [True, False]),
    ("c2null", [True, False]),
    ("c0def", DEFAULTS),
    ("c1def", DEFAULTS),
    ("c2def", DEFAULTS),
    ("pk", ["single", "none", "composite", "composite_rev", "autoinc"]),
    ("pkname", [None, "pk_tbl", "Pk Mixed"]),
    ("fk", ["none", "single", "composite", "self", "two"]),
    ("fkname", [None, "fk_plain", "Fk Mixed", 'fk"q']),
    # every referential action SQLite accepts (NO ACTION is the SQL default: documented as *not* reported)
    ("ondelete", [None, "CASCADE", "SET NULL", "NO ACTION", "RESTRICT", "SET DEFAULT"]),
    ("onupdate", [None, "CASCADE", "SET NULL", "NO ACTION", "RESTRICT", "SET DEFAULT"]),
    ("deferrable", [None, True, False]),
    ("initially", [None, "DEFERRED", "IMMEDIATE"]),
    ("match", [None, "FULL", "SIMPLE"]),  # accepted and ignored by SQLite, not reported; must not disturb the rest
    ("pname", ["par", "MixedPar", "par space", 'par"q']),
    ("pcols", ["plain", "mixed", "space"]),
    ("uq", ["none", "unnamed", "named", "named_mixed", "multi"]),
    ("ix", ["none", "plain", "unique", "partial", "multi", "mixed_name"]),
    ("ck", ["none", "unnamed", "named", "named_mixed"]),
]
FNAMES = [f for f, _ in FEATURES]
FVALS = dict(FEATURES)

BASES = {
    "min": {f: v[0] for f, v in FEATURES},
    "rich": dict(
        {f: v[0] for f, v in FEATURES},
        ncols=3,
        c1type="VARCHAR(10)",
        c2type="NUMERIC(5,2)",
        c1null=False,
        c2def="t:0",
        pkname="pk_tbl",
        fk="single",
        fkname="fk_plain",
        ondelete="CASCADE",
        uq="named",
        ix="plain",
        ck="named",
    ),
    "quoted": dict(
        {f: v[0] for f, v in FEATURES},
        tname="with space",
        schema="aux",
        c0name="ColA",
        c1name="b col",
        pk="composite_rev",
        fk="composite",
        onupdate="SET NULL",
        pname="MixedPar",
        pcols="space",
        uq="multi",
        ix="multi",
    ),
}

PCOLS = dict(plain=("id", "x", "y"), mixed=("Id", "ColX", "ColY"), space=("p id", "x col", "y col"))


def relevant(a):
    """set of features that mean something in assignment ``a``; None if ``a`` is not a valid table"""
    n = a["ncols"]
    rel = {"tname", "schema", "ncols", "pk", "fk", "uq", "ix", "ck"}
    for i in range(n):
        rel |= {"c%dname" % i, "c%dtype" % i, "c%ddef" % i, "c%dnull" % i}
    pk = a["pk"]
    if pk in ("composite", "composite_rev") and n < 2:
        return None
    if pk == "autoinc" and a["c0type"] != "INTEGER":
        return None
    pkcols = {"none": (), "single": (0,), "autoinc": (0,), "composite": (0, 1), "composite_rev": (1, 0)}[pk]
    for i in pkcols:
        rel.discard("c%dnull" % i)  # primary key columns are NOT NULL whatever the flag says
    if pk in ("single", "composite", "composite_rev"):
        rel.add("pkname")
    if a["fk"] != "none":
        rel |= {"fkname", "ondelete", "onupdate", "deferrable", "match"}
        if a["deferrable"] is not None:
            rel.add("initially")
        elif a["initially"] is not None:
            return None  # SQLite's grammar has INITIALLY only after [NOT] DEFERRABLE
        if a["fk"] in ("composite", "two") and n < 2:
            return None
        if a["fk"] == "self":
            if pk not in ("single", "autoinc"):
                return None
        else:
            rel |= {"pname", "pcols"}
    if a["uq"] == "multi" and n < 2:
        return None
    if a["ix"] == "multi" and n < 2:
        return None
    return rel


def q(name):
    """standard SQL identifier quoting (the harness's own, used in CHECK / WHERE texts it passes verbatim)"""
    return '"%s"' % name.replace('"', '""')


def cols_of(a):
    return [a["c%dname" % i] for i in range(a["ncols"])]


def last(a):
    return a["c%dname" % (a["ncols"] - 1)]


# --------------------------------------------------------------- definition


def define(a):
    """-> (MetaData, child Table) built with the public schema API"""
    md = MetaData()
    schema = a["schema"]
    names = cols_of(a)
    args = []
    pk = a["pk"]
    pkcols = {"none": (), "single": (0,), "autoinc": (0,), "composite": (0, 1), "composite_rev": (1, 0)}[pk]
    for i, cn in enumerate(names):
        kw = {}
        d = a["c%ddef" % i]
        if d is not None:
            kw["server_default"] = text(d[2:]) if d[0] == "t" else d[2:]
        if i in pkcols:
            if pk == "autoinc" or (pk == "single" and a["pkname"] is None):
                kw["primary_key"] = True  # column-level flag; otherwise an explicit PrimaryKeyConstraint below
        else:
            kw["nullable"] = a["c%dnull" % i]
        args.append(Column(cn, TYPES[a["c%dtype" % i]][0](), **kw))
    if pkcols and not (pk == "autoinc" or (pk == "single" and a["pkname"] is None)):
        args.append(PrimaryKeyConstraint(*[names[i] for i in pkcols], name=a["pkname"]))
    fk = a["fk"]
    if fk != "none":
        okw = dict(
            name=a["fkname"],
            ondelete=a["ondelete"],
            onupdate=a["onupdate"],
            deferrable=a["deferrable"],
            initially=a["initially"],
            match=a["match"],
        )
        if fk == "self":
            args.append(ForeignKeyConstraint([last(a)], [args[0]], **okw))  # target given as the Column object
        else:
            pid, px, py = PCOLS[a["pcols"]]
            Table(
                a["pname"],
                md,
                Column(pid, T.Integer, primary_key=True),
                Column(px, T.Integer),
                Column(py, T.Integer),
                UniqueConstraint(px, py),
                schema=schema,
            )
            ptab = md.tables[(schema + "." if schema else "") + a["pname"]]
            if fk == "single":
                args.append(ForeignKeyConstraint([last(a)], [ptab.c[pid]], **okw))
            elif fk == "two":
                # two constraints to the same parent: the described one on the last column plus a fixed second one
                args.append(ForeignKeyConstraint([last(a)], [ptab.c[pid]], **okw))
                args.append(ForeignKeyConstraint([names[0]], [ptab.c[pid]], name="fk_second", onupdate="CASCADE"))
            else:
                args.append(ForeignKeyConstraint([names[0], names[1]], [ptab.c[px], ptab.c[py]], **okw))
    uq = a["uq"]
    if uq == "unnamed":
        args.append(UniqueConstraint(last(a)))
    elif uq == "named":
        args.append(UniqueConstraint(last(a), name="uq_tbl"))
    elif uq == "named_mixed":
        args.append(UniqueConstraint(last(a), name="Uq Mixed"))
    elif uq == "multi":
        args.append(UniqueConstraint(names[1], names[0], name="uq_multi"))
    ck = a["ck"]
    if ck != "none":
        args.append(CheckConstraint(_ck_text(a), name={"unnamed": None, "named": "ck_tbl", "named_mixed": "Ck Mixed"}[ck]))
    kw = {}
    if pk == "autoinc":
        kw["sqlite_autoincrement"] = True
    t = Table(a["tname"], md, *args, schema=schema, **kw)
    ix = a["ix"]
    if ix == "plain":
        Index("ix_tbl", t.c[last(a)])
    elif ix == "mixed_name":
        Index("Ix Mixed", t.c[last(a)])
    elif ix == "unique":
        Index("ix_tbl", t.c[last(a)], unique=True)
    elif ix == "partial":
        Index("ix_tbl", t.c[last(a)], sqlite_where=text(_ix_where(a)))
    elif ix == "multi":
        Index("ix_tbl", t.c[names[1]], t.c[names[0]])
    return md, t


def _ck_text(a):
    return "%s IS NOT NULL OR %s IS NULL" % (q(a["c0name"]), q(a["c0name"]))


def _ix_where(a):
    return "%s IS NOT NULL" % q(last(a))


# ------------------------------------------------------ expected reflection


def sql_string_literal(s):
    return "'" + s.replace("'", "''") + "'"


def expected(a):
    names = cols_of(a)
    pk = a["pk"]
    pkcols = {"none": (), "single": (0,), "autoinc": (0,), "composite": (0, 1), "composite_rev": (1, 0)}[pk]
    cols = []
    for i, cn in enumerate(names):
        d = a["c%ddef" % i]
        if d is not None:
            d = d[2:] if d[0] == "t" else sql_string_literal(d[2:])
        cols.append(
            dict(
                name=cn,
                type=TYPES[a["c%dtype" % i]][1],
                nullable=False if i in pkcols else a["c%dnull" % i],
                default=d,
                primary_key=(pkcols.index(i) + 1) if i in pkcols else 0,
            )
        )
    e = dict(columns=cols)
    e["pk"] = dict(
        constrained_columns=[names[i] for i in pkcols],
        name=a["pkname"] if pk in ("single", "composite", "composite_rev") else None,
    )
    fks = []
    fk = a["fk"]
    if fk != "none":
        opts = {}
        # changelog 1.4 (#4741): NO ACTION "is the default cascade ... and when detected is not included in the
        # reflection dictionary"; RESTRICT "is positively stored"
        if a["ondelete"] not in (None, "NO ACTION"):
            opts["ondelete"] = a["ondelete"]
        if a["onupdate"] not in (None, "NO ACTION"):
            opts["onupdate"] = a["onupdate"]
        if a["deferrable"] is not None:
            opts["deferrable"] = a["deferrable"]
        if a["initially"] is not None:
            opts["initially"] = a["initially"]
        if fk == "self":
            cc, rt, rc = [last(a)], a["tname"], [names[0]]
        elif fk in ("single", "two"):
            cc, rt, rc = [last(a)], a["pname"], [PCOLS[a["pcols"]][0]]
        else:
            cc, rt, rc = [names[0], names[1]], a["pname"], list(PCOLS[a["pcols"]][1:])
        fks.append(
            dict(name=a["fkname"], constrained_columns=cc, referred_schema=a["schema"], referred_table=rt, referred_columns=rc, options=opts)
        )
    if fk == "two":
        fks.append(
            dict(
                name="fk_second",
                constrained_columns=[names[0]],
                referred_schema=a["schema"],
                referred_table=a["pname"],
                referred_columns=[PCOLS[a["pcols"]][0]],
                options={"onupdate": "CASCADE"},
            )
        )
    e["fks"] = sorted(fks, key=repr)
    uq = a["uq"]
    e["uqs"] = {
        "none": [],
        "unnamed": [dict(name=None, column_names=[last(a)])],
        "named": [dict(name="uq_tbl", column_names=[last(a)])],
        "named_mixed": [dict(name="Uq Mixed", column_names=[last(a)])],
        "multi": [dict(name="uq_multi", column_names=[names[1], names[0]])] if len(names) > 1 else None,
    }[uq]
    ix = a["ix"]
    e["ixs"] = {
        "none": [],
        "plain": [dict(name="ix_tbl", column_names=[last(a)], unique=False, where=None)],
        "mixed_name": [dict(name="Ix Mixed", column_names=[last(a)], unique=False, where=None)],
        "unique": [dict(name="ix_tbl", column_names=[last(a)], unique=True, where=None)],
        "partial": [dict(name="ix_tbl", column_names=[last(a)], unique=False, where=_ix_where(a))],
        "multi": [dict(name="ix_tbl", column_names=[names[1], names[0]], unique=False, where=None)] if len(names) > 1 else None,
    }[ix]
    return e


# ------------------------------------------------------------ observation


def type_key(t):
    name = type(t).__name__.upper()
    args = []
    for k in ("length", "precision", "scale"):
        v = getattr(t, k, None)
        if v is not None and name in ("VARCHAR", "NUMERIC", "CHAR", "DECIMAL"):
            args.append((k, v))
    return (name, tuple(args))


def observe(conn, tname, schema, with_checks=False):
    insp = inspect(conn)
    o = {}
    o["columns"] = [
        dict(name=c["name"], type=type_key(c["type"]), nullable=c["nullable"], default=c["default"], primary_key=c["primary_key"])
        for c in insp.get_columns(tname, schema=schema)
    ]
    p = insp.get_pk_constraint(tname, schema=schema)
    o["pk"] = dict(constrained_columns=list(p["constrained_columns"]), name=p["name"])
    o["fks"] = sorted(
        (
            dict(
                name=f["name"],
                constrained_columns=list(f["constrained_columns"]),
                referred_schema=f["referred_schema"],
                referred_table=f["referred_table"],
                referred_columns=list(f["referred_columns"]),
                options=dict(f["options"]),
            )
            for f in insp.get_foreign_keys(tname, schema=schema)
        ),
        key=repr,
    )
    o["uqs"] = sorted((dict(name=u["name"], column_names=list(u["column_names"])) for u in insp.get_unique_constraints(tname, schema=schema)), key=repr)
    ixs = []
    for i in insp.get_indexes(tname, schema=schema):
        w = i.get("dialect_options", {}).get("sqlite_where")
        ixs.append(dict(name=i["name"], column_names=list(i["column_names"]), unique=bool(i["unique"]), where=None if w is None else str(w)))
    o["ixs"] = sorted(ixs, key=repr)
    if with_checks:
        o["cks"] = sorted((dict(name=c["name"], sqltext=c["sqltext"]) for c in insp.get_check_constraints(tname, schema=schema)), key=repr)
    return o


def fresh_engine(schema):
    def creator():
        c = sqlite3.connect(":memory:")
        if schema:
            c.execute("ATTACH DATABASE ':memory:' AS %s" % q(schema))
        return c

    return create_engine("sqlite://", creator=creator, poolclass=StaticPool)


FACETS = ("columns", "pk", "fks", "uqs", "ixs")


def check_case(a):
    """-> (list of (kind, detail), stats)"""
    out, stats = [], {}
    schema = a["schema"]
    e1 = fresh_engine(schema)
    e2 = fresh_engine(schema)
    try:
        with warnings.catch_warnings(record=True) as w:
            warnings.simplefilter("always")
            md, t = define(a)
            with e1.connect() as c1:
                try:
                    md.create_all(c1)
                except exc.SQLAlchemyError as e:
                    out.append(("create-error:" + type(e).__name__, str(e)[:300]))
                    return out, stats
                ddl = c1.exec_driver_sql("select sql from %ssqlite_master where name = ?" % ((q(schema) + ".") if schema else ""), (a["tname"],)).scalar()
                stats["ddl"] = ddl
                try:
                    o1 = observe(c1, a["tname"], schema)
                except exc.SQLAlchemyError as e:
                    out.append(("inspect-error:" + type(e).__name__, "%s\n%s" % (str(e)[:300], ddl)))
                    return out, stats
                exp = expected(a)
                for facet in FACETS:
                    if o1[facet] != exp[facet]:
                        out.append(("inspector-%s" % facet, "reflected %r\nexpected  %r\nDDL: %s" % (o1[facet], exp[facet], ddl)))
                # ---- generation 2: reflect into a Table, re-create elsewhere, inspect again
                o1c = observe(c1, a["tname"], schema, with_checks=True)
                md2 = MetaData()
                try:
                    Table(a["tname"], md2, autoload_with=c1, schema=schema)
                except exc.SQLAlchemyError as e:
                    out.append(("autoload-error:" + type(e).__name__, "%s\n%s" % (str(e)[:300], ddl)))
                    return out, stats
            with e2.connect() as c2:
                try:
                    md2.create_all(c2)
                    o2 = observe(c2, a["tname"], schema, with_checks=True)
                except exc.SQLAlchemyError as e:
                    out.append(("recreate-error:" + type(e).__name__, "%s\n%s" % (str(e)[:300], ddl)))
                    return out, stats
                ddl2 = c2.exec_driver_sql("select sql from %ssqlite_master where name = ?" % ((q(schema) + ".") if schema else ""), (a["tname"],)).scalar()
                for facet in FACETS + ("cks",):
                    if o1c[facet] != o2[facet]:
                        out.append(("fixpoint-%s" % facet, "first  %r\nsecond %r\nDDL1: %s\nDDL2: %s" % (o1c[facet], o2[facet], ddl, ddl2)))
                stats["obs"] = o1c
        stats["warnings"] = sorted({str(x.message)[:160] for x in w})
    finally:
        e1.dispose()
        e2.dispose()
    return out, stats


# ------------------------------------------------------------ enumeration


def deviations(base, d):
    """all valid assignments within <= d *meaningful* feature deviations of ``base``, fewest deviations first"""
    for k in range(d + 1):
        for feats in itertools.combinations(FNAMES, k):
            alts = [[v for v in FVALS[f] if v != base[f]] for f in feats]
            for vals in itertools.product(*alts):
                a = dict(base)
                a.update(zip(feats, vals))
                rel = relevant(a)
                if rel is None or any(f not in rel for f in feats):
                    continue  # invalid table, or a deviation that changes nothing (counted at a smaller k)
                yield feats, vals, a


FKOPT = ("ondelete", "onupdate", "deferrable", "initially")


def fk_option_product(base, with_match):
    """the full product of every ON DELETE x ON UPDATE x DEFERRABLE x INITIALLY value (x MATCH) on one base table"""
    feats = FKOPT + (("match",) if with_match else ())
    for vals in itertools.product(*[FVALS[f] for f in feats]):
        a = dict(base)
        a.update(zip(feats, vals))
        if relevant(a) is None:
            continue
        dev = [(f, v) for f, v in zip(feats, vals) if base[f] != v]
        yield tuple(f for f, _ in dev), tuple(v for _, v in dev), a


def shards(tier, seed):
    d = 2 if tier == "quick" else 3
    parts = 8 if tier == "quick" else 96
    out = [(b, d, p, parts) for b in BASES for p in range(parts)]
    # full product of the foreign key options on the rich base (single-column named FK) and the quoted base
    # (composite unnamed FK in an attached schema); thorough also crosses MATCH
    for b in ("rich", "quoted"):
        out += [(b, "fkopts", p, 4) for p in range(4)]
    return out


NAME_CLASS = dict(tname="table name", pname="referred table name", fkname="foreign key name", pkname="primary key name")
VALUE_CLASS = ["plain", "MixedCase", "with space", "embedded double quote", "reserved word"]


def sig_of(kind, a):
    """root-cause level signature: the failing facet plus the minimal deviations from the minimal base table, with
    column positions erased (c0name/c1name/c2name -> 'column name'); all failures that need an identifier containing a
    double quote are keyed by which identifier carries it (the other features of the minimal case are in the replay)"""
    rel = relevant(a)
    devs = [(f, a[f]) for f in FNAMES if a[f] != BASES["min"][f] and f in rel]
    dq = sorted({NAME_CLASS.get(f, "column name") for f, v in devs if isinstance(v, str) and '"' in v and f.endswith("name")})
    if dq:
        return "%s: identifier with embedded double quote (%s)" % (kind, ", ".join(dq))
    if any(f == "match" for f, _ in devs):
        return "%s: foreign key with a MATCH clause" % kind
    parts = []
    for f, v in devs:
        if f == "ncols":
            continue
        if f[0] == "c" and f[1].isdigit():
            f = "col" + f[2:]
        parts.append("%s=%r" % (f, v))
    return "%s: %s" % (kind, " ".join(sorted(parts)) or "(base table)")


def minimise(a, kind):
    """canonical minimal failing definition: walk towards the *minimal* base table (reset a feature to its base value,
    or replace its value by an earlier alternative of the feature's value list) while ``kind`` persists"""
    a = dict(a)
    base = BASES["min"]
    changed = True
    while changed:
        changed = False
        for f in FNAMES:
            if a[f] == base[f]:
                continue
            for v in FVALS[f][: FVALS[f].index(a[f])]:
                b = dict(a)
                b[f] = v
                rel = relevant(b)
                if rel is None:
                    continue
                if kind in {k for k, _ in check_case(b)[0]}:
                    a = b
                    changed = True
                    break
            if changed:
                break
    rel = relevant(a)
    for f in FNAMES:  # features that mean nothing in the final table are shown at their base value
        if f not in rel:
            a[f] = base[f]
    return a


def run_shard(shard, tier, rec):
    base, d, p, parts = shard
    reported = {}
    gen = fk_option_product(BASES[base], tier == "thorough") if d == "fkopts" else deviations(BASES[base], d)
    for idx, (feats, vals, a) in enumerate(gen):
        if idx % parts != p:
            continue
        res, stats = check_case(a)
        nontriv = bool(stats.get("obs")) and (bool(stats["obs"]["fks"]) or bool(stats["obs"]["uqs"]) or bool(stats["obs"]["ixs"]) or len(stats["obs"]["pk"]["constrained_columns"]) > 1)
        rec.case((base, feats, vals), nontrivial=nontriv)
        if d == "fkopts":
            rec.count("fk_option_product_cases")
        rec.outcome(repr(stats.get("obs")))
        rec.count("cases_with_reflection_warnings", 1 if stats.get("warnings") else 0)
        if nontriv and len(feats) >= 2 and idx % 499 == 7:
            rec.sample(dict(base=base, deviations=dict(zip(feats, vals)), ddl=stats.get("ddl")))
        for kind, detail in res:
            if reported.get(kind, 0) >= 4:
                rec.count("violating_cases")
                continue
            reported[kind] = reported.get(kind, 0) + 1
            m = minimise(a, kind)
            rec.violation(sig_of(kind, m), detail, dict(assignment=m, kind=kind, found_in=dict(base=base, deviations=dict(zip(feats, vals)))))


def replay(case):
    a = case["assignment"]
    res, _ = check_case(a)
    return [(sig_of(k, a), d) for k, d in res]
