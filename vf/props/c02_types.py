"""c02_types -- the "typed" statement family of C02 plus a facade over ``vf.worlds.stmtgen``.

Why: the datatype of a CAST / type_coerce() / bound literal / ad-hoc column() is part of the cache key only through
``TypeEngine._static_cache_key``, which is derived from the *constructor arguments* of the type object.  The stmtgen
family uses three fixed type objects, so "two statements of the same shape whose type differs only in one
constructor argument" never occurs there.  This module adds that feature class:

    shape  = how the type is attached:  tcast    select(a.id, cast(<src>, T).label("v"))
                                        tcoerce  select(a.id, type_coerce(<src>, T).label("v"))
                                        tbind    select(a.id, literal(<value>, T).label("v"))
                                        tcol     select(a.id, column(<name>, T).label("v")).select_from(a)
             all with ``.where(a.id >= <lit>).order_by(a.id)``
    ty     = the type class (10: Numeric Float String Enum Boolean DateTime Interval LargeBinary + a user
             TypeDecorator and a user UserDefinedType, both cache_ok=True)
    a1, a2 = its first / second constructor argument, each over {left out = None/default, falsy, truthy}
             (0 / "" / False  vs  a positive number / non-empty string / True)
    lit    = the literal of the WHERE clause and the selector of the bound value (two values)

The family of a shape is the FULL product ty x a1 x a2 x lit restricted to the argument grid of the type (not a
Hamming ball: the product is small), simplest first.  ``sid`` / ``parse_sid`` / ``base`` / ``valid`` / ``family`` /
``build_exec`` dispatch on the shape name and fall through to stmtgen for its shapes, so the driver's explorer,
minimiser, signatures and replay work on both kinds of statement; ``SHAPES`` stays stmtgen's table (the typed
shapes are enumerated by their own shards, they are not mixed into the global all-pairs family).
"""
from __future__ import annotations

import collections
import datetime
import decimal
import json

from sqlalchemy import Boolean
from sqlalchemy import cast
from sqlalchemy import column
from sqlalchemy import DateTime
from sqlalchemy import Enum
from sqlalchemy import exc as sa_exc
from sqlalchemy import Float
from sqlalchemy import Interval
from sqlalchemy import LargeBinary
from sqlalchemy import literal
from sqlalchemy import literal_column
from sqlalchemy import Numeric
from sqlalchemy import select
from sqlalchemy import String
from sqlalchemy import type_coerce
from sqlalchemy.types import TypeDecorator
from sqlalchemy.types import UserDefinedType

from ..worlds import stmtgen as _sg
from ..worlds.stmtgen import Built  # noqa: F401
from ..worlds.stmtgen import DIALECTS  # noqa: F401
from ..worlds.stmtgen import ENGINE_CACHE  # noqa: F401
from ..worlds.stmtgen import first_line  # noqa: F401
from ..worlds.stmtgen import make_engine  # noqa: F401
from ..worlds.stmtgen import neighbours  # noqa: F401
from ..worlds.stmtgen import NotConstructible  # noqa: F401
from ..worlds.stmtgen import observe  # noqa: F401
from ..worlds.stmtgen import SHAPES  # noqa: F401

a = _sg.a

# ------------------------------------------------------------------ user-defined types (documented extension points)


class Tagged(TypeDecorator):
    """string type whose two constructor arguments change what is bound and what is returned;
    None, the falsy value and the truthy value of each argument all behave differently"""

    impl = String
    cache_ok = True

    def __init__(self, digits=None, tag=None):
        super().__init__()
        self.digits = digits
        self.tag = tag

    def _conv(self, value):
        if value is None:
            return None
        if self.digits is not None:
            value = value[: self.digits]
        if self.tag is not None:
            value = "%s<%s>" % (value, self.tag)
        return value

    def process_bind_param(self, value, dialect):
        return self._conv(value)

    def process_result_value(self, value, dialect):
        return self._conv(value)


class Fixed(UserDefinedType):
    """numeric type whose column specification and result conversion depend on ``width`` (None / 0 / 4 all differ)"""

    cache_ok = True

    def __init__(self, width=None):
        self.width = width

    def get_col_spec(self, **kw):
        return "NUMERIC" if self.width is None else "NUMERIC(12, %d)" % self.width

    def result_processor(self, dialect, coltype):
        width = self.width
        if width is None:
            return None
        return lambda v: None if v is None else round(float(v), width)


# ------------------------------------------------------------------ the type table

_TS = literal_column("'2001-02-03 04:05:06.000000'")
_EPOCH5 = literal_column("'1970-01-01 00:00:05.500000'")


def _kw(**kw):
    return dict((k, v) for k, v in kw.items() if v is not None)


# name -> (a1 values, a2 values, constructor(a1, a2), source expression for cast/coerce, column name for tcol,
#          the two bound values of tbind (selected by ``lit``))
TYPES = collections.OrderedDict()
TYPES["Numeric"] = ((None, 0, 10), (None, 0, 2), lambda p, s: Numeric(precision=p, scale=s), a.c.n, "n",
                    (decimal.Decimal("1.25"), decimal.Decimal("7.5")))
TYPES["Float"] = ((None, 0, 10), (None, 0, 3), lambda p, s: Float(precision=p, asdecimal=True, decimal_return_scale=s),
                  a.c.n, "n", (1.25, 7.5))
TYPES["String"] = ((None, 0, 5), (None, "", "NOCASE"), lambda n, c: String(length=n, collation=c), a.c.s, "s",
                   ("abc", "xyz12345"))
TYPES["Enum"] = ((None, False, True), (None, False, True),
                 lambda v, n: Enum("a", "b", "", "A%", name="en", **_kw(validate_strings=v, native_enum=n)), a.c.s, "s",
                 ("a", "zz"))
TYPES["Boolean"] = ((None, False, True), (None, "", "ck"), lambda c, n: Boolean(**_kw(create_constraint=c, name=n)),
                    a.c.f, "f", (True, False))
TYPES["DateTime"] = ((None, False, True), (None,), lambda tz, _: DateTime(**_kw(timezone=tz)), _TS, "s",
                     (datetime.datetime(2001, 2, 3, 4, 5, 6), datetime.datetime(1999, 12, 31)))
TYPES["Interval"] = ((None, 0, 6), (None, 0, 2), lambda sp, dp: Interval(second_precision=sp, day_precision=dp),
                     _EPOCH5, "s", (datetime.timedelta(seconds=5), datetime.timedelta(days=1, seconds=1)))
TYPES["LargeBinary"] = ((None, 0, 8), (None,), lambda n, _: LargeBinary(length=n), a.c.s, "s", (b"ab", b"\x00xyz"))
TYPES["Tagged"] = ((None, 0, 2), (None, "", "t"), lambda d, t: Tagged(digits=d, tag=t), a.c.s, "s", ("abc", "xyz12345"))
TYPES["Fixed"] = ((None, 0, 4), (None,), lambda w, _: Fixed(width=w), a.c.n, "n", (1.25, 7.5))

# Switch for the Enum row of the grid.  History: before /repo commit "fix: Enum cache key includes the enum values, class,
# name and flags" every Enum had the cache key (Enum, ("length", n)) -- its own arguments travel through **kw, which
# util.get_cls_kwargs() cannot see -- so type_coerce(x, Enum(E1)) and type_coerce(x, Enum(E2)) shared a compiled form;
# this family found it (7 signatures, e.g. "cached SQL differ from uncached: exec tbind[ty="Enum",a1=true,lit=3] after
# [tbind[ty="Enum"]] cache=dict").  With the fix in place Enum is enumerated like every other type.
ENUM_IN_GRID = True
GRID_TYPES = [ty for ty in TYPES if ty != "Enum" or ENUM_IN_GRID]

LITS = (1, 3)
TSHAPES = ("tcast", "tcoerce", "tbind", "tcol")
_FEATS = ("ty", "a1", "a2", "lit")


def is_typed(shape):
    return shape in TSHAPES


def _tbase():
    return collections.OrderedDict((("ty", "Numeric"), ("a1", None), ("a2", None), ("lit", LITS[0])))


def _in(v, vals):
    return any(v == x and type(v) is type(x) for x in vals)  # False is not 0


def _tvalid(feats):
    t = TYPES.get(feats["ty"])
    return t is not None and _in(feats["a1"], t[0]) and _in(feats["a2"], t[1]) and _in(feats["lit"], LITS)


def tfamily(shape, lits=LITS):
    """the full product, simplest first (base type first, arguments in table order: left out, falsy, truthy)"""
    out = []
    for lit in lits:
        for ty in GRID_TYPES:
            t = TYPES[ty]
            for a1 in t[0]:
                for a2 in t[1]:
                    out.append((shape, collections.OrderedDict((("ty", ty), ("a1", a1), ("a2", a2), ("lit", lit)))))
    return out


def _tbuild(shape, feats):
    a1s, a2s, ctor, src, colname, values = TYPES[feats["ty"]]
    type_ = ctor(feats["a1"], feats["a2"])
    lit = feats["lit"]
    if shape == "tcast":
        e = cast(src, type_)
    elif shape == "tcoerce":
        e = type_coerce(src, type_)
    elif shape == "tbind":
        e = literal(values[LITS.index(lit)], type_)
    elif shape == "tcol":
        e = column(colname, type_)
    else:
        raise AssertionError(shape)
    stmt = select(a.c.id, e.label("v")).select_from(a).where(a.c.id >= lit).order_by(a.c.id)
    return Built(stmt, None, "core", False, False)


# ------------------------------------------------------------------ facade (same names as stmtgen)


def base(shape):
    return _tbase() if is_typed(shape) else _sg.base(shape)


def valid(shape, feats):
    return _tvalid(feats) if is_typed(shape) else _sg.valid(shape, feats)


def family(d, shapes=None):
    """stmtgen's family; a typed shape contributes its full product whatever ``d`` is"""
    if shapes is None:
        return _sg.family(d)
    out = []
    for sh in shapes:
        out.extend(tfamily(sh) if is_typed(sh) else _sg.family(d, [sh]))
    return out


def sid(shape, feats):
    if not is_typed(shape):
        return _sg.sid(shape, feats)
    b0 = _tbase()
    return "%s[%s]" % (shape, ",".join("%s=%s" % (f, json.dumps(feats[f])) for f in _FEATS
                                       if feats[f] != b0[f]))


def parse_sid(s):
    shape = s.split("[", 1)[0]
    if not is_typed(shape):
        return _sg.parse_sid(s)
    feats = _tbase()
    rest = s[len(shape) + 1:-1]
    if rest:
        for part in rest.split(","):  # no value of the typed tables contains a comma
            k, v = part.split("=", 1)
            feats[k] = json.loads(v)
    return shape, feats


def build_exec(shape, feats):
    if not is_typed(shape):
        return _sg.build_exec(shape, feats)
    try:
        return _tbuild(shape, feats)
    except (sa_exc.ArgumentError, sa_exc.InvalidRequestError) as e:
        raise NotConstructible("%s: %s" % (sid(shape, feats), e)) from e
