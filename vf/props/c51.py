"""C51 pickling and serializer round trips preserve state and results (engine H + I).

Part A, mapped objects (engine H): the session state space of
``vf.worlds.pickleworld`` (roots "empty database + transient p1/c1/c2" and
"seeded database", 27 operations incl. five loader-option queries, expire,
expunge, close, delete) is explored breadth first by replay with canonical-state
dedupe; at **every reached state** every tracked object is pickled with
protocols 2-5 and unpickled and

  * the canonical state of the object graph must be the same (identity key,
    loaded column / relationship values, expired attributes, ``expired`` flag,
    committed_state, ``modified``, unloaded set, pending callables, loader
    options (compared as cache keys) and load path); the lifecycle must be what
    pickling can carry: pending -> transient, persistent -> detached,
  * one-step bisimulation: two fresh replays of the history; in one the original
    stays in its session (a detached / transient one is added), in the other the
    original graph is expunged and the unpickled copy is added in its place --
    then each probe of
    ``PROBES`` (read columns / deferred column / relationship, modify + flush,
    append + flush, expire + read, refresh, delete + flush, merge into another
    session, commit + read) must give the same outcome or exception class, the
    same database rows and leave the object in the same lifecycle state.

Part B, rows and frozen results (engine I): every statement of the 43-statement
family (Core and ORM, duplicate / ambiguous column names, typed columns,
subqueries, CTE, text) is executed; every ``Row`` (protocols 2-5) must come back
equal in values, keys, mapping access and hash; ``Result.freeze()`` pickled and
thawed must yield the same rows through ``all / mappings / scalars / columns /
unique / fetchmany / one_or_none`` (ORM entities compared by canonical state,
and through ``merge_frozen_result``).

Part C, MetaData (engine I): feature deviations of a table family (composite
keys, foreign keys incl. a use_alter cycle, indexes, unique / check constraints,
defaults, server defaults, 10 column types, schema, naming convention, info /
comments, computed columns, enums); the unpickled MetaData must describe the
same catalog, sort its tables the same way, render the same DDL for three
dialects (two routes through the same tree), create the same database on SQLite
and accept new tables that refer to the old ones.

Part D, ext.serializer (engine I): every statement is dumped and loaded against
the live MetaData / mappers; the deserialized statement must compile to the
same SQL and parameters and execute to the same rows (DML: same table contents).

Deliberately not compared (session-side knowledge a pickle does not carry and the property does not list): session
membership, the 'deleted' / was_deleted state, removals pending in another object's attribute history, a second instance
of the same identity living in the session, and which attributes happen to be loaded after a probe.  The bisimulation is
skipped (and counted) for graphs that depend on those.

Observation, not reported as a violation: ``InstanceState.was_deleted`` is lost by pickling (``_deleted`` is not part of
``__getstate__``), so ``session.add()`` of an unpickled deleted-and-committed object no longer raises.

Mutations caught:
  M1 orm/state.py InstanceState.__getstate__: "modified" no longer carried
  M2 orm/state.py InstanceState.__setstate__: ``self.expired = False`` instead of the pickled flag
  M3 orm/state.py InstanceState.__setstate__: load_path not restored (also crashes a later refresh -> 'crash' signature)
  M4 engine/cursor.py CursorResultMetaData.__getstate__: ambiguous keys (index None) pickled as index 0
  M5 sql/schema.py MetaData.__setstate__: naming_convention reset to the default
  M6 ext/serializer.py Serializer.persistent_id: columns addressed by name instead of key
  M7 orm/strategy_options.py Load.__getstate__: the option's context (strategies per path) dropped
"""
import pickle

ID = "C51"
LEVEL = "model_checking"
META = dict(
    engine="H + I",
    technique="explicit-state BFS over session histories with a pickle round trip of every tracked object at every reached state "
    "(state comparison + one-step bisimulation between the original and the unpickled copy); exhaustive enumeration of a statement / "
    "row / MetaData family through pickle protocols 2-5 and ext.serializer with differential execution",
    design_ref="DESIGN.md §5 C51",
    level_text="The reachable session states up to the depth bound are enumerated exhaustively over the operation alphabet; the "
    "round-trip oracle is applied in every one of them for every tracked object and protocol. Bisimulation compares two replays that "
    "differ only in 'original' vs 'unpickled copy'. Statements, rows, frozen results and MetaData are enumerated over a fixed family.",
    level_note="Trusted: the canonical snapshot in vf.worlds.pickleworld (reads InstanceState attributes that pickling documents to "
    "carry) and the catalog description of MetaData. Lifecycle facts pickling cannot carry by design (session membership, the "
    "'deleted' state) are mapped, not compared. Only SQLite executes.",
    rule="state = canonical (database rows, per tracked object: lifecycle, session membership, graph snapshot); transition = one "
    "operation on a replayed state; every new state gets the full probe set; non-trivial = the pickled graph has expired / modified / "
    "option-loaded / pending members or more than one instance (objects), the statement has bind values, labels or ORM options "
    "(statements), the row carries an ORM entity or duplicate names (rows)",
    assumptions=["mapped classes are importable at module level", "single process: class-level attributes keep their identity across the round trip"],
    bounds=dict(
        quick="objects: histories <= 3 from 2 roots over 27 ops, protocols 2-5, bisimulation with protocol 4 (10 probes at depth <= 2, 3 at depth 3); 43 statements x "
        "protocols; 17 MetaData shapes",
        thorough="objects: histories <= 4, bisimulation with all protocols at depth <= 2, protocol 4 below (10 probes at depth <= 3, 3 at "
        "depth 4); MetaData: all pairs of feature deviations (~110 shapes)",
    ),
)
SHARD_TIMEOUT = dict(quick=900, thorough=3000)
PROTOS = (2, 3, 4, 5)
QUICK_DEEP_PROBES = ("read_rel", "set_flush", "expire_read")


def shards(tier, seed):
    from ..worlds import pickleworld as PW

    out = []
    n = 4 if tier == "quick" else 8
    for i in range(n):
        out.append(("rows", i, n))
    for i in range(n):
        out.append(("metadata", i, n))
    for i in range(n):
        out.append(("serializer", i, n))
    for root in PW.ROOTS:
        out.append(("obj", root, None))
        for op in PW.OPS:
            out.append(("obj", root, op))
    return out


# ------------------------------------------------------------------ part A


def _addr(txt):
    import re

    return re.sub(r" at 0x[0-9a-f]+", "", txt)


def state_key(PW, u):
    from sqlalchemy import inspect

    parts = [repr(u.db())]
    for name in PW.NAMES:
        o = u.objs.get(name)
        if o is None:
            parts.append("-")
            continue
        st = inspect(o)
        member = (o in u.s.new, o in u.s.dirty, o in u.s.deleted, o in u.s)
        snap = PW.snapshot(o, after_pickle=True)
        parts.append(_addr(repr((PW.lifecycle(st), member, snap))))
    parts.append(repr(u.s.in_transaction()))
    return "|".join(parts)


def roundtrip_problems(PW, u, name, proto):
    """state comparison for one object; returns list of (kind, text)"""
    o = u.objs[name]
    before = PW.snapshot(o)
    try:
        blob = pickle.dumps(o, proto)
        o2 = pickle.loads(blob)
    except Exception as e:  # noqa
        return [("pickle-error", "pickling raises %s" % type(e).__name__, repr(e)[:300])], before
    after = PW.snapshot(o2, after_pickle=True)
    d = PW.diff_snapshots(before, after)
    out = []
    if d:
        field = d.split(":")[0].split(".")[-1]
        out.append(("state-" + field, "state differs in %s" % field, d))
    # the original must be untouched by being pickled
    again = PW.snapshot(o)
    d2 = PW.diff_snapshots(before, again)
    if d2:
        out.append(("original-changed", "pickling changed the original object", d2))
    return out, before


def bisim_problems(PW, root, hist, name, proto, probes):
    out = []
    for what in probes:
        ua = PW.build(root, hist)
        ub = PW.build(root, hist)
        try:
            oa = ua.objs[name]
            ob = pickle.loads(pickle.dumps(ub.objs[name], proto))
            ra, rb = PW.attach_original(ua, oa), PW.swap_in_copy(ub, ub.objs[name], ob)
            if ra == "ok" and rb == "ok":
                outa, outb = PW.probe(ua, oa, what), PW.probe(ub, ob, what)
            else:
                outa = outb = None
            try:
                dba, dbb = ua.db(), ub.db()
            except Exception as e:  # noqa
                dba = dbb = "!" + type(e).__name__
            posta, postb = PW.snapshot(oa, after_pickle=True), PW.snapshot(ob, after_pickle=True)
            if ra != rb:
                out.append(("bisim-attach", "session.add(): original %s, unpickled %s" % (ra, rb), what))
            elif outa != outb:
                out.append(("bisim-" + what, "probe %s: original %r, unpickled %r" % (what, outa, outb), what))
            elif isinstance(outa, str) and outa.startswith("!"):
                # the probe failed the same way in both universes; what the failed flush / rollback does to objects that were
                # new in this transaction is session knowledge (not carried by a pickle): nothing more to compare
                pass
            elif dba != dbb:
                out.append(("bisim-db-" + what, "probe %s leaves different rows: original %r, unpickled %r" % (what, dba, dbb), what))
            else:
                # afterwards only what is observable without further SQL: lifecycle and identity of the probed object.  (Which
                # attributes happen to be loaded / marked expired after the probe depends on the loading history of the session,
                # e.g. what an expire cascade or a selectin reload touched -- that is not state a pickle is documented to carry.)
                a1, b1 = posta[0], postb[0]
                if (a1["lifecycle"], a1["key"]) != (b1["lifecycle"], b1["key"]):
                    out.append(("bisim-post-" + what, "after probe %s the object is %s %r, the unpickled one %s %r" % (
                        what, a1["lifecycle"], a1["key"], b1["lifecycle"], b1["key"]), ""))
        finally:
            ua.dispose()
            ub.dispose()
    return out


def bisim_skip_reason(PW, u, o):
    """the one-step bisimulation is only meaningful when everything the session knows about the graph is in its pickle"""
    from sqlalchemy import inspect

    members = PW.graph(o)
    sts = [inspect(x) for x in members]
    if any(PW.lifecycle(t) == "deleted" or t.was_deleted or x in u.s.deleted for x, t in zip(members, sts)):
        # "marked for deletion / was deleted in a session" is session-side knowledge; a pickle does not carry it and the
        # property's list of states (transient, pending, persistent, detached) does not include it
        return "graph_has_deleted_members"
    if any(t.has_identity and t.mapper._is_orphan(t) for t in sts):
        # a persistent orphan is deleted at the next flush through the *parent's* attribute history, which is not part of
        # the orphan's own pickle
        return "graph_has_pending_orphans"
    why = PW.session_side_knowledge(u, members)
    if why:
        return why
    keys = [t.key for t in sts if t.key is not None]
    if len(keys) != len(set(keys)):
        return "two_instances_of_one_identity_in_graph"
    return None


def probe_state(PW, rec, root, hist, u, tier):
    """the full probe set at one reached state"""
    from sqlalchemy import inspect

    for name in PW.NAMES:
        o = u.objs.get(name)
        if o is None:
            continue
        st = inspect(o)
        lc = PW.lifecycle(st)
        snap = None
        for proto in PROTOS:
            problems, snap = roundtrip_problems(PW, u, name, proto)
            rec.count("object_roundtrips")
            for kind, text, detail in problems:
                rec.violation(
                    "object %s (%s): %s" % (type(o).__name__, lc, text), "history %s/%s object %s protocol %d\n%s" % (root, list(hist), name, proto, detail),
                    dict(part="obj", root=root, hist=list(hist), name=name, proto=proto, bisim=False), kind=("obj", type(o).__name__, lc, kind),
                )
        nontrivial = bool(snap) and (len(snap) > 1 or any(r["expired_attributes"] or r["modified"] or r["load_options"] or r["committed_state"] for r in snap))
        rec.case(("obj", root, hist, name), nontrivial=nontrivial)
        rec.outcome(("obj", lc, len(snap or ()), tuple((r["cls"], r["lifecycle"], r["expired_attributes"], r["modified"], bool(r["load_options"])) for r in (snap or ()))))
        if nontrivial and len(hist) >= 2 and len(snap) >= 2 and any(r["expired_attributes"] or r["load_options"] or r["modified"] for r in snap):
            rec.sample(dict(part="object", root=root, history=list(hist), object=name, lifecycle=lc,
                            graph=[dict(cls=r["cls"], lifecycle=r["lifecycle"], expired=list(r["expired_attributes"]), modified=r["modified"],
                                        loader_options=len(r["load_options"])) for r in snap]), limit=1)
        why = bisim_skip_reason(PW, u, o)
        if why:
            rec.count("bisimulation_skipped_" + why)
            continue
        deepest = 3 if tier == "quick" else 4
        probes = PW.PROBES if len(hist) < deepest else QUICK_DEEP_PROBES
        for proto in (PROTOS if (tier != "quick" and len(hist) <= 2) else (4,)):
            for kind, text, detail in bisim_problems(PW, root, hist, name, proto, probes):
                rec.violation(
                    "object %s (%s): %s" % (type(o).__name__, lc, text.split(":")[0] if kind.startswith("bisim-post") else _generic(text)),
                    "history %s/%s object %s protocol %d\n%s\n%s" % (root, list(hist), name, proto, text, detail),
                    dict(part="obj", root=root, hist=list(hist), name=name, proto=proto, bisim=True), kind=("obj", type(o).__name__, lc, kind),
                )
            rec.count("bisimulation_probes", len(probes))


def _generic(text):
    # signature text without the concrete values
    return text.split(":")[0]


def run_obj(shard, tier, rec):
    from .. import core
    from ..engines import hist as H
    from ..worlds import pickleworld as PW

    _, root, first = shard
    depth = 3 if tier == "quick" else 4

    def step(hist_, ms, op):
        u = PW.build(root, hist_)
        try:
            if not u.enabled(op):
                return None
            u.apply(op)
            key = state_key(PW, u)
            new = core.h64(key) not in rec.states
            if new:
                probe_state(PW, rec, root, hist_ + (op,), u, tier)
            return None, key
        finally:
            u.dispose()

    if first is None:
        u = PW.build(root, ())
        try:
            key = state_key(PW, u)
            rec.state(key)
            rec.transition()
            rec.trace()
            probe_state(PW, rec, root, (), u, tier)
        finally:
            u.dispose()
        return
    u = PW.build(root, ())
    try:
        if not u.enabled(first):
            return
        u.apply(first)
        key = state_key(PW, u)
        rec.transition()
        rec.trace()
        probe_state(PW, rec, root, (first,), u, tier)
    finally:
        u.dispose()
    d = H.explore(rec, [((first,), None, key)], lambda ms: PW.OPS, step, depth=depth - 1)
    rec.count("max_depth_reached", 0)
    rec.count("depth_%s_%s" % (root, first), d + 1)


# ------------------------------------------------------------------ part B


def _canon_value(PW, v):
    if hasattr(v, "_sa_instance_state"):
        return ("entity", _addr(repr(PW.snapshot(v))))
    return v


def _canon_row(PW, r):
    return tuple(_canon_value(PW, v) for v in r)


def _execute(PW, e, build, kind):
    """-> (result, closer)"""
    from sqlalchemy.orm import Session

    if kind == "orm":
        s = Session(e)
        return s.execute(build()), s.close, s
    conn = e.connect()
    return conn.execute(build()), lambda: (conn.rollback(), conn.close()), None


def rows_problems(PW, e, name, build, kind):
    import sqlalchemy as sa

    out = []
    res, close, sess = _execute(PW, e, build, kind)
    try:
        if not getattr(res, "returns_rows", True):
            return [], 0, False
        rows = res.unique().all() if kind == "orm" else res.all()
        keys = list(res.keys())
        n = 0
        for proto in PROTOS:
            for r in rows:
                n += 1
                try:
                    r2 = pickle.loads(pickle.dumps(r, proto))
                except Exception as ex:  # noqa
                    out.append(("row-pickle-error", "Row of %s cannot be pickled: %s" % (kind, type(ex).__name__), repr(ex)[:200]))
                    continue
                if _canon_row(PW, r2) != _canon_row(PW, r):
                    out.append(("row-values", "Row values differ after the round trip", "%r -> %r" % (r, r2)))
                if r2._fields != r._fields or list(r2._mapping.keys()) != list(r._mapping.keys()):
                    out.append(("row-keys", "Row keys differ after the round trip", "%r -> %r" % (r._fields, r2._fields)))
                for k in dict.fromkeys(keys):
                    a = _try(lambda: _canon_value(PW, r._mapping[k]))
                    b = _try(lambda: _canon_value(PW, r2._mapping[k]))
                    a2 = _try(lambda: _canon_value(PW, getattr(r, k)))
                    b2 = _try(lambda: _canon_value(PW, getattr(r2, k)))
                    if a != b or a2 != b2:
                        out.append(("row-mapping", "Row key / attribute access differs after the round trip", "key %r: %r/%r -> %r/%r" % (k, a, a2, b, b2)))
                if kind != "orm":
                    if not (r2 == r) or _try(lambda: hash(r2)) != _try(lambda: hash(r)):
                        out.append(("row-eq", "unpickled Row is not equal to / hashes differently from the original", repr(r)))
            try:
                rows2 = pickle.loads(pickle.dumps(rows, proto))
                if [_canon_row(PW, r) for r in rows2] != [_canon_row(PW, r) for r in rows]:
                    out.append(("rows-list", "a pickled list of Rows differs after the round trip", ""))
            except Exception as ex:  # noqa
                out.append(("row-pickle-error", "list of Rows cannot be pickled: %s" % type(ex).__name__, repr(ex)[:200]))
    finally:
        close()
    # frozen results
    for proto in PROTOS:
        res, close, sess = _execute(PW, e, build, kind)
        try:
            fr = (res.unique() if kind == "orm" and False else res).freeze()
            try:
                fr2 = pickle.loads(pickle.dumps(fr, proto))
            except Exception as ex:  # noqa
                out.append(("frozen-pickle-error", "FrozenResult of a %s statement cannot be pickled: %s" % (kind, type(ex).__name__), repr(ex)[:200]))
                continue
            uniq = kind == "orm"
            views = [
                ("all", lambda f: [_canon_row(PW, r) for r in (f().unique() if uniq else f()).all()]),
                ("keys", lambda f: list(f().keys())),
                ("mappings", lambda f: [{k: _canon_value(PW, v) for k, v in m.items()} for m in (f().unique() if uniq else f()).mappings().all()]),
                ("scalars", lambda f: [_canon_value(PW, v) for v in (f().unique() if uniq else f()).scalars().all()]),
                ("columns0", lambda f: [_canon_row(PW, r) for r in (f().unique() if uniq else f()).columns(0).all()]),
                ("fetchmany", lambda f: [_canon_row(PW, r) for r in (f().unique() if uniq else f()).fetchmany(1)]),
                ("one_or_none", lambda f: _canon_value(PW, (f().unique() if uniq else f()).scalars().one_or_none())),
                ("unique", lambda f: [_canon_row(PW, r) for r in f().unique().all()]),
            ]
            for vname, fn in views:
                a, b = _try(lambda: fn(fr)), _try(lambda: fn(fr2))
                if a != b:
                    out.append(("frozen-" + vname, "thawed FrozenResult differs in %s()" % vname, "%r -> %r" % (_s(a), _s(b))))
            if kind == "orm":
                from sqlalchemy.orm import loading

                def merged(f):
                    from sqlalchemy.orm import Session

                    s2 = Session(e)
                    try:
                        return [_canon_row(PW, r) for r in loading.merge_frozen_result(s2, build(), f, load=False)().unique().all()]
                    finally:
                        s2.close()

                a, b = _try(lambda: merged(fr)), _try(lambda: merged(fr2))
                if a != b:
                    out.append(("frozen-merge", "merge_frozen_result differs for the unpickled FrozenResult", "%r -> %r" % (_s(a), _s(b))))
        finally:
            close()
    return out, n, True


def _try(fn):
    try:
        return fn()
    except Exception as e:  # noqa
        return "!" + type(e).__name__


def _s(v):
    s = _addr(repr(v))
    return s if len(s) < 300 else s[:297] + "..."


# ------------------------------------------------------------------ part C


def describe_metadata(md):
    import sqlalchemy as sa

    def dflt(d):
        if d is None:
            return None
        arg = getattr(d, "arg", None)
        return (type(d).__name__, str(arg) if arg is not None else None, getattr(d, "for_update", None))

    out = [("schema", md.schema), ("naming", tuple(sorted((str(k), str(v)) for k, v in md.naming_convention.items())))]
    for key in sorted(md.tables):
        t = md.tables[key]
        cols = []
        for c in t.columns:
            cols.append((
                c.name, repr(c.type), c.nullable, c.primary_key, c.autoincrement, dflt(c.default), dflt(c.onupdate),
                dflt(c.server_default), c.comment, tuple(sorted(c.info.items())), c.index, c.unique,
                str(c.computed.sqltext) if c.computed is not None else None, tuple(sorted(fk.target_fullname for fk in c.foreign_keys)), c.table is t,
            ))
        cons = []
        for con in t.constraints:
            item = [type(con).__name__, str(con.name) if con.name is not None else None, tuple(c.name for c in getattr(con, "columns", ()))]
            if isinstance(con, sa.ForeignKeyConstraint):
                item += [tuple(e.target_fullname for e in con.elements), con.ondelete, con.onupdate, con.use_alter, con.referred_table.key]
            if isinstance(con, sa.CheckConstraint):
                item += [str(con.sqltext)]
            cons.append(tuple(item))
        idx = sorted((str(i.name), tuple(c.name for c in i.columns), bool(i.unique)) for i in t.indexes)
        out.append((key, t.schema, tuple(cols), tuple(sorted(cons, key=repr)), tuple(idx), t.comment, tuple(sorted(t.info.items())), tuple(c.name for c in t.primary_key.columns)))
    out.append(("sorted_tables", tuple(t.key for t in md.sorted_tables)))
    return out


def ddl_of(md):
    from sqlalchemy.dialects import mysql, postgresql, sqlite
    from sqlalchemy.schema import CreateIndex, CreateTable

    out = []
    for dname, d in (("sqlite", sqlite.dialect()), ("postgresql", postgresql.dialect()), ("mysql", mysql.dialect())):
        for t in md.sorted_tables:
            out.append((dname, t.key, _try(lambda: str(CreateTable(t).compile(dialect=d)))))
            for i in sorted(t.indexes, key=lambda i: str(i.name)):
                out.append((dname, str(i.name), _try(lambda: str(CreateIndex(i).compile(dialect=d)))))
    return out


def metadata_problems(name, build):
    import sqlalchemy as sa
    from sqlalchemy.pool import StaticPool

    out = []
    md = build()
    base_desc, base_ddl = describe_metadata(md), ddl_of(md)
    for proto in PROTOS:
        try:
            md2 = pickle.loads(pickle.dumps(md, proto))
        except Exception as ex:  # noqa
            out.append(("md-pickle-error", "MetaData cannot be pickled: %s" % type(ex).__name__, repr(ex)[:300]))
            continue
        d2 = describe_metadata(md2)
        if d2 != base_desc:
            first = next((a, b) for a, b in zip(base_desc, d2) if a != b)
            what = _first_diff(first[0], first[1])
            out.append(("md-catalog", "unpickled MetaData describes a different catalog (%s)" % what[0], what[1]))
        if ddl_of(md2) != base_ddl:
            a, b = next((x, y) for x, y in zip(base_ddl, ddl_of(md2)) if x != y)
            out.append(("md-ddl", "unpickled MetaData renders different DDL for %s" % a[0], "%s\n---\n%s" % (a[2], b[2])))
        if describe_metadata(md) != base_desc:
            out.append(("md-original-changed", "pickling changed the original MetaData", ""))
        # second generation
        try:
            md3 = pickle.loads(pickle.dumps(md2, proto))
            if describe_metadata(md3) != base_desc:
                out.append(("md-second-generation", "a second round trip changes the catalog", ""))
        except Exception as ex:  # noqa
            out.append(("md-pickle-error", "unpickled MetaData cannot be pickled again: %s" % type(ex).__name__, repr(ex)[:300]))
        # execution on SQLite (no schema there)
        if md.schema is None:
            res = []
            for m in (build(), md2):
                e = sa.create_engine("sqlite://", poolclass=StaticPool)
                try:
                    r = _try(lambda: m.create_all(e))
                    with e.connect() as conn:
                        master = _try(lambda: sorted((row[0] or "") for row in conn.exec_driver_sql("select sql from sqlite_master")))
                        ta = m.tables["ta"]
                        vals = {c.name: (1 if isinstance(c.type, sa.Integer) else "k") for c in ta.primary_key.columns}
                        if "defaults" not in name and "server_default" not in name and "all" != name:
                            vals["x"] = 3
                        ins = _try(lambda: conn.execute(ta.insert().values(**vals)).rowcount)
                        back = _try(lambda: [tuple(row) for row in conn.execute(sa.select(ta.c.id, ta.c.x, ta.c.y))])
                        upd = _try(lambda: conn.execute(ta.update().values(x=ta.c.x + 1)).rowcount)
                        back2 = _try(lambda: [tuple(row) for row in conn.execute(sa.select(ta.c.id, ta.c.x, ta.c.y))])
                    res.append((r, master, ins, back, upd, back2))
                finally:
                    e.dispose()
            if res[0] != res[1]:
                out.append(("md-execute", "create_all / insert / update through the unpickled MetaData behave differently", "%r\n---\n%r" % res))
        # the unpickled MetaData stays usable: a new table can refer to an old one
        def extend(m):
            sch = (m.schema + ".") if m.schema else ""
            td = sa.Table("td", m, sa.Column("id", sa.Integer, primary_key=True), sa.Column("a_id", sa.ForeignKey(sch + "ta.id")))
            ta = m.tables[(m.schema + ".ta") if m.schema else "ta"]
            return (td.c.a_id.references(ta.c.id), [t.key for t in m.sorted_tables], str(td.join(ta).onclause) if not len(ta.primary_key.columns) > 1 else "composite")

        a, b = _try(lambda: extend(build())), _try(lambda: extend(md2))
        if a != b:
            out.append(("md-extend", "adding a table that refers to an unpickled table behaves differently", "%r -> %r" % (a, b)))
    return out


def _first_diff(a, b):
    """locate the differing field of two table descriptions"""
    if not isinstance(a, tuple) or not isinstance(b, tuple) or len(a) != len(b):
        return ("table set / attribute", "%r -> %r" % (_s(a), _s(b)))
    if a and a[0] in ("schema", "naming", "sorted_tables") and len(a) == 2:
        return (a[0], "%r -> %r" % (_s(a[1]), _s(b[1])))
    names = ("key", "schema", "columns", "constraints", "indexes", "comment", "info", "primary key")
    for i, (x, y) in enumerate(zip(a, b)):
        if x != y:
            label = names[i] if i < len(names) else "field %d" % i
            if label == "columns" and len(x) == len(y):
                cx, cy = next((p, q) for p, q in zip(x, y) if p != q)
                fields = ("name", "type", "nullable", "primary_key", "autoincrement", "default", "onupdate", "server_default", "comment", "info", "index",
                          "unique", "computed", "foreign_keys", "table")
                j = next(k for k, (p, q) in enumerate(zip(cx, cy)) if p != q)
                return ("column." + fields[j], "%s.%s: %r -> %r" % (a[0], cx[0], cx[j], cy[j]))
            return (label, "%s: %r -> %r" % (a[0], _s(x), _s(y)))
    return ("?", "")


# ------------------------------------------------------------------ part D


def serializer_problems(PW, e, name, build, kind, proto):
    import sqlalchemy as sa
    from sqlalchemy.dialects import sqlite
    from sqlalchemy.ext import serializer
    from sqlalchemy.orm import Session

    out = []
    stmt = build()
    md = PW.Base.metadata if kind == "orm" else PW.core_md
    try:
        blob = serializer.dumps(stmt, proto)
        s2 = serializer.loads(blob, md)
    except Exception as ex:  # noqa
        return [("ser-error", "ext.serializer round trip of a %s statement raises %s" % (kind, type(ex).__name__), repr(ex)[:300])]
    d = sqlite.dialect()

    def comp(s):
        c = s.compile(dialect=d)
        return (str(c), sorted((k, repr(v)) for k, v in c.params.items()))

    a, b = _try(lambda: comp(build())), _try(lambda: comp(s2))
    if a != b:
        out.append(("ser-compile", "deserialized %s statement compiles differently" % kind, "%r\n---\n%r" % (a, b)))

    def run(s):
        if kind == "orm":
            sess = Session(e)
            try:
                return [_canon_row(PW, r) for r in sess.execute(s).unique().all()]
            finally:
                sess.close()
        conn = e.connect()
        try:
            r = conn.execute(s)
            rows = [tuple(x) for x in r.all()] if r.returns_rows else r.rowcount
            after = [tuple(x) for x in conn.execute(sa.select(PW.T2).order_by(PW.T2.c.id))]
            return (rows, after)
        finally:
            conn.rollback()
            conn.close()

    a, b = _try(lambda: run(build())), _try(lambda: run(s2))
    if a != b:
        out.append(("ser-execute", "deserialized %s statement executes to different results" % kind, "%r\n---\n%r" % (_s(a), _s(b))))
    # second generation
    try:
        s3 = serializer.loads(serializer.dumps(s2, proto), md)
        if _try(lambda: comp(s3)) != _try(lambda: comp(build())):
            out.append(("ser-second-generation", "a second serializer round trip changes the %s statement" % kind, ""))
    except Exception as ex:  # noqa
        out.append(("ser-error", "deserialized %s statement cannot be serialized again: %s" % (kind, type(ex).__name__), repr(ex)[:300]))
    return out


# ------------------------------------------------------------------ driver


def run_shard(shard, tier, rec):
    import warnings

    import sqlalchemy as sa

    from ..worlds import pickleworld as PW

    # misuse histories (objects expunged while still referenced ...) make the session warn; outcomes are compared, not warnings
    warnings.simplefilter("ignore", sa.exc.SAWarning)
    shard = tuple(shard)
    part = shard[0]
    if part == "obj":
        run_obj(shard, tier, rec)
        return
    _, idx, n = shard
    if part == "rows":
        e = PW.core_engine()
        try:
            for k, (name, build, kind) in enumerate(PW.statements()):
                if k % n != idx:
                    continue
                problems, nrows, returns = rows_problems(PW, e, name, build, kind)
                rec.transition()
                rec.trace()
                rec.case(("rows", name), nontrivial=kind == "orm" or name in ("dupnames", "labels", "typed", "textcols", "text_dup", "nolabel_dup"))
                rec.count("row_roundtrips", nrows)
                rec.outcome(("rows", name, nrows, len(problems)))
                rec.state(("rows", name))
                if returns and kind == "orm":
                    rec.sample(dict(part="rows+frozen result", statement=name, kind=kind, row_roundtrips=nrows), limit=1)
                for pk, text, detail in problems:
                    rec.violation("%s [%s statement]" % (text, kind), "statement %s\n%s" % (name, detail), dict(part="rows", name=name), kind=("rows", kind, pk))
        finally:
            e.dispose()
    elif part == "metadata":
        for k, (name, build) in enumerate(PW.metadata_family(tier)):
            if k % n != idx:
                continue
            problems = metadata_problems(name, build)
            rec.transition()
            rec.trace()
            rec.case(("metadata", name), nontrivial=name != "base")
            rec.state(("metadata", name))
            rec.outcome(("metadata", name, len(problems)))
            for pk, text, detail in problems:
                rec.violation("MetaData: %s" % text, "shape %s\n%s" % (name, detail), dict(part="metadata", name=name), kind=("md", pk, text))
    elif part == "serializer":
        e = PW.core_engine()
        try:
            for k, (name, build, kind) in enumerate(PW.statements()):
                if k % n != idx:
                    continue
                for proto in PROTOS:
                    problems = serializer_problems(PW, e, name, build, kind, proto)
                    rec.transition()
                    rec.trace()
                    rec.case(("serializer", name, proto), nontrivial=name not in ("cols", "star"))
                    rec.state(("serializer", name))
                    rec.outcome(("serializer", name, len(problems)))
                    for pk, text, detail in problems:
                        rec.violation("serializer: %s" % text, "statement %s protocol %d\n%s" % (name, proto, detail), dict(part="serializer", name=name, proto=proto),
                                      kind=("ser", kind, pk))
        finally:
            e.dispose()


def replay(case):
    from .. import core
    from ..worlds import pickleworld as PW

    rec = core.Rec(ID)
    part = case["part"]
    try:
        if part == "obj":
            root, hist, name, proto = case["root"], tuple(case["hist"]), case["name"], case["proto"]
            u = PW.build(root, hist)
            try:
                from sqlalchemy import inspect

                o = u.objs[name]
                lc = PW.lifecycle(inspect(o))
                if case.get("bisim"):
                    if bisim_skip_reason(PW, u, o):
                        return []
                    res = bisim_problems(PW, root, hist, name, proto, PW.PROBES)
                    return [("object %s (%s): %s" % (type(o).__name__, lc, _generic(t)), "%s\n%s" % (t, d)) for k, t, d in res]
                problems, _ = roundtrip_problems(PW, u, name, proto)
                return [("object %s (%s): %s" % (type(o).__name__, lc, t), d) for k, t, d in problems]
            finally:
                u.dispose()
        if part == "rows":
            e = PW.core_engine()
            try:
                for name, build, kind in PW.statements():
                    if name == case["name"]:
                        problems, _, _ = rows_problems(PW, e, name, build, kind)
                        return [("%s [%s statement]" % (t, kind), d) for k, t, d in problems]
            finally:
                e.dispose()
        if part == "metadata":
            for name, build in PW.metadata_family("thorough"):
                if name == case["name"]:
                    return [("MetaData: %s" % t, d) for k, t, d in metadata_problems(name, build)]
        if part == "serializer":
            e = PW.core_engine()
            try:
                for name, build, kind in PW.statements():
                    if name == case["name"]:
                        return [("serializer: %s" % t, d) for k, t, d in serializer_problems(PW, e, name, build, kind, case.get("proto", 4))]
            finally:
                e.dispose()
    except core.StopShard:
        pass
    return []
