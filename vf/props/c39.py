"""C39 cascades follow their configured rules (engine H).

Every valid subset of {save-update, merge, expunge, delete, delete-orphan (needs delete), refresh-expire} -- 48
combinations -- is configured on the one-to-many relationship of U1 (Parent.children) and of the self-referential
U3 (Node.children), and the 32 combinations without delete-orphan on the many-to-many U2 (Item.tags).  For each
configuration the bounded history explorer runs add / append / remove / re-parent / replace / delete / expunge /
merge / flush / commit in lock-step with the reference model ``sessref2``, whose cascade rules are plain
reachability over the configured edges:

* membership after ``add`` and after attaching an object to an in-session parent = closure over save-update edges;
* ``delete(x)`` deletes exactly the closure over delete edges (rows compared through raw SQL after the flush);
  children on an edge without delete cascade are kept and de-associated;
* an object removed from a delete-orphan relationship is deleted by the flush unless it was re-associated; a pending one
  leaves the session;
* ``expunge`` / ``merge`` reach exactly the closure over their edges;
* ``expire(x)`` / ``refresh(x)`` (probes at the shallow states): exactly the closure over refresh-expire edges is
  expired (everything is loaded first, so "expired" is observable as ``inspect(o).expired``);
* raw-SQL invariant after every flush, independent of the model: no row that had a delete-orphan parent before the
  flush is still there without a parent afterwards.

Catalogued defects (stable signatures, the explorer then adopts the library's behaviour and goes on):
f1, f2, f3, f6 of ``ormworld2.KNOWN_QUIRKS``.

Mutations caught (VF_REPO=/tmp/wt-orm2):
  * unitofwork._track_cascade_events.append: save-update cascade on append only for objects that already have an identity -> "object states after append"
  * Session.expunge: cascade skips pending objects -> "object states after expunge"
  * Session._expire_state / refresh: refresh-expire cascade drops the first member -> "expire(p1) expired [...], configured closure [...]"
  * Session._flush: pending orphan expunged even when it was not orphaned outside a session -> states / rows / duplicate key
  * RelationshipProperty.merge: merge follows a relationship that has 'expunge' but not 'merge' -> op raised / rows / states
  * Session._delete_impl: delete cascade marks only the first related object -> "flush raised IntegrityError", rows differ
  Not caught: weakening the last_parent guard of attributes.sethasparent -- it only matters for collections loaded stale while
  autoflush is off, which the replicas avoid by design (see Run._apply).
"""
import itertools

from sqlalchemy import inspect as sa_inspect

from ..engines import hist
from ..worlds import ormworld2 as ow
from . import c30

ID = "C39"
LEVEL = "model_checking"
META = dict(
    engine="H",
    technique="explicit-state BFS over operation histories for every cascade configuration, reference model (plain reachability) in lock-step",
    design_ref="DESIGN.md §5 C39",
    level_text="All 48 (U1, U3) / 32 (U2) cascade combinations x all histories up to the bound from an empty and a populated "
    "committed root, each transition executed on the real Session on a fresh database and compared with the reachability "
    "model: session membership after every operation, rows after every flush, graph after every commit, expiry sets for the "
    "refresh-expire probes, plus a model-independent raw-SQL orphan invariant.",
    level_note="Trusted: sessref2 (the cascade rules are ~40 lines of reachability), the replayer, raw readers. The cascade of the "
    "many-to-one side stays at its default. Cascades of kind expunge / refresh-expire only follow loaded relationships in the "
    "library; the harness loads the graph first (autoflush replicas) so that the configured graph is what is compared. Expire / refresh probes are skipped at states with a flushed but uncommitted delete (the in-memory collections still hold the deleted object there).",
    rule="state = (implementation canon, model canon); transition = one operation applied on a replayed replica in lock-step; "
    "non-trivial = the operation's cascade closure contains more than the object itself or an orphan rule fired",
    assumptions=["SQLite", "single session", "cascade on the reverse many-to-one side is the default"],
    bounds=dict(
        quick="U1: all 48 configurations, U3: 26, U2: 10; histories <= 2 ops after 2-3 roots (empty, populated+committed, pending graph), autoflush on (+ off for the common cascades); expire/refresh probes at every clean state",
        thorough="U1 / U3: all 48, U2: all 32 configurations; histories <= 2 ops after 3 roots, autoflush on and off; <= 3 ops for 4 U1 configurations after the populated root",
    ),
)
SHARD_TIMEOUT = dict(quick=600, thorough=3000)

OPTS = ("save-update", "merge", "expunge", "delete", "refresh-expire")
KINDS = ("add", "rel", "delete", "expunge", "merge", "flush", "commit")


DEEP = ("save-update, delete, delete-orphan",)


def cascade_strings(orphan=True):
    out = []
    for r in range(len(OPTS) + 1):
        for sub in itertools.combinations(OPTS, r):
            s = ", ".join(sub) if sub else "none"
            out.append(s)
            if orphan and "delete" in sub:
                out.append(s + ", delete-orphan")
    return out


def shards(tier, seed):
    out = []
    presets = {c30.SU, c30.ALL, c30.ORPH}
    for wn, orphan in (("U1", True), ("U3", True), ("U2", False)):
        for ci, cs in enumerate(cascade_strings(orphan)):
            if tier == "quick" and wn == "U3" and ci % 2 == 1 and cs not in presets:
                continue  # quick: every configuration on U1, every second one on U3, every fourth on U2 (all of them in thorough)
            if tier == "quick" and wn == "U2" and ci % 4 != 0 and cs not in presets:
                continue
            common = cs in presets or cs == "save-update, delete, delete-orphan"
            if wn == "U1":
                roots = ((0, 1, 4) if common else (0, 1)) if tier == "quick" else (0, 1, 2, 4)
            else:
                roots = (0, 2 if wn == "U3" else 1) if tier == "quick" else (0, 1, 2)
            for ri in roots:
                for af in (True, False):
                    if tier == "quick" and not af and not (ri == 1 and (cs in presets or cs == "save-update, delete, delete-orphan")):
                        continue  # quick: loaded-collection (autoflush off) replicas for the common cascades only
                    deep = tier != "quick" and wn == "U1" and ri == 1 and af and (cs in presets or cs in DEEP)
                    probes = bool((common and wn == "U1") or tier != "quick")
                    nparts = 8 if deep else (4 if (probes and ri == 1) else 1)
                    for part in range(nparts):
                        out.append(dict(world=(wn, cs), root=ri, autoflush=af, depth=3 if deep else 2, probes=probes, part=part, nparts=nparts))
    return out


def canon_sig(tag):
    return "cascade defect %s: %s" % (tag, ow.KNOWN_QUIRKS[tag])


def orphan_invariant(w, before, after):
    """raw rows only: a row that had a delete-orphan parent before the flush and is still there afterwards must have a
    parent"""
    bad = []
    for l in w.spec.links:
        if "delete-orphan" not in l.c_o2m:
            continue
        cols = [c for t, cs, q in w.readers if t == l.table for c in cs]
        i_pk, i_fk = 0, cols.index(l.fk)
        had = {r[i_pk]: r[i_fk] for r in before.get(l.table, []) if r[i_fk] is not None}
        for r in after.get(l.table, []):
            if r[i_pk] in had and r[i_fk] is None:
                bad.append("%s row %r had parent %r, now has none and still exists" % (l.table, r[i_pk], had[r[i_pk]]))
    return bad


def step_checked(rec, w, shard, hist_, ms, op):
    runs = []
    before = None
    flushy = op[0] in ("flush", "commit")
    post, key, problems = ow.lockstep(w, hist_, ms, op, autoflush=shard["autoflush"], run_out=runs, before_rows=flushy)
    run = runs[0] if runs else None
    wk = repr(shard["world"])
    try:
        closure = 0
        if op[0] in ("add", "delete", "expunge"):
            closure = len(ms.closure(op[1], {"add": "save-update", "delete": "delete", "expunge": "expunge"}[op[0]]))
        rec.case((wk, hist_, op), nontrivial=post is not None and (closure > 1 or (flushy and bool(ms.deparented)) or op[0] == "merge"))
        case = dict(shard=shard, history=[list(o) for o in hist_], op=list(op))
        for kind, sig, detail in problems:
            if kind.startswith("note:"):
                rec.count(kind[5:])
                continue
            if kind.startswith("known:"):
                tag = kind[6:]
                if tag in ("f1", "f2", "f3", "f6"):
                    rec.violation(canon_sig(tag), "%s af=%s: %s | after %s" % (wk, shard["autoflush"], detail, ow.fmt_hist(hist_ + (op,))), case)
                else:
                    rec.count("adopted_" + tag)
                continue
            rec.violation("%s af=%s: %s | after %s" % (wk, shard["autoflush"], sig, ow.fmt_hist(hist_ + (op,))), detail, case, kind=(wk, kind))
        if flushy and run is not None and getattr(run, "rows_before", None) is not None and getattr(run, "rows_after", None) is not None:
            bad = orphan_invariant(w, run.rows_before, run.rows_after)
            if bad:
                tagged = any(k.startswith("known:f1") for k, _, _ in problems)
                if not tagged:
                    rec.violation("%s af=%s: orphan row remains after %s | after %s" % (wk, shard["autoflush"], op[0], ow.fmt_hist(hist_ + (op,))), "; ".join(bad), case, kind=(wk, "orphan-row"))
        if post is None:
            rec.outcome(("stop", op[0]))
            return None
        rec.outcome((op[0], tuple(sorted((n, o.life) for n, o in post.objs.items()))))
        if closure > 2 or (flushy and ms.deparented and any(o.life == "X" for o in post.objs.values())):
            rec.sample(dict(world=wk, history=ow.fmt_hist(hist_ + (op,)), states={n: o.life for n, o in sorted(post.objs.items())},
                            rows=post.rows_as_lists() if flushy else None), limit=3)
        return post, key
    finally:
        if run is not None:
            run.close()


def expire_probes(rec, w, shard, hist_, ms):
    """at a reached *clean* state (nothing pending, so loading the graph neither flushes nor shows stale rows): for
    every persistent named object x, expire(x) and refresh(x) on fresh replicas with everything loaded; the set of
    objects that become expired must be the closure over refresh-expire edges"""
    if ms.dirty or any(o.life == "P" or o.marked for o in ms.objs.values()) or any(o.life == "D" and o.dbpk is not None for o in ms.objs.values()):
        return
    last_commit = max([i for i, o in enumerate(hist_) if o[0] == "commit"], default=-1)
    if any(o[0] == "delete" for o in hist_[last_commit + 1:]):
        # an object deleted by a flush stays in loaded in-memory collections until the commit expires them, and the
        # library's expire / refresh cascade walks those (stale) collections; the model's graph has already dropped the
        # object.  The property does not say which of the two graphs counts, so these states are not probed.
        return
    wk = repr(shard["world"])
    targets = [n for n, o in sorted(ms.objs.items()) if o.life == "S" and not n.startswith("~")]
    for x in targets:
        want = set(ms.closure(x, "refresh-expire", lives="S"))
        for kind in ("expire", "refresh"):
            run = ow.Run(w, autoflush=shard["autoflush"])
            try:
                ok = True
                for h in hist_:
                    if run.apply(h)[0] == "exc":
                        ok = False
                        break
                if not ok:
                    continue
                for n in sorted(run.objs):
                    if run.objs[n] in run.session:
                        run.touch(run.objs[n])
                        for a in w.spec.cls[type(run.objs[n]).__name__].cols:
                            getattr(run.objs[n], a)
                pre = {n for n in run.objs if sa_inspect(run.objs[n]).expired}
                out = run.apply((kind, x))
                rec.transition()
                rec.trace()
                case = dict(shard=shard, history=[list(o) for o in hist_], op=[kind, x], probe=True)
                if out[0] == "exc":
                    rec.violation("%s: %s(%s) raised %s | after %s" % (wk, kind, x, type(out[1]).__name__, ow.fmt_hist(hist_)), repr(out[1]), case, kind=(wk, kind, "raised"))
                    continue
                got = {n for n in run.objs if n in ms.objs and ms.objs[n].life == "S" and sa_inspect(run.objs[n]).expired} - pre
                exp = {n for n in want if ms.objs[n].life == "S"}
                if kind == "refresh":
                    exp.discard(x)
                    got.discard(x)
                rec.case((wk, hist_, kind, x), nontrivial=len(want) > 1)
                rec.outcome((kind, len(got)))
                if got != exp:
                    rec.violation("%s: %s(%s) expired %s, configured closure %s | after %s" % (wk, kind, x, sorted(got), sorted(exp), ow.fmt_hist(hist_)), "", case, kind=(wk, kind, "closure"))
            finally:
                run.close()


def run_shard(shard, tier, rec):
    w = ow.world(shard["world"])
    af = shard["autoflush"]
    names = [n for n, _, _ in w.universe]
    root = tuple(c30.ROOTS[shard["world"][0]][shard["root"]])
    m0 = ow.model_for(w)
    h = ()
    for op in root:
        r = step_checked(rec, w, shard, h, m0, op)
        if r is None:
            return
        m0 = r[0]
        h = h + (op,)
    presets = (c30.SU, c30.ALL, c30.ORPH)
    depth = shard["depth"]
    if shard["world"][0] == "U3":
        names = names[:3]  # three nodes are enough to have grandchildren; keeps 48 configurations affordable
    probed = set()

    def enabled(ms):
        return ow.ref.enabled_ops(ms, names, kinds=KINDS, af=af)

    def step(hist_, ms, op):
        r = step_checked(rec, w, shard, hist_, ms, op)
        if r is not None and op[0] in ("flush", "commit"):
            if ("probe", r[0].canon()) not in probed:
                probed.add(("probe", r[0].canon()))
                expire_probes(rec, w, shard, hist_ + (op,), r[0])
        return r

    expire_probes(rec, w, shard, h, m0)
    # (quick: the closing flush + commit after every 2-operation history for the common cascades only; the other
    # configurations see flush / commit as ordinary operations of the alphabet)
    ow.explore_with_probes(rec, (h, m0, ("root", repr(shard))), enabled, step, depth, probes=(("flush",), ("commit",)) if shard.get("probes", True) else (),
                           part=shard.get("part", 0), nparts=shard.get("nparts", 1))


def _tup(x):
    return tuple(_tup(i) for i in x) if isinstance(x, list) else x


def replay(case):
    from ..core import Rec

    shard = case["shard"]
    shard["world"] = _tup(shard["world"])
    w = ow.world(shard["world"])
    hist_ = tuple(_tup(o) for o in case["history"])
    op = _tup(case["op"])
    rec = Rec(ID)
    ms = ow.model_along(w, hist_, shard["autoflush"])
    if case.get("probe"):
        expire_probes(rec, w, shard, hist_, ms)
    else:
        step_checked(rec, w, shard, hist_, ms, op)
    return [(v["sig"], v["detail"]) for v in rec.violations]
