"""C33 Session commit / rollback / savepoints keep the session consistent with the database (engine H).

Every history over begin_nested (depth <= 2), savepoint rollback / release,
commit, rollback, flush, close, add, attribute modification, delete and
primary-key switch is replayed on a fresh Session / fresh SQLite file with
the reference model ``SessRef`` (vf/models/sessref1.py: nested-transaction
row scopes + documented object rules) in lock-step.

After each commit or rollback (outer or savepoint), for every tracked object:

 (1) lifecycle state and membership (``obj in session``, Session.new,
     Session.dirty, Session.deleted) equal the model;
 (2) a persistent object's identity key names a row of the surviving scope
     (read with raw SQL on the session's own connection); every column
     attribute that is *loaded* (present in ``__dict__``) equals that row, and
     every attribute, when accessed, loads that row's value;
 (3) the rows the session's transaction sees equal the model's surviving
     scope, and the committed rows seen by an independent observer connection
     equal the model's committed data (nested-transaction reference model).

After every other operation (3) is still evaluated; a difference there is a
flush-content matter (C30) and only cuts the branch.

Defects this check found on the original tree (fixed in /repo by 56b31db,
b96aaaf, 21e8961, 7fe5e03): (a) a primary key switched in the outer
transaction and switched again inside a savepoint that was then released: the
release overwrote the outer transaction's record of the *original* key
(`_remove_snapshot`: `parent._key_switches.update(self._key_switches)`), so an
outer rollback restored the wrong identity key and the object could no longer
be loaded; (b) with expire_on_commit=False a flushed-deleted object stayed in
the "deleted" state after commit; (c) close() left flushed-deleted objects in
the "deleted" state; (d) the stale ``_deleted`` flag of C35.

Every world also runs with Session(autoflush=False) (one level shallower) and
offers ``begin_nested()`` inside ``with session.no_autoflush:``; the model rule
is unchanged (begin_nested flushes, then pushes a scope) and the rows visible
after begin_nested are compared with the model as for commit / rollback.

Mutations caught (private copy, `VF_REPO=/tmp/wt-orm1 ./check C33`):
 * session.py `_take_snapshot`: `self.session.flush()` replaced by
   `self.session._autoflush()` -> "begin_nested: rows of the surviving scope
   differ from the nested-transaction model"
 * session.py `_restore_snapshot`: `s.key = oldkey` dropped (`_key_switches`
   not restored) -> "keeps an identity key that is not its row's key"
 * session.py `_remove_snapshot`: `parent._new.update(self._new)` dropped ->
   "rollback: object persistent+inserted-in-open-tx -> persistent, documented: transient"
 * session.py `_restore_snapshot`: `s.modified` dropped from the dirty_only
   expiry condition -> "rollback: ... session membership dirty (True, False)"
 * session.py `_remove_snapshot`: `parent._dirty.update(self._dirty)` dropped
   -> "rollback: object persistent keeps loaded attribute values that differ
   from the surviving scope's row"
 * session.py `_register_persistent`: original key of a repeated switch not
   kept (`orig_key = state.key` always) -> "keeps an identity key that is not
   its row's key"
"""
from __future__ import annotations

import gc

from sqlalchemy import inspect

from ..models import sessref1 as M
from ..worlds import ormworld1 as W

ID = "C33"
LEVEL = "model_checking"
META = dict(
    engine="H",
    technique="explicit-state BFS over Session transaction histories by replay on the real Session, nested-transaction "
    "reference model in lock-step, canonical-state dedupe",
    design_ref="DESIGN.md §5 C33",
    level_text="All histories up to the stated depth over begin_nested (<=2 levels) / savepoint rollback / savepoint "
    "release / commit / rollback / flush / close / add / set / delete / primary-key switch on a new object plus an "
    "object loaded from a pre-existing row, with expire_on_commit on and off, in a plain world and a natural-primary-key "
    "world. After each commit or rollback the objects' state, membership, loaded and freshly loaded attribute values "
    "and identity keys are compared with the rows of the surviving transaction scope and with the model; committed "
    "data is read through an independent connection.",
    level_note="Trusted: sessref1 (row scopes + documented object rules) and the deep canonical state used for dedupe. "
    "expunge / make_transient / merge are not part of this property's alphabet (C35 covers them). Histories in which a "
    "flush fails are checked up to the failure and not continued (C32). Re-attaching a detached object is enabled only "
    "while its row exists.",
    rule="state = model state + deep canonical form of the real Session; transition = one op on a replayed history, executed "
    "on implementation and model; non-trivial = a commit/rollback-class op that ran with >= 1 object in the session",
    assumptions=["single Session, single thread, SQLite file database with autocommit=False (real SAVEPOINTs)", "Session(autoflush=True) and Session(autoflush=False); begin_nested() also issued inside a no_autoflush block"],
    bounds=dict(
        quick="plain world depth <= 6, natural-key world depth <= 5 (beyond the initial load) x expire_on_commit {True,False}, savepoint depth <= 2; autoflush=False worlds one level shallower",
        thorough="plain world depth <= 7, natural-key world depth <= 6; autoflush=False worlds one level shallower",
    ),
)

T, PE, P, D, DT = M.T, M.PE, M.P, M.D, M.DT
WORLDS = dict(
    plain=dict(
        universe=[("x", "Plain", {"id": 1, "name": "a"})],
        seed={"plain": [(2, "t")]},
        tables=("plain",),
        record_events=False,
        prefix=(("get", "Plain", 2),),
    ),
    natural=dict(
        universe=[("n", "NNode", {"code": "k3", "val": "a"})],
        seed={"nnode": [("k1", "t")]},
        tables=("nnode",),
        record_events=False,
        prefix=(("get", "NNode", "k1"),),
    ),
)
DEPTH = dict(quick=dict(plain=6, natural=5), thorough=dict(plain=7, natural=6))
CHECK_OPS = ("commit", "rollback", "sp_rollback", "sp_commit")
STATE_OPS = CHECK_OPS + ("close",)  # close() releases (rolls back) the transaction: states / membership are checked too
ROLLBACK_OPS = ("rollback", "sp_rollback")


def make_cfg(world, eoc, autoflush=True):
    cfg = dict(WORLDS[world])
    cfg["world"] = world
    cfg["eoc"] = eoc
    cfg["autoflush"] = autoflush
    return cfg


def enabled(ms, world):
    ops = []
    names = [n for n in ms.order if ms.objs[n].held]
    for n in names:
        o = ms.objs[n]
        if o.state == T:
            ops.append(("add", n, tuple(sorted(o.vals.items()))))
        elif o.state == DT:
            # the application re-attaches a detached object only while its row exists
            # and still has the values the object carries
            row = ms.view().get(M.TABLE_OF[o.cls], {}).get(o.key)
            if not o.wasdel and row is not None and all(o.vals.get(c) == v for c, v in row.items()):
                ops.append(("add", n, None))
        else:
            ops.append(("add", n, None))
    for n in names:
        o = ms.objs[n]
        attr = "name" if o.cls == "Plain" else "val"
        ops.append(("set", n, attr, "b" if o.vals.get(attr) != "b" else "c"))
    if world == "natural" and "b1" in ms.objs and ms.objs["b1"].held and ms.objs["b1"].state == P:
        o = ms.objs["b1"]
        ops.append(("set_nf", "b1", "code", "k2" if o.vals.get("code") != "k2" else "k1"))
    for n in names:
        o = ms.objs[n]
        if not (o.state == D or (o.state == DT and o.wasdel)):
            row = ms.view().get(M.TABLE_OF[o.cls], {}).get(o.key)
            if o.state != DT or (row is not None and all(o.vals.get(c) == v for c, v in row.items())):
                ops.append(("delete", n))  # (a detached object is re-attached by delete(): same precondition as add())
    ops += [("flush",), ("commit",), ("rollback",)]
    if ms.nsp < 2:
        ops.append(("begin_nested",))
        ops.append(("begin_nested_nf",))  # the same inside ``with session.no_autoflush:``
    if ms.nsp > 0:
        ops += [("sp_rollback",), ("sp_commit",)]
    ops.append(("close",))
    return ops


def build(cfg, history):
    w = W.World(cfg)
    for op in tuple(cfg["prefix"]) + tuple(history):
        w.apply(tuple(op))
    return w


def model_for(cfg):
    ms = M.SessRef(cfg)
    for op in cfg["prefix"]:
        ms.apply(op)
    return ms


def describe(ms, name, op, keyinfo=False):
    o = ms.objs[name]
    s = o.state
    if o.marked:
        s += "+marked-for-delete"
    if op[0] in ROLLBACK_OPS and any(name in sc.new for sc in ms.tx):
        s += "+inserted-in-open-tx"
    if keyinfo and any(name in sc.switch for sc in ms.tx):
        s += "+key-switched-in-open-tx"
    if o.wasdel and o.state != D:
        s += "+was_deleted"
    return s


def rows_as_tuples(rows):
    return {t: tuple(tuple(r[c] for c in W.TABLE_COLS[t]) for _, r in sorted(tr.items())) for t, tr in rows.items() if tr}


def check_step(cfg, hist_, ms, op):
    w = build(cfg, hist_)
    try:
        m2 = ms.copy()
        pr = m2.apply(op)
        info = {}
        if pr.undefined:
            return [], m2, pr, None, info, False
        pre_wasdel = {n: bool(inspect(o).was_deleted) for n, o in w.objs.items()}
        out = w.apply(op)
        eoc = cfg["eoc"]
        kind = op[0]
        head = "commit(eoc=%s)" % eoc if kind == "commit" else ("rollback" if kind in ROLLBACK_OPS else ("begin_nested" if kind == "begin_nested_nf" else kind))
        problems = []
        info.update(outcome=out.short(), lifecycle=w.lifecycle())
        if not out.ok and not out.is_sa_error:
            problems.append(("%s: raised %s (not a SQLAlchemy error)" % (head, out.exc_name), out.short()))
        elif pr.outcome == "ok" and not out.ok:
            problems.append(("%s: raised %s, documented: succeeds" % (head, out.exc_name), out.short()))
        elif pr.outcome in ("error", "flushfail") and out.ok:
            problems.append(("%s: succeeded, model: raises (%s)" % (head, pr.outcome), ""))
        cut = False
        canon = None
        if not problems and pr.outcome == "ok":
            sv = dict(w.session_rows())
            cv = dict(w.committed_rows())
            mv = rows_as_tuples(m2.view())
            mc = rows_as_tuples(m2.committed)
            info.update(session_rows=sv, committed_rows=cv)
            canon = W.deep_canon(w)  # before the attribute accesses below
            if kind in CHECK_OPS or kind in ("begin_nested", "begin_nested_nf"):
                # (begin_nested() is documented to flush before it emits SAVEPOINT: what it
                # leaves unflushed would wrongly become savepoint work)
                if sv != mv:
                    problems.append(("%s: rows of the surviving scope differ from the nested-transaction model" % head, "session sees %r, model %r" % (sv, mv)))
                if cv != mc:
                    problems.append(("%s: committed rows (observer connection) differ from the nested-transaction model" % head, "observer sees %r, model %r" % (cv, mc)))
            elif sv != mv or cv != mc:
                cut = True
            if kind in STATE_OPS and not problems:
                for n in m2.order:
                    mo = m2.objs[n]
                    if not mo.held:
                        continue
                    pre = describe(ms, n, op)
                    o = w.objs[n]
                    st_a = W.state_of(o)
                    if st_a != mo.state:
                        sig = "%s: object %s -> %s, documented: %s" % (head, pre, st_a, mo.state)
                        if pre_wasdel.get(n) and not ms.objs[n].wasdel and ms.objs[n].state != D:
                            sig = (
                                "stale was_deleted: an object INSERTed and DELETEd inside a rolled-back transaction keeps "
                                "InstanceState._deleted after it became transient; after the next INSERT it reports 'deleted'"
                            )
                        problems.append((sig, ""))
                        continue
                    mb = w.membership(n)
                    want = dict(
                        contains=mo.state in (PE, P),
                        new=mo.state == PE,
                        deleted=mo.state == P and mo.marked,
                        dirty=mo.state == P and mo.modflag and not mo.marked,
                        in_map=mo.state == P,
                    )
                    diff = {k: (mb[k], v) for k, v in want.items() if mb[k] != v}
                    if diff:
                        problems.append(("%s: object %s: session membership %s (got, documented)" % (head, pre, sorted(diff.items())), ""))
                        continue
                    if mo.state != P or kind == "close":
                        if (mb["key"] is None) != (mo.state in (T, PE)):
                            problems.append(("%s: object %s is %s but its identity key is %r" % (head, pre, mo.state, mb["key"]), ""))
                        continue
                    if mb["key"] != (mo.key,):
                        problems.append(
                            ("%s: object persistent%s keeps an identity key that is not its row's key in the surviving scope"
                             % (head, "+key-switched-in-open-tx" if any(n in sc.switch for sc in ms.tx) else ""),
                             "identity key %r, surviving scope %r" % (mb["key"], (mo.key,)))
                        )
                        continue
                    t = M.TABLE_OF[mo.cls]
                    cols = W.TABLE_COLS[t]
                    row = None
                    for r in sv.get(t, ()):
                        if r[0] == mo.key:
                            row = dict(zip(cols, r))
                    if row is None:
                        problems.append(("%s: object %s is persistent but the surviving scope has no row for its key" % (head, pre), "key %r rows %r" % (mo.key, sv)))
                        continue
                    loaded = w.loaded_values(n)
                    bad = {a: (v, row[a]) for a, v in loaded.items() if row[a] != v}
                    if bad:
                        problems.append(
                            ("%s: object %s keeps loaded attribute values that differ from the surviving scope's row" % (head, pre), "attr: (in memory, row) %r" % bad)
                        )
                        continue
                    if ((kind == "commit" and eoc) or (kind == "rollback" and ms.tx)) and loaded:
                        problems.append(("%s: object %s was not expired" % (head, pre), "still loaded: %r" % loaded))
                        continue
                    for a in cols:
                        tv = w.apply(("touch", n, a))
                        if not tv.ok or tv.value != row[a]:
                            problems.append(
                                ("%s: object %s: accessing an attribute does not yield the surviving scope's value" % (head, pre), "%s -> %s, row %r" % (a, tv.short() if not tv.ok else repr(tv.value), row[a]))
                            )
                            break
        nontrivial = kind in CHECK_OPS and any(o.state in (PE, P, D) for o in ms.objs.values())
        return problems, m2, pr, canon, info, nontrivial if not cut else "cut"
    finally:
        w.close()


def make_step(cfg, rec):
    def step(hist_, ms, op):
        problems, m2, pr, canon, info, nontrivial = check_step(cfg, hist_, ms, op)
        rec.case((cfg["world"], cfg["eoc"], cfg["autoflush"], ms.canon(), op), nontrivial=nontrivial is True)
        if pr.undefined:
            rec.count("ops skipped: outcome undocumented (persistent object without a row)")
            return None
        if problems:
            sig, detail = problems[0]
            case = dict(world=cfg["world"], eoc=cfg["eoc"], autoflush=cfg["autoflush"], history=[list(h) for h in hist_], op=list(op))
            if op[0] in ("commit", "begin_nested", "begin_nested_nf", "sp_commit") and not ms.is_clean():
                # minimise: the same op after an explicit flush
                m_f = ms.copy()
                pr_f = m_f.apply(("flush",))
                if pr_f.outcome == "ok" and not pr_f.undefined:
                    p1, _, _, _, info1, _ = check_step(cfg, hist_, ms, ("flush",))
                    if not p1:
                        h2 = tuple(hist_) + (("flush",),)
                        p2, _, _, _, info2, _ = check_step(cfg, h2, m_f, op)
                        if p2:
                            (sig, detail), info = p2[0], info2
                            case["history"] = [list(h) for h in h2]
            rec.violation("C33 " + sig, "%s\nhistory (after %s): %s\nop: %s\nobserved: %s" % (detail, list(cfg["prefix"]), case["history"], list(op), info), case)
            return None
        if nontrivial == "cut":
            rec.count("branches cut: rows differ from the model after a non-transaction op (C30's subject)")
            rec.note("cut example: %s %s -> %s" % ([list(h) for h in hist_], list(op), info))
            return None
        if pr.outcome == "flushfail" or pr.terminal:
            rec.count("histories ending in a failed flush (not continued)")
            return None
        if pr.outcome == "error":
            rec.outcome((op[0], "error"))
        if op[0] in CHECK_OPS:
            rec.outcome((op[0], tuple(sorted(info["lifecycle"].items())), repr(info.get("session_rows")), repr(info.get("committed_rows"))))
            if nontrivial is True and len(hist_) >= 3:
                rec.sample(dict(world=cfg["world"], eoc=cfg["eoc"], history=[list(h) for h in hist_], op=list(op), objects=info["lifecycle"], session_rows=repr(info["session_rows"]), committed=repr(info["committed_rows"])), limit=3)
        return m2, (cfg["world"], cfg["eoc"], cfg["autoflush"], m2.canon(), canon)

    return step


def shards(tier, seed):
    return [None]


# Session(autoflush=False) worlds run one level shallower (begin_nested must flush all the same)
CONFIGS = [(w, e, True) for w in ("plain", "natural") for e in (True, False)] + [("plain", True, False), ("plain", False, False), ("natural", True, False)]


SHARD_TIMEOUT = dict(quick=4 * 3600, thorough=12 * 3600)  # watchdog only; the box may be heavily overloaded
WARM = dict(
    plain=[("get", "Plain", 2), ("add", "x", None), ("set", "b1", "name", "w"), ("begin_nested",), ("delete", "b1"), ("sp_rollback",), ("flush",), ("commit",), ("set", "x", "name", "q"), ("rollback",), ("touch", "x", "name"), ("close",)],
    natural=[("get", "NNode", "k1"), ("add", "n", None), ("set", "b1", "code", "k2"), ("begin_nested",), ("delete", "b1"), ("sp_rollback",), ("flush",), ("commit",), ("set", "n", "val", "q"), ("rollback",), ("touch", "n", "val"), ("close",)],
)


def run_shard(shard, tier, rec):
    jobs = W.jobs_from_argv()
    try:
        for world, eoc, af in CONFIGS:
            cfg = make_cfg(world, eoc, af)
            ms0 = model_for(cfg)
            w0 = build(cfg, ())
            try:
                key0 = (world, eoc, af, ms0.canon(), W.deep_canon(w0))
            finally:
                w0.close()
            d = W.explore_levels(
                rec,
                ID,
                [((), ms0, key0)],
                lambda ms, world=world: enabled(ms, world),
                lambda r, cfg=cfg: make_step(cfg, r),
                DEPTH[tier][world] - (0 if af else 1),
                jobs,
                warm=[(cfg, WARM[world])],
                ctx=dict(world=world, eoc=eoc, autoflush=af),
            )
            rec.count("depth completed %s eoc=%s autoflush=%s" % (world, eoc, af), d)
    finally:
        W.cleanup()


def _tuplify(x):
    if isinstance(x, list):
        return tuple(_tuplify(i) for i in x)
    return x


def replay(case):
    if case.get("kind") == "hang":  # recorded by the per-step watchdog: re-run the step without a limit
        case = dict(case.get("ctx") or {}, history=case["history"], op=case["op"])
    gc.disable()
    try:
        cfg = make_cfg(case["world"], case["eoc"], case.get("autoflush", True))
        ms = model_for(cfg)
        hist_ = tuple(_tuplify(h) for h in case["history"])
        for h in hist_:
            ms.apply(h)
        problems, _, _, _, info, _ = check_step(cfg, hist_, ms, _tuplify(case["op"]))
        return [("C33 " + s, "%s\nobserved: %s" % (d, info)) for s, d in problems[:1]]
    finally:
        W.cleanup()
        gc.enable()
