"""C38 instrumented collections vs the builtin list / set / dict (engine I, differential, complete argument domain).

Every operation of the list / set / dict API, with every argument of a small
closed domain, is applied to a relationship collection (InstrumentedList,
InstrumentedSet, attribute_keyed_dict, column_keyed_dict) and to a plain
list / set / dict holding the same objects.  Oracle (quotes the property):
same resulting contents, same return value, same exception class; and the
append / remove events fired on the owning attribute account exactly for the
items added and removed (signed multiset conservation:
``appends - removes == after - before``); the backref stays consistent.

Signatures are *minimal*: when a case of failure class K fails, the driver
re-enumerates K's sub-domain in the global simplest-first order (independent
of sharding) and reports the first failing case.

Mutations caught (each in a private copy, ``VF_REPO=... ./check C38``; all gave new VIOLATION signatures):

* ``_list_decorators.pop``: the ``__del(self, item, None, index)`` call dropped (pop fires no remove event)
* ``_list_decorators.__setitem__`` (index form): remove event for the replaced item dropped
* ``_dict_decorators.pop``: ``if _to_del`` -> ``if item is not None`` (pop(k, default) on a missing key fires remove(default))
* ``_set_decorators.intersection_update``: ``remove, add = have - want, want - have`` swapped
* ``_dict_decorators.__setitem__``: ``if key in self: __del(...)`` dropped (replaced value gets no remove event)
* ``_list_decorators.__delitem__`` (slice form): events computed from ``self[start:stop]`` ignoring the step
* ``CollectionAttributeImpl.set``: the ``old is orig_iterable`` early return for in-place operators removed
* ``_set_decorators.discard``: membership test dropped (remove event fired for non-members)
* ``_dict_decorators.setdefault``: returns the passed default instead of the existing value
* ``_list_decorators.__iadd__``: only the first element of the iterable appended

Genuine defects found on the unchanged tree (reported, see /verif/proposed_fixes/c38_*.diff): slice assignment
(start/stop clamping, negative/zero step, iterators, ``value is self``), ``list.remove(non-member)`` fires a remove
event, ``list *= 0`` and ``dict |= other`` fire no events, ``set.update()/intersection_update()/difference_update()``
arity, ``set -= itself``.
"""
from __future__ import annotations

import itertools
from collections import Counter

from sqlalchemy.orm import attributes

from ..worlds import collworld as cw

ID = "C38"
LEVEL = "exploration"
META = dict(
    engine="I",
    technique="exhaustive small-scope enumeration of (collection state, operation, argument) with a differential oracle "
    "against the builtin list/set/dict and an event-conservation invariant",
    design_ref="DESIGN.md §5 C38",
    level_text="For InstrumentedList, InstrumentedSet, attribute_keyed_dict and column_keyed_dict collections of size 0-4 "
    "(reached by assignment, by the never-initialised empty-collection path, by set_committed_value, and after one "
    "prefix operation) every mutating operation of the builtin API is applied with every argument of a closed domain "
    "(indices -6..6, all slices start,stop in {None,-6..6} x step in {None,-3..3}, replacement sequences of length 0-3 "
    "as list/tuple/iterator/self/non-iterable, set arguments as set/frozenset/list-with-duplicates/tuple/iterator/self, "
    "dict arguments as dict/pairs/iterator/kwargs) to the real collection and to a plain builtin holding the same "
    "objects; contents, return value, exception class, append/remove event conservation and backref consistency are "
    "compared on every case. Complete for that domain.",
    level_note="Trusted: the builtin list/set/dict as reference, the 10-line event conservation rule. Elements are mapped "
    "instances with identity equality; histories are <=2 operations (collection behaviour depends on contents and "
    "adapter flags only, both covered by the four initialisation routes). list *= n with n>=1 is required to fire no "
    "events (orm/collections.py documents that choice: only further references to members are added).",
    rule="case = (collection kind, init route, size, optional prefix op, op, arguments, route coll|attr); executed on the "
    "implementation and on the builtin; non-trivial = the builtin's contents changed or it raised (the instrumentation "
    "wrapper had to fire events or reproduce an error); distinct by the full case tuple",
    assumptions=[
        "collection members are mapped instances (identity equality, hashable); None only where the builtin itself inserts it (setdefault(k))",
        "single-threaded; no session attached (cascades are C39, flush is C36/C37)",
        "list.__imul__(n>=1) is documented as not firing append events; required: no events at all",
    ],
    bounds=dict(
        quick="sizes 0-4; indices -6..6; 1568 slices x 12 replacement values; full depth-1 domain on 3 init routes; depth-2: 9/6/6 prefix ops x reduced argument domain",
        thorough="as quick, plus depth-2 over the full argument domain for every prefix op, sizes 0-5",
    ),
)

# ------------------------------------------------------------------ universe

TOK_NAMES = dict(k0="a", k1="b", k2="c", k3="d", k4="e", x="q", y="r", z="s", w="a", u="m", v="n", o="t")
MEMBERS = ("k0", "k1", "k2", "k3", "k4")


class Holder:
    """plain stand-in for the parent object (route 'attr': h.kids op= arg)"""

    def __init__(self, kids):
        self.kids = kids


def _namekey(c):
    if c is None:
        return ""
    return getattr(c, "name", None) or getattr(c, "text", None) or ""


class Ctx:
    def __init__(self, ckind, init):
        route, size, dup = init
        w = cw.world()
        P, C = w.pairs[ckind]
        self.ckind = ckind
        self.base = "list" if ckind == "list" else ("set" if ckind == "set" else "dict")
        self.log = w.logs[ckind]
        self.obj = {t: C(name=n) for t, n in TOK_NAMES.items()}
        self.tok = {id(o): t for t, o in self.obj.items()}
        self.p = P(name="p")
        self.p2 = P(name="p2")
        members = [self.obj[t] for t in MEMBERS[:size]]
        if dup and members:
            members = members + [members[0]]
        if route == "assign":
            self.p.kids = self.container(members)
        elif route == "default":
            pass
        elif route == "committed":
            attributes.set_committed_value(self.p, "kids", list(members))
            for m in members:
                attributes.set_committed_value(m, "parent", self.p)
        else:
            raise AssertionError(route)
        self.p2.kids = self.container([self.obj["o"]])
        self.coll = self.p.kids
        self.log.reset()

    def container(self, members):
        if self.base == "list":
            return list(members)
        if self.base == "set":
            return set(members)
        return {m.name: m for m in members}

    def plain(self):
        if self.base == "list":
            return list(self.coll)
        if self.base == "set":
            return set(self.coll)
        return dict(self.coll)

    def t(self, o):
        if o is None:
            return "None"
        return self.tok.get(id(o), "?%r" % (o,))

    def canon(self, coll):
        if self.base == "list":
            return [self.t(o) for o in coll]
        if self.base == "set":
            return sorted(self.t(o) for o in coll)
        return [[k, self.t(v)] for k, v in coll.items()]

    def values(self, coll):
        return list(coll.values()) if self.base == "dict" else list(coll)


class R:
    """argument resolver for one side (implementation or plain)"""

    def __init__(self, ctx, target):
        self.ctx, self.target = ctx, target

    def v(self, tok):
        if tok == "none":
            return None
        return self.ctx.obj[tok]

    def s(self, spec):
        kind = spec[0]
        if kind == "self":
            return self.target
        if kind == "int":
            return 5
        items = [self.ctx.obj[t] for t in spec[1]]
        if kind == "list":
            return items
        if kind == "tuple":
            return tuple(items)
        if kind == "iter":
            return iter(items)
        if kind == "set":
            return set(items)
        if kind == "frozenset":
            return frozenset(items)
        if kind == "dictkeys":
            return {i: 1 for i in items}
        raise AssertionError(kind)

    def m(self, spec):
        """mapping / pairs argument for dict ops"""
        kind = spec[0]
        if kind == "self":
            return self.target
        if kind == "int":
            return 5
        pairs = [(k, self.dv(k, t)) for k, t in spec[1]]
        if kind == "dict":
            return dict(pairs)
        if kind == "pairs":
            return pairs
        if kind == "iterpairs":
            return iter(pairs)
        if kind == "badpairs":
            return pairs + [("a",)]
        raise AssertionError(kind)

    def dv(self, key, tok):
        if tok == "=same":
            return self.target[key] if key in self.target else self.ctx.obj["x"]
        return self.v(tok)


# ------------------------------------------------------------------ applying ops


def apply_op(base, h, op, r):
    """apply op to h.kids (h: parent object or Holder); returns the return value"""
    t = h.kids
    n = op[0]
    if base == "list":
        if n == "append":
            return t.append(r.v(op[1]))
        if n == "extend":
            return t.extend(r.s(op[1]))
        if n == "insert":
            return t.insert(op[1], r.v(op[2]))
        if n == "pop":
            return t.pop(*op[1:])
        if n == "remove":
            return t.remove(r.v(op[1]))
        if n == "clear":
            return t.clear()
        if n == "reverse":
            return t.reverse()
        if n == "sort":
            return t.sort(key=_namekey, reverse=op[1])
        if n == "setitem":
            t[op[1]] = t[op[1]] if op[2] == "=same" else r.v(op[2])
            return None
        if n == "delitem":
            del t[op[1]]
            return None
        if n == "setslice":
            t[slice(*op[1])] = r.s(op[2])
            return None
        if n == "delslice":
            del t[slice(*op[1])]
            return None
        if n == "getslice":
            return t[slice(*op[1])]
        if n == "getitem":
            return t[op[1]]
        if n == "iadd":
            t += r.s(op[1])
            return t
        if n == "imul":
            t *= op[1]
            return t
        if n == "iadd@attr":
            h.kids += r.s(op[1])
            return h.kids
        if n == "imul@attr":
            h.kids *= op[1]
            return h.kids
        if n == "index":
            return t.index(r.v(op[1]))
        if n == "count":
            return t.count(r.v(op[1]))
        if n == "contains":
            return r.v(op[1]) in t
        if n == "copy":
            return t.copy()
        if n == "len":
            return len(t)
    elif base == "set":
        if n in ("add", "discard", "remove"):
            return getattr(t, n)(r.v(op[1]))
        if n in ("pop", "clear"):
            return getattr(t, n)()
        if n in ("update", "intersection_update", "difference_update", "symmetric_difference_update"):
            return getattr(t, n)(*[r.s(a) for a in op[1:]])
        if n in ("ior", "iand", "isub", "ixor"):
            a = r.s(op[1])
            if n == "ior":
                t |= a
            elif n == "iand":
                t &= a
            elif n == "isub":
                t -= a
            else:
                t ^= a
            return t
        if n in ("ior@attr", "iand@attr", "isub@attr", "ixor@attr"):
            a = r.s(op[1])
            if n == "ior@attr":
                h.kids |= a
            elif n == "iand@attr":
                h.kids &= a
            elif n == "isub@attr":
                h.kids -= a
            else:
                h.kids ^= a
            return h.kids
        if n == "contains":
            return r.v(op[1]) in t
        if n == "len":
            return len(t)
    else:
        if n == "setitem":
            t[op[1]] = r.dv(op[1], op[2])
            return None
        if n == "delitem":
            del t[op[1]]
            return None
        if n == "pop":
            if len(op) == 2:
                return t.pop(op[1])
            return t.pop(op[1], r.v(op[2]))
        if n == "popitem":
            return t.popitem()
        if n == "setdefault":
            if len(op) == 2:
                return t.setdefault(op[1])
            return t.setdefault(op[1], r.dv(op[1], op[2]))
        if n == "update":
            args = [] if op[1] is None else [r.m(op[1])]
            kw = {} if op[2] is None else {k: r.dv(k, tk) for k, tk in op[2]}
            return t.update(*args, **kw)
        if n == "clear":
            return t.clear()
        if n == "ior":
            t |= r.m(op[1])
            return t
        if n == "ior@attr":
            h.kids |= r.m(op[1])
            return h.kids
        if n == "getitem":
            return t[op[1]]
        if n == "get":
            return t.get(op[1])
        if n == "contains":
            return op[1] in t
        if n == "len":
            return len(t)
    raise AssertionError(op)


def _ret_canon(ctx, r, target):
    if r is target:
        return ["self"]
    if isinstance(r, list):
        return ["list", [ctx.t(o) for o in r]]
    if isinstance(r, tuple):
        return ["tuple", [o if isinstance(o, str) else ctx.t(o) for o in r]]
    if r is None or isinstance(r, (bool, int, str)):
        return ["val", r]
    if isinstance(r, (set, dict)):
        return [type(r).__name__, "?"]
    return ["obj", ctx.t(r)]


def _run(ctx, h, op, base):
    r = R(ctx, h.kids)
    try:
        ret = apply_op(base, h, op, r)
        return ret, None
    except Exception as e:  # noqa: BLE001 - the exception class IS the observation
        return None, e


def run_case(case):
    """-> (problems [(aspect, text)], info dict).  Executes the case once on
    the implementation and once on the builtin."""
    ckind, init, prefix, op = case["ckind"], case["init"], case.get("prefix") or [], case["op"]
    ctx = Ctx(ckind, init)
    base = ctx.base
    for pop_ in prefix:
        _run(ctx, ctx.p, pop_, base)
    coll = ctx.p.kids
    ctx.log.reset()
    plain = ctx.plain()
    before = ctx.canon(plain)
    before_vals = ctx.values(plain)
    ph = Holder(plain)
    p_ret, p_exc = _run(ctx, ph, op, base)
    plain_after = ph.kids
    is_setpop = base == "set" and op[0] == "pop"
    i_ret, i_exc = _run(ctx, ctx.p, op, base)
    if is_setpop and p_exc is None and i_exc is None:
        # set.pop() is free to choose: replay the implementation's choice on the builtin
        plain_after = set(before_vals)
        if any(i_ret is o for o in plain_after):
            plain_after.discard(i_ret)
            p_ret = i_ret
    problems = []
    pcls = type(p_exc).__name__ if p_exc is not None else "ok"
    icls = type(i_exc).__name__ if i_exc is not None else "ok"
    now = ctx.p.kids
    exp = ctx.canon(plain_after)
    got = ctx.canon(now) if now is not None else None
    if pcls != icls:
        problems.append(("result", "%s gives %s, collection gives %s%s" % (base, pcls if p_exc is not None else "no error", icls if i_exc is not None else "no error", (" (%s)" % i_exc) if i_exc is not None else "")))
    elif now is not coll:
        problems.append(("result", "attribute no longer holds the same collection object"))
    elif got != exp:
        problems.append(("result", "contents %s, %s gives %s" % (_fmt(got), base, _fmt(exp))))
    elif p_exc is None:
        pr, ir = _ret_canon(ctx, p_ret, plain_after), _ret_canon(ctx, i_ret, now)
        if pr != ir:
            problems.append(("result", "returned %s, %s returns %s" % (ir, base, pr)))
    # events
    apps, rems = Counter(), Counter()
    foreign = []
    for name, target, value in ctx.log.log:
        if name not in ("append", "remove"):
            continue
        if target is ctx.p:
            (apps if name == "append" else rems)[ctx.t(value)] += 1
        elif target is not ctx.p2:
            foreign.append((name, repr(target)))
    after_vals = ctx.values(now)
    delta = Counter(ctx.t(o) for o in after_vals)
    delta.subtract(Counter(ctx.t(o) for o in before_vals))
    ev = Counter(apps)
    ev.subtract(rems)
    d1 = {k: c for k, c in delta.items() if c}
    e1 = {k: c for k, c in ev.items() if c}
    imul_pos = base == "list" and op[0].startswith("imul") and op[1] >= 1
    if imul_pos:
        if apps or rems:
            problems.append(("events", "*= %d fired events append=%s remove=%s" % (op[1], dict(apps), dict(rems))))
    elif d1 != e1 or foreign:
        problems.append(
            (
                "events",
                "events append=%s remove=%s do not account for the change of contents %s -> %s (net %s)"
                % (_fmtc(apps), _fmtc(rems), _fmt(before), _fmt(ctx.canon(now)), _fmtc(d1)),
            )
        )
    # backref
    if not problems and i_exc is None:
        c_after = Counter(id(o) for o in after_vals)
        c_before = Counter(id(o) for o in before_vals)
        simple = (
            all(c <= 1 for c in c_after.values())
            and all(c <= 1 for c in c_before.values())
            and not (set(apps) & set(rems))
            and not any(o is None for o in after_vals)
        )
        if simple:
            in_p = {id(o) for o in after_vals}
            in_p2 = {id(o) for o in ctx.values(ctx.p2.kids)}
            for tok, o in sorted(ctx.obj.items()):
                expect = ctx.p if id(o) in in_p else (ctx.p2 if id(o) in in_p2 else None)
                if id(o) in in_p and id(o) in in_p2:
                    problems.append(("backref", "%s is in both parents' collections" % tok))
                    break
                if o.parent is not expect:
                    problems.append(("backref", "%s.parent is %r but it is %s" % (tok, o.parent, "in p.kids" if expect is ctx.p else ("in p2.kids" if expect is ctx.p2 else "in no collection"))))
                    break
    changed = exp != before
    info = dict(
        plain_outcome=pcls,
        nontrivial=bool(changed or p_exc is not None),
        outcome=(ckind, op[0], pcls, icls, len(before), len(exp), sum(apps.values()), sum(rems.values())),
        before=before,
        after=got,
        events=[sum(apps.values()), sum(rems.values())],
    )
    return problems, info


def _fmt(c):
    if c is None:
        return "None"
    if c and isinstance(c[0], list):
        return "{" + ", ".join("%s: %s" % (k, v) for k, v in c) + "}"
    return "[" + ", ".join(c) + "]"


def _fmtc(c):
    return "{" + ", ".join("%s: %d" % kv for kv in sorted(dict(c).items())) + "}"


# ------------------------------------------------------------------ domains

IDX = list(range(-6, 7))
SLICE_VALS = [None] + IDX
STEPS = [None, 1, -1, 2, -2, 3, -3, 0]


def _cost(v):
    return 0 if v is None else 1 + abs(v)


def all_slices(vals=SLICE_VALS, steps=STEPS):
    out = [(a, b, c) for a in vals for b in vals for c in steps]
    out.sort(key=lambda s: (sum(x is not None for x in s), _cost(s[0]) + _cost(s[1]) + _cost(s[2]), [(-1 if x is None else (2 * abs(x) + (x < 0))) for x in s]))
    return [list(s) for s in out]


SLICES_FULL = all_slices()
SLICES_RED = all_slices([None, -5, -1, 0, 1, 2, 5], [None, -1, 2])

SEQ_FULL = [
    ["list", []],
    ["list", ["x"]],
    ["list", ["x", "y"]],
    ["list", ["x", "y", "z"]],
    ["list", ["k0"]],
    ["list", ["x", "x"]],
    ["list", ["o"]],
    ["tuple", ["x", "y"]],
    ["iter", ["x"]],
    ["iter", ["x", "y"]],
    ["self"],
    ["int"],
]
SEQ_RED = [["list", []], ["list", ["x"]], ["list", ["x", "y"]], ["iter", ["x", "y"]], ["self"]]


def _valclass(spec):
    k = spec[0]
    if k in ("list", "tuple"):
        return "seq"
    if k in ("set", "frozenset", "dictkeys"):
        return "setlike"
    return k


def _stepclass(s):
    st = s[2]
    if st is None or st == 1:
        return "simple"
    if st == 0:
        return "step0"
    return "extended"


def list_families(full):
    """-> {family: [(sub, op)...]} in simplest-first order"""
    slices = SLICES_FULL if full else SLICES_RED
    seqs = SEQ_FULL if full else SEQ_RED
    idx = IDX if full else [-5, -1, 0, 1, 5]
    f = {}
    f["append"] = [("", ["append", v]) for v in ("x", "k0", "o")]
    f["extend"] = [(_valclass(s), ["extend", s]) for s in seqs]
    f["insert"] = [("", ["insert", i, v]) for i in idx for v in ("x", "k0")]
    f["pop"] = [("", ["pop"])] + [("", ["pop", i]) for i in idx]
    f["remove"] = [("", ["remove", v]) for v in ("k0", "k1", "k3", "x", "o")]
    f["misc"] = [("clear", ["clear"]), ("reverse", ["reverse"]), ("sort", ["sort", False]), ("sort", ["sort", True]), ("copy", ["copy"]), ("len", ["len"])] + [
        (n, [n, v]) for n in ("index", "count", "contains") for v in ("k0", "x")
    ]
    f["setitem"] = [("", ["setitem", i, v]) for i in idx for v in ("x", "k0", "=same", "o")]
    f["delitem"] = [("", ["delitem", i]) for i in idx]
    f["getitem"] = [("", ["getitem", i]) for i in idx]
    f["iadd"] = [(_valclass(s), [n, s]) for s in seqs for n in ("iadd", "iadd@attr")]
    f["imul"] = [("n<=0" if k <= 0 else "n>=1", [n, k]) for k in (0, 1, 2, 3, -1) for n in ("imul", "imul@attr")]
    f["getslice"] = [(_stepclass(s), ["getslice", s]) for s in slices]
    f["delslice"] = [(_stepclass(s), ["delslice", s]) for s in slices]
    f["setslice"] = [(_stepclass(s), ["setslice", s, v]) for s in slices for v in seqs]
    return f


SETARG_KINDS = ("set", "frozenset", "list", "tuple", "iter", "dictkeys")


def _set_args(full):
    toks = ["k0", "k1", "x", "y"]
    contents = [[]] + [[a] for a in toks] + [[a, b] for a in toks for b in toks if a < b]
    if full:
        contents += [["k0", "k1", "x"], ["k0", "x", "y"], ["k0", "k1", "k2", "k3"]]
    out = []
    for c in contents:
        for k in SETARG_KINDS if full else ("set", "list", "iter"):
            out.append([k, c])
    for c in (["x", "x"], ["k0", "k0"], ["k0", "x", "k0", "x"]):
        for k in ("list", "iter") if full else ("list",):
            out.append([k, c])
    out += [["self"], ["int"]]
    return out


def set_families(full):
    f = {}
    f["add"] = [("", ["add", v]) for v in ("x", "k0", "o", "w")]
    f["discard"] = [("", ["discard", v]) for v in ("k0", "k3", "x", "o")]
    f["remove"] = [("", ["remove", v]) for v in ("k0", "k3", "x", "o")]
    f["misc"] = [("pop", ["pop"]), ("clear", ["clear"]), ("len", ["len"]), ("contains", ["contains", "k0"]), ("contains", ["contains", "x"])]
    args = _set_args(full)
    for n in ("update", "intersection_update", "difference_update", "symmetric_difference_update"):
        f[n] = [(_valclass(a), [n, a]) for a in args]
        f[n] += [("arity", [n])]
        f[n] += [("arity", [n, a, b]) for a, b in ((["set", ["x"]], ["list", ["k0", "y"]]), (["list", ["k0"]], ["set", ["k0", "k1"]]), (["set", []], ["set", ["x"]]))]
    for n in ("ior", "iand", "isub", "ixor"):
        f[n] = [(_valclass(a), [m, a]) for a in args for m in (n, n + "@attr")]
    return f


def _dict_margs(full):
    keys = ["a", "q"] if not full else ["a", "b", "q"]
    vals = ["x", "=same", "w", "k1"] if full else ["x", "=same", "k1"]
    singles = [[(k, v)] for k in keys for v in vals]
    doubles = [[("a", "x"), ("q", "y")], [("q", "x"), ("q", "y")], [("a", "=same"), ("b", "x")], [("a", "k1"), ("b", "k0")], [("q", "x"), ("a", "x")]]
    contents = [[]] + singles + doubles
    out = []
    for c in contents:
        cj = [list(p) for p in c]
        for k in ("dict", "pairs", "iterpairs"):
            if k == "dict" and len({p[0] for p in c}) != len(c):
                continue
            out.append([k, cj])
    out += [["badpairs", [["q", "x"]]], ["self"], ["int"]]
    return out


def dict_families(full):
    f = {}
    keys = ("a", "b", "q")
    f["setitem"] = [("", ["setitem", k, v]) for k in keys for v in ("x", "w", "k0", "k1", "o", "=same")]
    f["delitem"] = [("", ["delitem", k]) for k in ("a", "d", "q")]
    f["pop"] = [("", ["pop", k]) for k in ("a", "d", "q")] + [("", ["pop", k, d]) for k in ("a", "q") for d in ("none", "x")]
    f["misc"] = [("popitem", ["popitem"]), ("clear", ["clear"]), ("len", ["len"])] + [(n, [n, k]) for n in ("getitem", "get", "contains") for k in ("a", "q")]
    f["setdefault"] = [("nodefault", ["setdefault", k]) for k in ("a", "q")] + [("", ["setdefault", k, v]) for k in ("a", "q") for v in ("x", "=same", "k1", "none")]
    margs = _dict_margs(full)
    f["update"] = [(a[0], ["update", a, None]) for a in margs]
    f["update"] += [("noarg", ["update", None, None])]
    f["update"] += [("kw", ["update", None, kw]) for kw in ([["a", "x"]], [["q", "x"]], [["a", "=same"]], [["a", "x"], ["q", "y"]])]
    f["update"] += [("arg+kw", ["update", ["dict", [["q", "x"]]], [["a", "y"]]]), ("arg+kw", ["update", ["pairs", [["a", "x"]]], [["a", "y"]]])]
    f["ior"] = [("", [m, a]) for a in margs if a[0] != "badpairs" for m in ("ior", "ior@attr")]
    return f


FAMILIES = dict(list=list_families, set=set_families, adict=dict_families, cdict=dict_families)

PREFIX = dict(
    list=[
        ["append", "u"],
        ["pop"],
        ["insert", 0, "u"],
        ["delitem", 0],
        ["reverse"],
        ["setslice", [0, 1, None], ["list", ["u", "v"]]],
        ["imul", 2],
        ["setitem", -1, "u"],
        ["clear"],
    ],
    # (no set.pop() as a prefix: which member it removes depends on object addresses)
    set=[["add", "u"], ["discard", "k1"], ["discard", "k0"], ["ior", ["set", ["u", "v"]]], ["clear"], ["ixor", ["set", ["k0", "u"]]]],
    adict=[["setitem", "m", "u"], ["delitem", "a"], ["popitem"], ["setitem", "a", "u"], ["update", ["dict", [["m", "u"], ["n", "v"]]], None], ["clear"]],
)
PREFIX["cdict"] = PREFIX["adict"]


def inits(tier, depth):
    """init routes, simplest first: (route, size, dup)"""
    smax = 4 if tier == "quick" else 5
    out = []
    if depth == 1:
        for size in range(0, smax + 1):
            out.append(["assign", size, False])
            if size == 0:
                out.append(["default", 0, False])
            out.append(["committed", size, False])
            if size in (2, 3):
                out.append(["assign", size, True])
    else:
        for size in (0, 2, 3) if tier == "quick" else range(0, smax + 1):
            out.append(["assign", size, False])
        if tier != "quick":
            out.append(["default", 0, False])
            out.append(["committed", 2, False])
    return out


def _init_ok(ckind, init):
    return not (init[2] and ckind != "list")


def family_cases(ckind, family, tier, part=0, parts=1):
    """all cases of one family in the global simplest-first order: yields (sub, case).
    With parts > 1 only the work units (block, op-chunk) of this part."""
    unit = 0
    for depth in (1, 2):
        full = depth == 1 or tier == "thorough"
        ops = FAMILIES[ckind](full)[family]
        prefixes = [None] if depth == 1 else PREFIX[ckind]
        nchunks = 1 if parts == 1 else max(1, min(8, len(ops) // 500))
        for init in inits(tier, depth):
            if not _init_ok(ckind, init):
                continue
            for pf in prefixes:
                for c in range(nchunks):
                    unit += 1
                    if unit % parts != part:
                        continue
                    for sub, op in ops[c::nchunks] if nchunks > 1 else ops:
                        case = dict(ckind=ckind, init=init, op=op)
                        if pf is not None:
                            case["prefix"] = [pf]
                        yield sub, case


def shards(tier, seed):
    out = []
    for ckind in cw.KINDS:
        for fam in FAMILIES[ckind](True):
            parts = 1
            if ckind == "list" and fam == "setslice":
                parts = 24 if tier == "quick" else 96
            elif ckind == "list" and fam in ("getslice", "delslice"):
                parts = 2 if tier == "quick" else 8
            elif tier == "thorough" and fam in ("update", "ior", "iand", "isub", "ixor", "intersection_update", "difference_update", "symmetric_difference_update"):
                parts = 2
            for i in range(parts):
                out.append([ckind, fam, i, parts])
    return out


# ------------------------------------------------------------------ signatures

# generous watchdog: the box is shared; a shard is 2-40 s of CPU on an idle core
SHARD_TIMEOUT = dict(quick=1800, thorough=7200)

_MIN = {}


def describe(case):
    ckind, init, op = case["ckind"], case["init"], case["op"]
    base = "list" if ckind == "list" else ("set" if ckind == "set" else ckind)
    s = "%s[size %d%s%s]" % (base, init[1], "+dup" if init[2] else "", "" if init[0] == "assign" else " " + init[0])
    for pf in case.get("prefix") or []:
        s += " after %s" % _opstr(pf)
    return s + " " + _opstr(op)


def _argstr(a):
    if isinstance(a, list) and a and isinstance(a[0], str) and a[0] in ("list", "tuple", "iter", "set", "frozenset", "dictkeys", "self", "int", "dict", "pairs", "iterpairs", "badpairs"):
        if a[0] == "self":
            return "coll"
        if a[0] == "int":
            return "5"
        inner = ", ".join(x if isinstance(x, str) else "%s: %s" % tuple(x) for x in a[1])
        if a[0] == "list":
            return "[%s]" % inner
        return "%s(%s)" % (a[0], inner)
    return str(a)


def _slicestr(s):
    a, b, c = s
    out = "%s:%s" % ("" if a is None else a, "" if b is None else b)
    if c is not None:
        out += ":%s" % c
    return out


def _opstr(op):
    n = op[0]
    route = ""
    if n.endswith("@attr"):
        n, route = n[:-5], "p.kids"
    tgt = route or "coll"
    if n == "setslice":
        return "%s[%s] = %s" % (tgt, _slicestr(op[1]), _argstr(op[2]))
    if n == "delslice":
        return "del %s[%s]" % (tgt, _slicestr(op[1]))
    if n == "getslice":
        return "%s[%s]" % (tgt, _slicestr(op[1]))
    if n == "setitem":
        return "%s[%r] = %s" % (tgt, op[1], op[2])
    if n == "delitem":
        return "del %s[%r]" % (tgt, op[1])
    sym = dict(iadd="+=", imul="*=", ior="|=", iand="&=", isub="-=", ixor="^=")
    if n in sym:
        return "%s %s %s" % (tgt, sym[n], _argstr(op[1]))
    return "%s.%s(%s)" % (tgt, n, ", ".join(_argstr(a) for a in op[1:] if a is not None))


def _oclass(family, plain_outcome):
    """coarse builtin-outcome part of the failure class"""
    if family == "setslice":
        return "*"  # one root function; class = step class only
    return "ok" if plain_outcome == "ok" else "raises"


def minimal(ckind, family, sub, oclass, aspect, tier, trigger):
    """first failing case of the failure class in the global order"""
    key = (ckind, family, sub, oclass, aspect, tier)
    if key in _MIN:
        return _MIN[key]
    found = None
    # the quick domain is searched first in every tier, so that both tiers report the same signature
    for t in ("quick", tier) if tier != "quick" else ("quick",):
        for s2, case in family_cases(ckind, family, t):
            if s2 != sub:
                continue
            problems, info = run_case(case)
            if _oclass(family, info["plain_outcome"]) != oclass:
                continue
            hit = [p for p in problems if p[0] == aspect]
            if hit:
                found = (case, hit[0][1])
                break
        if found:
            break
    if found is None:
        found = trigger
    _MIN[key] = found
    return found


def report(rec, ckind, family, sub, case, problems, info, tier):
    oclass = _oclass(family, info["plain_outcome"])
    for aspect, text in problems:
        mk = ckind
        if ckind == "cdict":
            # attribute_keyed_dict and column_keyed_dict share KeyFuncDict: report under adict when it fails there too
            p2, _ = run_case(dict(case, ckind="adict"))
            if any(a == aspect for a, _t in p2):
                mk = "adict"
        mcase, mtext = minimal(mk, family, sub, oclass, aspect, tier, (dict(case, ckind=mk), text))
        sig = "%s %s: %s -> %s" % (mk, aspect, describe(mcase), mtext)
        rec.violation(
            sig,
            "failure class (%s, %s, %s, builtin %s, %s); first seen at: %s -> %s" % (ckind, family, sub or "-", oclass, aspect, describe(case), text),
            mcase,
        )


def run_shard(shard, tier, rec):
    ckind, family, part, parts = shard
    cw.world()
    n = 0
    sampled = 0
    for sub, case in family_cases(ckind, family, tier, part, parts):
        problems, info = run_case(case)
        n += 1
        rec.case(repr(sorted(case.items())), nontrivial=info["nontrivial"])
        rec.outcome(info["outcome"])
        rec.count("cases_" + ckind)
        if info["plain_outcome"] != "ok":
            rec.count("builtin_raises")
        if case.get("prefix"):
            rec.count("depth2_cases")
        if problems:
            report(rec, ckind, family, sub, case, problems, info, tier)
        elif info["nontrivial"] and sum(info["events"]) >= 2 and sampled < 1 and info["plain_outcome"] == "ok":
            sampled += 1
            rec.sample(dict(case=describe(case), before=_fmt(info["before"]), after=_fmt(info["after"]), appends_removes=info["events"]), limit=8)


def replay(case):
    out = []
    problems, info = run_case(case)
    ckind = case["ckind"]
    for aspect, text in problems:
        out.append(("%s %s: %s -> %s" % (ckind, aspect, describe(case), text), "builtin outcome %s; before %s after %s; events %s" % (info["plain_outcome"], _fmt(info["before"]), _fmt(info["after"]), info["events"])))
    return out
