"""C34 the identity map holds at most one object per row (engine H, invariants in every state).

Every history over the alphabet below (loads, get, merge, merge_all, refresh,
expunge, re-add, primary-key changes -- assigned by the application or made by
the flush itself through a Python-side ``onupdate`` default on a primary-key
column --, flush/commit/rollback, reference drops + gc) is replayed on a fresh
Session and fresh SQLite file.  After *every* operation:

 (a) no two live objects that are persistent in the session share an identity
     key, and each of them *is* the identity map's entry for its key;
 (b) every identity-map entry holds an object whose own key is that key and
     whose lifecycle state is persistent; after a flush the key equals the
     object's current primary-key attribute values (primary-key switch);
 (c) every query (plain, yield_per iteration, identity_token, polymorphic)
     returns exactly one object per row the session's transaction sees, each
     the identity map's entry for (class, pk, token), of the row's most
     specific class, and the same row never yields two objects;
 (d) Session.get of an identity that is present and not expired returns that
     object and emits zero statements; of an absent identity it emits exactly
     one SELECT and returns an object iff the row exists; of an expired one
     it refreshes (>= 1 statement) and returns the same object;
     populate_existing always selects and returns the same object;
 (e) merge returns the identity map's object when one is present and never
     attaches its source; merge_all ("calls Session.merge on multiple
     instances") satisfies the same per source, every result is in the
     session, and sources that carry one identity resolve to ONE object,
     whether or not the row exists yet.

Worlds (helper ``vf/worlds/c34_world.py`` = ormworld1.World + ``merge_all`` +
the ``Doc`` mapping): plain, poly, natural as before; ``doc`` has the composite
primary key ``(id, rev)`` where ``rev`` carries ``onupdate=<next revision>``
(per-World counter, part of the canonical state), so every UPDATE of a loaded
row moves the row to a new identity inside the flush without an attribute
event; invariant (b) then demands the key switch.

The pre-state that (d) quotes ("present", "not expired") is read from the
Session before the operation; nothing is predicted from hand-written SQL.

Defect this check found on the original tree (fixed in /repo by d63795a): a
primary-key switch that was flushed, then ``expunge(obj)``, then ``rollback()``
put the *detached* object back into ``Session.identity_map``
(`_restore_snapshot` re-keyed every state in `_key_switches` without checking
that it was still attached).

Session.delete() of an object already in the deleted state and
make_transient_to_detached() / add() of an object whose row does not exist are
outside the documented preconditions and guarded (ormworld1 ``op_delete_live``,
``op_mttd_known``, ``op_add_known``).

Mutations caught (private copy, `VF_REPO=/tmp/wt-orm1 ./check C34`):
 * session.py `_register_persistent`: `identity_map.safe_discard(state)`
   dropped on primary-key switch -> "identity map entry under a key that is
   not the object's own key"
 * loading.py `_instance`: an expired identity-map entry treated as absent
   (second instance created) -> "persistent object is not the identity
   map's entry for its key"
 * session.py `get`: identity lookup skipped unless identity_token given
   -> "get of a present, unexpired identity emitted SQL"
 * loading.py `_instance`: identity_token dropped from the identity key
   -> "query(identity_token): ... unexpected identity key"
 * identity.py `WeakInstanceDict.add`: "another instance with key is already
   present" raised only if the existing state is modified (twin attach
   succeeds) -> "persistent object is not the identity map's entry for its key"
 * seeded C34-b, session.py `merge_all`: per-instance merges wrapped in
   `no_autoflush` (second source with the same new primary key no longer
   finds the first, pending, result) -> "merge_all returned two different
   objects for one identity" (plain world, depth 1)
 * seeded C34-a, session.py `_register_persistent`: identity key reused when
   the primary-key attributes carry no history (an onupdate default on a pk
   column writes straight into the dict) -> "flush: after flush the identity
   key differs from the object's primary-key attribute" (doc world, depth 3:
   get, set name, flush)
"""
from __future__ import annotations

import gc

from sqlalchemy import inspect

from ..worlds import ormworld1 as W
from ..worlds import c34_world as W34

ID = "C34"
LEVEL = "model_checking"
META = dict(
    engine="H",
    technique="explicit-state BFS over Session load/mutation histories by replay on the real Session, identity invariants "
    "evaluated in every reached state, canonical-state dedupe",
    design_ref="DESIGN.md §5 C34",
    level_text="All histories up to the stated depth over query / yield_per iteration / identity_token query / get / "
    "get(populate_existing) / refresh / merge / merge_all (a source list naming an existing identity and a not-yet-existing identity twice) / expunge / add / delete / set / primary-key change / flush / commit / "
    "rollback / savepoint / make_transient_to_detached / dropref+gc, in four worlds: plain rows with a transient twin "
    "of an existing row, a joined+single-table polymorphic hierarchy, natural primary keys that are switched, and a "
    "composite primary key (id, rev) whose rev column has a Python-side onupdate default so that the flush itself moves the key. "
    "After every operation the identity map, every live object and every returned object are checked against the "
    "property's invariants; Session.get's statement count is measured with before_cursor_execute.",
    level_note="Trusted: the invariant evaluator (~150 lines) and the deep canonical state used for dedupe. The oracle "
    "is invariant-based: which rows exist is read with raw SQL on the session's own connection. Histories in which a "
    "flush fails are checked up to the failure and not continued.",
    rule="state = deep canonical form of the real Session + which names the harness still holds; transition = one op on "
    "a replayed history; non-trivial = the op returned >= 1 mapped object or changed the identity map",
    assumptions=["single Session, single thread, SQLite file database", "gc disabled; collection points are the enumerated gc ops"],
    bounds=dict(
        quick="plain world depth <= 3 (full alphabet, ~41 ops per state, one merge_all source list [existing pk, new pk, same new pk]); polymorphic depth <= 3; "
        "natural-key depth <= 5; onupdate-pk (doc) world depth <= 4 (2 rows, 5 load/merge ops + 5 ops per held object + flush/commit/rollback); expire_on_commit True",
        thorough="plain depth <= 4 with three merge_all source lists (also [new, same new] and [existing, same existing]); polymorphic depth <= 4; natural-key depth <= 5; "
        "doc depth <= 5; expire_on_commit True and False",
    ),
)

WORLDS = dict(
    plain=dict(
        universe=[("x", "Plain", {"id": 1, "name": "a"}), ("z", "Plain", {"id": 3, "name": "z"})],
        seed={"plain": [(1, "s"), (2, "t")]},
        tables=("plain",),
        sql_count=True,
        record_events=False,
    ),
    poly=dict(
        universe=[("e", "Engineer", {"id": 4, "name": "n", "lang": "c"})],
        seed={"person": [(1, "engineer", "e", None), (2, "manager", "m", 3), (3, "person", "p", None)], "engineer": [(1, "py")]},
        tables=("person", "engineer"),
        sql_count=True,
        record_events=False,
    ),
    natural=dict(
        universe=[("n", "NNode", {"code": "k3", "val": "new"})],
        seed={"nnode": [("k1", "v1"), ("k2", "v2")], "nitem": [(1, "k1")]},
        tables=("nnode", "nitem"),
        sql_count=True,
        record_events=False,
    ),
    # composite primary key (id, rev); rev has a Python-side onupdate default: every UPDATE moves the row's key inside the flush
    doc=dict(
        universe=[],
        seed={"doc": [(1, 1, "s"), (2, 1, "t")]},
        tables=("doc",),
        sql_count=True,
        record_events=False,
    ),
)
WORLD_ORDER = ("plain", "poly", "natural", "doc")
DEPTH = dict(quick=dict(plain=3, poly=3, natural=5, doc=4), thorough=dict(plain=4, poly=4, natural=5, doc=5))
EOCS = dict(quick=(True,), thorough=(True, False))
MAX_BORN = 3
TYPE_CLASS = {"engineer": "Engineer", "manager": "Manager", "person": "Person"}
SUBTYPES = dict(Person=("person", "engineer", "manager"), Engineer=("engineer",), Manager=("manager",))
TABLE_FOR = dict(Plain="plain", NNode="nnode", Person="person", Engineer="person", Manager="person", Doc="doc")
NPK = dict(doc=2)  # number of leading primary-key columns per table (default 1)
pkattrs = W34.pkattrs
# Session.merge_all() source lists (plain world): an existing identity and a not-yet-existing identity given twice
MERGE_ALL = dict(
    quick=[((("id", 1), ("name", "m")), (("id", 3), ("name", "n")), (("id", 3), ("name", "p")))],
    thorough=[
        ((("id", 1), ("name", "m")), (("id", 3), ("name", "n")), (("id", 3), ("name", "p"))),
        ((("id", 3), ("name", "n")), (("id", 3), ("name", "p"))),
        ((("id", 1), ("name", "m")), (("id", 1), ("name", "n"))),
    ],
)


def pk_tuple(pk):
    return tuple(pk) if isinstance(pk, (tuple, list)) else (pk,)


def pk_value(keytuple):
    """identity-key tuple -> the value the ops / rows_of use (scalar for single-column keys)"""
    return keytuple[0] if len(keytuple) == 1 else tuple(keytuple)


def make_cfg(world, eoc):
    cfg = dict(WORLDS[world])
    cfg["world"] = world
    cfg["eoc"] = eoc
    return cfg


class Light:
    """bookkeeping only: which names the harness holds (ops need a reference), births, savepoints"""

    __slots__ = ("held", "cls", "nborn", "nsp")

    def __init__(self, cfg):
        self.held = tuple(n for n, _, _ in cfg["universe"])
        self.cls = {n: c for n, c, _ in cfg["universe"]}
        self.nborn = 0
        self.nsp = 0

    def copy(self):
        m = Light.__new__(Light)
        m.held, m.cls, m.nborn, m.nsp = self.held, dict(self.cls), self.nborn, self.nsp
        return m

    def canon(self):
        return (self.held, self.nborn, self.nsp)


def enabled(ms, world, tier="quick"):
    ops = []
    constructed = [n for n in ms.held if not n.startswith("b")]
    born = [n for n in ms.held if n.startswith("b")]
    can_bear = ms.nborn < MAX_BORN
    if world == "plain":
        if can_bear:
            ops += [("query", "Plain"), ("get", "Plain", 1), ("get", "Plain", 2), ("get", "Plain", 3)]
            ops += [("query_iter", "Plain", (("yield_per", 1),)), ("query", "Plain", (("identity_token", "t"),))]
            ops += [("get", "Plain", 1, (("populate_existing", True),)), ("get", "Plain", 1, (("identity_token", "t"),))]
            ops += [("merge", "Plain", (("id", 1), ("name", "m"))), ("merge", "Plain", (("id", 3), ("name", "m")))]
            ops += [("merge_all", "Plain", srcs) for srcs in MERGE_ALL[tier]]
        for n in constructed:
            ops += [("add_known", n, "auto"), ("mttd_known", n, "auto")]
        for n in ms.held:
            ops += [("expunge", n), ("delete_live", n), ("set", n, "name", "b"), ("refresh", n), ("dropref", n)]
        ops += [("flush",), ("commit",), ("rollback",), ("gc",)]
    elif world == "poly":
        if can_bear:
            ops += [("query", "Person"), ("query", "Engineer"), ("query", "Manager"), ("query_iter", "Person", (("yield_per", 2),))]
            for cls in ("Person", "Engineer", "Manager"):
                for pk in (1, 2):
                    ops.append(("get", cls, pk))
            ops += [("get", "Person", 3), ("get", "Person", 4), ("get", "Engineer", 4), ("get", "Person", 1, (("populate_existing", True),))]
            ops.append(("merge", "Engineer", (("id", 1), ("name", "m"), ("lang", "go"))))
        for n in constructed:
            ops += [("add_known", n, "auto")]
        for n in ms.held:
            ops += [("expunge", n), ("delete_live", n), ("refresh", n), ("dropref", n)]
        ops += [("flush",), ("commit",), ("rollback",), ("gc",)]
    elif world == "doc":
        if can_bear:
            ops += [("query", "Doc"), ("get", "Doc", (1, 1)), ("get", "Doc", (1, 2)), ("get", "Doc", (1, 1), (("populate_existing", True),))]
            ops += [("merge", "Doc", (("id", 1), ("rev", 1), ("name", "m")))]
        for n in ms.held:
            ops += [("set", n, "name", "b"), ("set", n, "name", "c"), ("set", n, "id", 7), ("expunge", n), ("refresh", n)]
        ops += [("flush",), ("commit",), ("rollback",)]
    else:  # natural
        if can_bear:
            ops += [("query", "NNode"), ("get", "NNode", "k1"), ("get", "NNode", "k2"), ("get", "NNode", "k3")]
            ops += [("get", "NNode", "k1", (("populate_existing", True),))]
        for n in constructed:
            ops += [("add_known", n, "auto")]
        for n in ms.held:
            for code in ("k1", "k3", "k4"):
                ops.append(("set", n, "code", code))
            ops += [("expunge", n), ("refresh", n), ("delete_live", n)]
        ops += [("flush",), ("commit",), ("rollback",)]
        if ms.nsp < 1:
            ops.append(("begin_nested",))
        else:
            ops += [("sp_rollback",), ("sp_commit",)]
    return ops


def build(cfg, history):
    w = W34.World34(cfg)
    for op in history:
        w.apply(tuple(op))
    return w


# ------------------------------------------------------------------ oracle


def ident_key(st):
    return (st.key[0].__name__, tuple(st.key[1]), st.key[2])


def snapshot_map(w):
    """identity -> (name, expired) for live entries of the identity map (no side effects)"""
    out = {}
    for key, st in list(w.session.identity_map._dict.items()):
        o = st.obj()
        if o is not None:
            out[(key[0].__name__, tuple(key[1]), key[2])] = (o.__dict__.get("_vf_name"), bool(st.expired))
    return out


def rows_of(w, clsname):
    """primary keys (with discriminator for the hierarchy) the session's transaction sees for clsname"""
    t = TABLE_FOR[clsname]
    rows = dict(w.session_rows()).get(t, ())
    if t == "person":
        return [(r[0], r[1]) for r in rows if r[1] in SUBTYPES[clsname]]
    n = NPK.get(t, 1)
    return [(r[0] if n == 1 else tuple(r[:n]), None) for r in rows]


def invariants(w, after_flush):
    """(a) + (b); returns list of (sig, detail)"""
    s = w.session
    imap = s.identity_map
    problems = []
    for key, st in list(imap._dict.items()):
        o = st.obj()
        if o is None:
            continue
        nm = o.__dict__.get("_vf_name")
        if st.key != key:
            problems.append(("identity map entry under a key that is not the object's own key", "entry %r holds %s whose key is %r" % (key[1:], nm, st.key and st.key[1:])))
        elif W.state_of(o) != "persistent":
            problems.append(("identity map holds an object that is not persistent (%s)" % W.state_of(o), "%s under %r" % (nm, key[1:])))
        elif after_flush and not st.modified:
            attrs = pkattrs(type(o).__name__)
            if all(a in o.__dict__ for a in attrs) and tuple(o.__dict__[a] for a in attrs) != tuple(key[1]):
                problems.append(
                    ("after flush the identity key differs from the object's primary-key attribute", "%s key %r attribute %r" % (nm, key[1], pk_value(tuple(o.__dict__[a] for a in attrs))))
                )
    seen = {}
    for name in sorted(w.weak):
        o = w.weak[name]()
        if o is None:
            continue
        st = inspect(o)
        if st.session is s and st.persistent:
            if imap._dict.get(st.key) is not st:
                problems.append(("persistent object is not the identity map's entry for its key", "%s key %r" % (name, st.key[1:])))
            k = ident_key(st)
            if k in seen:
                problems.append(("two live persistent objects share one identity key", "%s and %s both %r" % (seen[k], name, k)))
            seen[k] = name
    return problems


def check_returned(w, names, clsname, token, pre):
    """(c): one object per visible row, each the identity map's entry, most specific class"""
    problems = []
    want = rows_of(w, clsname)
    objs = [w.objs.get(n) or (w.weak[n]() if n in w.weak else None) for n in names]
    got = []
    base = "Person" if clsname in ("Person", "Engineer", "Manager") else clsname
    for n, o in zip(names, objs):
        st = inspect(o)
        if not st.persistent or st.session is not w.session:
            problems.append(("query returned an object that is not persistent in the session", "%s is %s" % (n, W.state_of(o))))
            continue
        k = ident_key(st)
        if w.session.identity_map._dict.get(st.key) is not st:
            problems.append(("query returned an object that is not the identity map's entry for its key", "%s %r" % (n, k)))
        if k[0] != base or k[2] != token:
            problems.append(("query returned an object under an unexpected identity key", "%s %r, expected class %s token %r" % (n, k, base, token)))
        pkval = tuple(getattr(o, a) for a in pkattrs(type(o).__name__))
        if pkval != k[1]:
            problems.append(("returned object's primary key attribute differs from its identity key", "%s %r vs %r" % (n, pk_value(pkval), k)))
        got.append((pk_value(k[1]), type(o).__name__))
    if len(set(names)) != len(names):
        problems.append(("query returned the same object for two rows", repr(names)))
    want_pks = sorted(pk for pk, _ in want)
    if sorted(pk for pk, _ in got) != want_pks:
        problems.append(("query result does not match the rows the transaction sees", "returned pks %r, rows %r" % (sorted(pk for pk, _ in got), want_pks)))
    else:
        typ = dict(want)
        for pk, cn in got:
            if typ[pk] is not None and TYPE_CLASS[typ[pk]] != cn:
                problems.append(("row loaded as the wrong class", "pk %r discriminator %r loaded as %s" % (pk, typ[pk], cn)))
    return problems


def still_holds(w, name, key):
    """the object that held `key` before the op is still alive and persistent under that key"""
    r = w.weak.get(name)
    o = r() if r is not None else None
    if o is None:
        return False
    st = inspect(o)
    return st.persistent and st.session is w.session and ident_key(st) == key


def check_step(cfg, hist_, ms, op):
    w = build(cfg, hist_)
    try:
        pre = snapshot_map(w)
        was_clean = w.session._is_clean()
        stm0 = w.stmts
        w.stmt_log[:] = []
        out = w.apply(op)
        nstm = w.stmts - stm0
        oplog = list(w.stmt_log)
        w.count_sql = False
        problems = []
        info = dict(outcome=out.short(), statements=nstm, value=out.value if out.ok else None)
        kind = op[0]
        if not out.ok and not out.is_sa_error:
            problems.append(("%s raised %s (not a SQLAlchemy error)" % (kind, out.exc_name), out.short()))
        failed_flush = False
        if not out.ok and out.is_sa_error:
            # an error leaves the identity invariants intact; a failed flush ends the history
            failed_flush = not w.session.is_active or kind in ("flush", "commit", "begin_nested", "sp_commit", "query", "query_iter", "merge", "merge_all")
        after_flush = out.ok and kind in ("flush", "commit", "begin_nested", "sp_commit")
        if w.session.is_active:
            for sig, d in invariants(w, after_flush):
                problems.append(("%s: %s" % (kind, sig), d))
        if out.ok and kind in ("query", "query_iter"):
            token = dict(op[2]).get("identity_token") if len(op) > 2 and op[2] else None
            for sig, d in check_returned(w, out.value, op[1], token, pre):
                problems.append(("%s%s: %s" % (kind, "(identity_token)" if token else "", sig), d))
        if kind == "get" and not w.session.is_active:
            pass
        elif kind == "get":
            kw = dict(op[3]) if len(op) > 3 and op[3] else {}
            token = kw.get("identity_token")
            base = "Person" if op[1] in ("Person", "Engineer", "Manager") else op[1]
            key = (base, pk_tuple(op[2]), token)
            present = pre.get(key)
            rowtypes = dict(rows_of(w, op[1]))
            allrow = dict(rows_of(w, base))
            nsel = sum(1 for q in oplog if q.lstrip().upper().startswith("SELECT"))
            if not out.ok:
                if w.session.is_active:  # (an autoflush that fails ends the history; not get()'s fault)
                    problems.append(("get raised %s" % out.exc_name, out.short()))
            elif kw.get("populate_existing"):
                if nsel < 1:
                    problems.append(("get(populate_existing) emitted no statement", ""))
                if present and out.value is not None and out.value != present[0] and still_holds(w, present[0], key):
                    problems.append(("get(populate_existing) returned a different object than the one in the identity map", "%r vs %r" % (out.value, present[0])))
                if (out.value is not None) != (op[2] in rowtypes):
                    problems.append(("get(populate_existing) result disagrees with the rows the transaction sees", "returned %r, row present %s" % (out.value, op[2] in rowtypes)))
            elif present and not present[1]:
                holder_cls = w.cls.get(present[0])
                compatible = op[1] == base or holder_cls == op[1]
                if nstm != 0:
                    problems.append(("get of a present, unexpired identity emitted SQL", "%d statement(s): %s" % (nstm, oplog[:2])))
                if compatible and out.value != present[0]:
                    problems.append(("get of a present identity returned a different object", "returned %r, identity map had %r" % (out.value, present[0])))
                if not compatible and out.value is not None:
                    problems.append(("get(subclass) returned an object of another class", "%r for %s" % (out.value, op[1])))
            elif present and present[1] and not (op[1] == base or w.cls.get(present[0]) == op[1]):
                if out.value is not None:
                    problems.append(("get(subclass) returned an object of another class", "%r for %s" % (out.value, op[1])))
            elif present and present[1]:
                if nsel < 1:
                    problems.append(("get of an expired identity emitted no refresh", ""))
                if out.value is not None and out.value != present[0] and still_holds(w, present[0], key):
                    problems.append(("get of an expired identity returned a different object", "returned %r, identity map had %r" % (out.value, present[0])))
                if out.value is None and op[2] in allrow and (op[1] == base or TYPE_CLASS.get(allrow[op[2]]) == op[1]):
                    problems.append(("get of an expired identity whose row exists returned None", ""))
            else:
                if was_clean and nstm != 1:
                    problems.append(("get of an absent identity emitted %d statements (expected exactly one SELECT)" % nstm, repr(oplog[:4])))
                elif nsel < 1:
                    problems.append(("get of an absent identity emitted no SELECT", repr(oplog[:4])))
                if (out.value is not None) != (op[2] in rowtypes):
                    problems.append(("get of an absent identity disagrees with the rows the transaction sees", "returned %r, row present %s" % (out.value, op[2] in rowtypes)))
            if out.ok and out.value is not None:
                o = w.objs[out.value]
                st = inspect(o)
                if not st.persistent or ident_key(st) != key:
                    problems.append(("get returned an object with another identity / state", "%s %s %r, asked %r" % (out.value, W.state_of(o), st.key and ident_key(st), key)))
        if kind == "merge" and out.ok:
            name, src_state = out.value
            base = "Person" if op[1] in ("Person", "Engineer", "Manager") else op[1]
            pk = tuple(dict(op[2])[a] for a in pkattrs(op[1]))
            present = pre.get((base, pk, None))
            if src_state != "transient":
                problems.append(("merge attached its source object", src_state))
            if present and name != present[0] and still_holds(w, present[0], (base, pk, None)):
                problems.append(("merge returned a different object than the one in the identity map", "%r vs %r" % (name, present[0])))
        if kind == "merge_all" and out.ok:
            # merge_all "calls Session.merge on multiple instances": (e) per source, and sources that carry one
            # identity resolve to ONE object (there is never more than one object for an identity key)
            names, src_states = out.value
            base = "Person" if op[1] in ("Person", "Engineer", "Manager") else op[1]
            first = {}
            for values, name, src_state in zip(op[2], names, src_states):
                key = (base, tuple(dict(values)[a] for a in pkattrs(op[1])), None)
                present = pre.get(key)
                if src_state != "transient" or name == "src":
                    problems.append(("merge_all attached a source object", "%s %s" % (name, src_state)))
                if present and name != present[0] and still_holds(w, present[0], key):
                    problems.append(("merge_all returned a different object than the one in the identity map", "%r vs %r" % (name, present[0])))
                if first.setdefault(key, name) != name:
                    problems.append(("merge_all returned two different objects for one identity", "%r: %r and %r" % (key[1], first[key], name)))
                r = w.weak.get(name)
                o = r() if r is not None else None
                if o is None or inspect(o).session is not w.session:
                    problems.append(("merge_all returned an object that is not in the session", repr(name)))
        # ---- bookkeeping
        m2 = ms.copy()
        m2.held = tuple(n for n in sorted(w.objs, key=lambda n: (n.startswith("b"), n)))
        m2.cls = dict(w.cls)
        m2.nborn = w.nborn
        m2.nsp = len(w.sps)
        terminal = not out.ok and out.is_sa_error and not w.session.is_active
        canon = None
        if not problems and not terminal:
            canon = (W.deep_canon(w), w.rev_next)  # rev_next: Doc's revision counter is part of the state
        changed = snapshot_map(w) != pre or (out.ok and kind in ("query", "query_iter", "get", "merge", "merge_all") and bool(out.value))
        info["identity_map_before"] = {repr(k): v for k, v in pre.items()}
        return problems, m2, canon, info, terminal, changed
    finally:
        w.close()


def make_step(cfg, rec):
    def step(hist_, ms, op):
        problems, m2, canon, info, terminal, changed = check_step(cfg, hist_, ms, op)
        rec.case((cfg["world"], cfg["eoc"], ms.canon(), hist_[-2:], op), nontrivial=changed)
        rec.outcome((op[0], info["outcome"].split(":")[0], info["statements"] if op[0] == "get" else None))
        if problems:
            sig, detail = problems[0]
            case = dict(world=cfg["world"], eoc=cfg["eoc"], history=[list(h) for h in hist_], op=list(op))
            rec.violation("C34 %s" % sig, "%s\nhistory: %s\nop: %s\nobserved: %s" % (detail, case["history"], list(op), info), case)
            return None
        if terminal:
            rec.count("histories ending in a failed flush (not continued)")
            return None
        if changed and len(hist_) >= 2:
            rec.sample(dict(world=cfg["world"], history=[list(h) for h in hist_], op=list(op), result=info["value"], statements=info["statements"]), limit=3)
        return m2, (cfg["world"], cfg["eoc"], m2.canon(), canon)

    return step


# ------------------------------------------------------------------ driver


def shards(tier, seed):
    return [None]  # one shard; the level-synchronous BFS runs its own fork pool


SHARD_TIMEOUT = dict(quick=4 * 3600, thorough=12 * 3600)  # watchdog only; the box may be heavily overloaded
WARM = dict(
    plain=[("query", "Plain"), ("get", "Plain", 3), ("add_known", "z", "auto"), ("set", "b1", "name", "w"), ("flush",), ("merge", "Plain", (("id", 1), ("name", "m"))), ("refresh", "b1"), ("delete_live", "b2"), ("commit",), ("get", "Plain", 1)],
    poly=[("query", "Person"), ("get", "Engineer", 1), ("add_known", "e", "auto"), ("flush",), ("refresh", "b1"), ("delete_live", "b2"), ("commit",), ("get", "Manager", 2)],
    doc=[("query", "Doc"), ("set", "b1", "name", "b"), ("flush",), ("get", "Doc", (1, 2)), ("set", "b1", "id", 7), ("commit",), ("get", "Doc", (1, 1)), ("merge", "Doc", (("id", 1), ("rev", 1), ("name", "m"))), ("refresh", "b2"), ("rollback",)],
    natural=[("query", "NNode"), ("set", "b1", "code", "k4"), ("add_known", "n", "auto"), ("begin_nested",), ("sp_commit",), ("commit",), ("get", "NNode", "k4"), ("delete_live", "b2"), ("flush",), ("rollback",)],
)


def run_shard(shard, tier, rec):
    jobs = W.jobs_from_argv()
    try:
        for world in WORLD_ORDER:
            for eoc in EOCS[tier]:
                cfg = make_cfg(world, eoc)
                ms0 = Light(cfg)
                w0 = build(cfg, ())
                try:
                    key0 = (world, eoc, ms0.canon(), (W.deep_canon(w0), w0.rev_next))
                finally:
                    w0.close()
                depth = DEPTH[tier][world]
                d = W.explore_levels(
                    rec,
                    ID,
                    [((), ms0, key0)],
                    lambda ms, world=world, tier=tier: enabled(ms, world, tier),
                    lambda r, cfg=cfg: make_step(cfg, r),
                    depth,
                    jobs,
                    warm=[(cfg, WARM[world])],
                    ctx=dict(world=world, eoc=eoc),
                )
                rec.count("depth completed %s eoc=%s" % (world, eoc), d)
    finally:
        W.cleanup()


def _tuplify(x):
    if isinstance(x, list):
        return tuple(_tuplify(i) for i in x)
    return x


def replay(case):
    if case.get("kind") == "hang":  # recorded by the per-step watchdog: re-run the step without a limit
        case = dict(case.get("ctx") or {}, history=case["history"], op=case["op"])
    gc.disable()
    try:
        cfg = make_cfg(case["world"], case["eoc"])
        hist_ = tuple(_tuplify(h) for h in case["history"])
        problems, _, _, info, _, _ = check_step(cfg, hist_, Light(cfg), _tuplify(case["op"]))
        return [("C34 " + s, "%s\nobserved: %s" % (d, info)) for s, d in problems[:1]]
    finally:
        W.cleanup()
        gc.enable()
