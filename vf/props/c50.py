"""C50 ordering_list and association-proxy collections vs their builtin collection types.

Two worlds (vf/worlds/collworld.py):

``ol``  ``Slide.bullets`` = ordering_list("position") in four configurations
        (count_from 0 / 1, custom ordering function 10,20,30.., and
        reorder_on_append=True).  Every list operation of C38's argument
        domain is applied to the OrderingList and to a plain list of the same
        Bullet objects.  Oracle: same contents / return value / exception as
        list, and afterwards ``bullet.position == ordering_func(index)`` for
        every member (documented exemption: append/extend/+= leave an
        already-numbered entity alone unless reorder_on_append); in the
        ``loaded`` route (persisted, expired, lazily re-loaded inside a
        Session) the rows read back with raw SQL ``ORDER BY position`` and the
        re-loaded collection are in the in-memory order.

``ap``  ``Owner.lvals`` (list proxy), ``Owner.svals`` (set proxy),
        ``Owner.dvals`` (dict proxy with creator) and ``Owner.gmembers``
        (proxy of a proxy).  Every list / set / dict operation is applied to
        the proxy and to a plain list / set / dict of the proxied values.
        Oracle: same contents / return value / exception; the intermediary
        objects mirror the proxy (``[i.val for i in owner.litems]``); in the
        ``persistent`` route the association rows read with raw SQL after
        flush equal the proxy contents, and so does the re-loaded proxy.

Minimal signatures as in C38 (failure class re-enumerated in global
simplest-first order).

Mutations caught (each in a private copy of lib/, ``VF_REPO=... ./check C50``; all gave new VIOLATION signatures):

* ``OrderingList.insert`` / ``pop`` / ``__delitem__``: the ``self._reorder()`` call dropped (three separate edits)
* ``OrderingList.remove``: ``adapter._referenced_by_owner`` test inverted
* ``count_from_1``: returns 0 for index 0
* ``OrderingList._order_entity``: ``and not reorder`` dropped (numbered entities never renumbered)
* ``_AssociationList.remove``: ``return`` after the deletion replaced by ``break`` (falls into ``raise ValueError``)
* ``_AssociationSet.add``: membership test dropped (duplicate intermediary objects / rows)
* ``_AssociationDict.setdefault``: returns the default for a present key
* ``_AssociationSet.intersection_update``: ``remove, add`` swapped
* ``_AssociationList.pop``: index ignored
* ``_AssociationDict.popitem``: returns the intermediary object instead of the value
* ``_AssociationList.__delitem__``: deletes with ``list.__delitem__`` (no events: rows stay, caught by the raw-SQL check)

Genuine defects found on the unchanged tree (reported; /verif/proposed_fixes/c50_*.diff and c38_slice.diff / c38_imul.diff):
ordering_list: ``coll[-1] = x`` stores position -1, ``reverse()`` / ``sort()`` do not renumber, slice assignment and
``*= 0`` inherit the C38 defects; association proxies: list slice assignment (clamping, negative / zero step),
``insert()`` with an out-of-range negative index, ``*= -1``, ``extend(self)`` / ``+= self`` never terminate,
dict proxy ``pop(key, default)`` on a missing key, missing ``|=``, set proxy ``-= self``.
"""
from __future__ import annotations

from collections import Counter

import sqlalchemy as sa
from sqlalchemy.orm import Session

from ..worlds import collworld as cw
from . import c38

ID = "C50"
LEVEL = "model_checking"
META = dict(
    engine="H",
    technique="bounded exhaustive operation histories (<=2 ops, every argument of a closed domain) on the real "
    "OrderingList / association proxy collections, reference model (builtin list/set/dict + position function + "
    "raw-SQL row model) in lock-step",
    design_ref="DESIGN.md §5 C50",
    level_text="ordering_list (count_from 0/1, custom ordering function, reorder_on_append) of size 0-4 and list/set/dict/"
    "proxy-of-proxy association proxies with 0-4 values are driven through every list/set/dict operation of C38's "
    "argument domain (all indices -6..6, all slices, replacement sequences 0-3, set/dict argument kinds), directly and "
    "after one prefix operation, both on transient objects and on objects persisted and lazily re-loaded in a Session. "
    "After each operation the collection is compared with the builtin collection type, positions with "
    "ordering_func(index), intermediary objects and raw-SQL association rows with the proxy contents, and the "
    "re-loaded collection with the in-memory one.",
    level_note="Trusted: builtin list/set/dict, the 15-line expected-position rule, raw SQL reads. Histories are <=2 "
    "operations over the closed argument domain; the state after the first operation is whatever the implementation "
    "produced (a prefix that already violates the invariant is reported at depth 1 and not continued). Operations the "
    "documentation declares unsupported (proxy list reverse()/sort()) and ones that create duplicate members in an "
    "ordering list are outside the alphabet.",
    rule="state = (world, configuration, route, contents, positions); transition = one operation instance applied to a "
    "freshly rebuilt state on the implementation and on the model; non-trivial = the model's contents changed or it "
    "raised; every transition is executed on the real objects (trace validated)",
    assumptions=[
        "ordering_list: entities are appended with position None unless the case says otherwise (token m has a preset position)",
        "association proxy values are str or None; creators are the default single-argument constructor / (key, value) creator",
        "SQLite in-memory database per process, every case rolled back",
    ],
    bounds=dict(
        quick="sizes 0-4; full depth-1 argument domain on transient objects; reduced domain for depth-2 and for the Session/flush/reload route",
        thorough="full argument domain at depth 2 (transient); Session/flush/reload route: all four ordering_list configurations, full argument domain at depth 1 for count_from=1, reorder_on_append and the list/set/dict proxies; sizes 0-4 everywhere",
    ),
)

_ENGINE = None


def engine():
    global _ENGINE
    if _ENGINE is None:
        _ENGINE = cw.new_engine()
    return _ENGINE


# tokens -> proxied string values
SVAL = dict(k0="a", k1="b", k2="c", k3="d", k4="e", x="X", y="Y", z="Z", w="a", u="U", v="V", o="O", m="M")
OL_TOKS = ("k0", "k1", "k2", "k3", "k4", "x", "y", "z", "u", "v", "m")


class Univ:
    """what c38.R needs: .obj token -> value"""

    def __init__(self, obj):
        self.obj = obj


class View:
    """parent-like view: .kids is the collection attribute (get / set go through the real attribute)"""

    def __init__(self, owner, name):
        object.__setattr__(self, "_o", owner)
        object.__setattr__(self, "_n", name)

    @property
    def kids(self):
        return getattr(self._o, self._n)

    @kids.setter
    def kids(self, value):
        setattr(self._o, self._n, value)


def _run(base, h, op, univ):
    r = c38.R(univ, h.kids)
    try:
        if op[0] == "reorder":
            return h.kids.reorder() if hasattr(h.kids, "reorder") else None, None
        return c38.apply_op(base, h, op, r), None
    except cw.Runaway as e:
        return None, e
    except Exception as e:  # noqa: BLE001
        return None, e


def _canon_ret(ret, target, tokof):
    if ret is target:
        return ["self"]
    if isinstance(ret, list):
        return ["list", [tokof(o) for o in ret]]
    if isinstance(ret, tuple):
        return ["tuple", [tokof(o) for o in ret]]
    if isinstance(ret, (set, frozenset)):
        return ["set", sorted(str(tokof(o)) for o in ret)]
    if isinstance(ret, dict):
        return ["dict", sorted((k, tokof(v)) for k, v in ret.items())]
    return ["val", tokof(ret)]


# ------------------------------------------------------------------ ordering list


def _ol_canon(coll, tokof):
    return [tokof(b) for b in coll]


def run_ol(case):
    variant, route, size, prefix, op = case["variant"], case["route"], case["size"], case.get("prefix") or [], case["op"]
    w = cw.world()
    Slide, Bullet = w.ol[variant]
    obj = {t: Bullet(text=t) for t in OL_TOKS}
    obj["m"].position = 7
    tok = {id(o): t for t, o in obj.items()}

    def tokof(o):
        if o is None or isinstance(o, (int, bool, str)):
            return o
        return tok.get(id(o), "?")

    univ = Univ(obj)
    s = Slide()
    s.bullets = [obj["k%d" % i] for i in range(size)]
    sess = None
    problems = []
    info = dict(nontrivial=False, plain_outcome="ok", outcome=None, skipped=None)
    try:
        if route == "loaded":
            sess = Session(engine())
            sess.add(s)
            sess.flush()
            sess.expire(s)
        h = View(s, "bullets")
        for pf in prefix:
            _run("list", h, pf, univ)
        coll = s.bullets
        before = list(coll)
        before_pos = {id(b): b.position for b in obj.values()}
        f = lambda i: cw.expected_position(variant, i)  # noqa: E731
        if any(b.position != f(i) for i, b in enumerate(before)) or len({id(b) for b in before}) != len(before):
            info["skipped"] = "prefix left an inconsistent state (reported at depth 1)"
            return problems, info
        plain = list(before)
        ph = c38.Holder(plain)
        p_ret, p_exc = _run("list", ph, op, univ)
        plain_after = ph.kids
        i_ret, i_exc = _run("list", h, op, univ)
        pcls = type(p_exc).__name__ if p_exc is not None else "ok"
        icls = type(i_exc).__name__ if i_exc is not None else "ok"
        info["plain_outcome"] = pcls
        now = s.bullets
        exp = [tokof(b) for b in plain_after]
        got = [tokof(b) for b in now]
        info["nontrivial"] = bool(exp != [tokof(b) for b in before] or p_exc is not None)
        if pcls != icls:
            problems.append(("result", "list gives %s, ordering list gives %s%s" % (pcls if p_exc is not None else "no error", icls if i_exc is not None else "no error", " (%s)" % i_exc if i_exc is not None else "")))
        elif now is not coll:
            problems.append(("result", "attribute no longer holds the same collection object"))
        elif got != exp:
            problems.append(("result", "contents %s, list gives %s" % (got, exp)))
        elif p_exc is None and _canon_ret(p_ret, plain_after, tokof) != _canon_ret(i_ret, now, tokof):
            problems.append(("result", "returned %s, list returns %s" % (_canon_ret(i_ret, now, tokof), _canon_ret(p_ret, plain_after, tokof))))
        # positions
        if not problems:
            name = op[0].split("@")[0]
            keep = name in ("append", "extend", "iadd") and variant != "roa"
            exp_pos = []
            for i, b in enumerate(now):
                if p_exc is not None:
                    exp_pos.append(before_pos[id(b)])
                elif keep and before_pos[id(b)] is not None:
                    exp_pos.append(before_pos[id(b)])
                else:
                    exp_pos.append(f(i))
            got_pos = [b.position for b in now]
            if got_pos != exp_pos:
                problems.append(("position", "positions %s for %s, expected %s" % (got_pos, got, exp_pos)))
            consistent = exp_pos == [f(i) for i in range(len(now))]
            if not problems and sess is not None and i_exc is None:
                try:
                    sess.flush()
                except Exception as e:  # noqa: BLE001
                    problems.append(("persist", "flush raised %s: %s" % (type(e).__name__, str(e)[:120])))
                else:
                    tname = Bullet.__table__.name
                    rows = sess.execute(sa.text("select text, position from %s where slide_id = :i order by position, id" % tname), dict(i=s.id)).all()
                    if consistent:
                        if [r[0] for r in rows] != got or [r[1] for r in rows] != exp_pos:
                            problems.append(("persist", "rows ordered by position %s, in-memory %s" % ([tuple(r) for r in rows], list(zip(got, exp_pos)))))
                    elif sorted(tuple(r) for r in rows) != sorted(zip(got, exp_pos)):
                        problems.append(("persist", "rows %s, in-memory %s" % (sorted(tuple(r) for r in rows), sorted(zip(got, exp_pos)))))
                    if not problems and consistent:
                        sess.expire(s)
                        re_ = [tokof(b) for b in s.bullets]
                        if re_ != got:
                            problems.append(("persist", "re-loaded order %s, in-memory order was %s" % (re_, got)))
        info["outcome"] = ("ol", variant, route, op[0], pcls, icls, len(before), len(exp))
        info["before"] = [tokof(b) for b in before]
        info["after"] = list(zip(got, [b.position for b in now]))
        return problems, info
    finally:
        if sess is not None:
            sess.rollback()
            sess.close()


# ------------------------------------------------------------------ association proxies

AP_KINDS = dict(lvals=("list", "litems", "ap_litem"), gmembers=("list", "member_objs", "ap_member"), svals=("set", "sitems", "ap_sitem"), dvals=("dict", "ditems", "ap_ditem"))

AP_INIT = dict(
    list=[[], ["a"], ["a", "b"], ["a", "b", "a"], ["a", "b", "c", "d"]],
    set=[[], ["a"], ["a", "b"], ["a", "b", "c"], ["a", "b", "c", "d"]],
    dict=[[], [["a", "A"]], [["a", "A"], ["b", "B"]], [["a", "A"], ["b", "B"], ["c", "A"]], [["a", "A"], ["b", "B"], ["c", "C"], ["d", None]]],
)


def _ap_plain(base, proxy):
    if base == "list":
        return list(proxy)
    if base == "set":
        return set(proxy)
    return dict(proxy.items())


def _ap_canon(base, c):
    if base == "list":
        return list(c)
    if base == "set":
        return sorted(c, key=repr)
    return [[k, v] for k, v in c.items()]


def run_ap(case):
    kind, route, init, prefix, op = case["kind"], case["route"], case["init"], case.get("prefix") or [], case["op"]
    base, relname, table = AP_KINDS[kind]
    w = cw.world()
    Owner, Group = w.ap["Owner"], w.ap["Group"]
    univ = Univ(dict(SVAL))
    cw.CREATED[0] = 0
    o = Owner()
    holder = o
    if kind == "gmembers":
        o.group = Group()
        holder = o.group
    content = AP_INIT[base][init]
    if kind == "gmembers":
        o.group.members.extend(content)
    elif base == "list":
        o.lvals = list(content)
    elif base == "set":
        o.svals = set(content)
    else:
        o.dvals = {k: v for k, v in content}
    sess = None
    problems = []
    info = dict(nontrivial=False, plain_outcome="ok", outcome=None, skipped=None)
    ident = lambda x: x if (x is None or isinstance(x, (str, int, bool))) else "<%s>" % type(x).__name__  # noqa: E731
    try:
        if route == "persistent":
            sess = Session(engine())
            sess.add(o)
            sess.flush()
        h = View(o, kind)
        for pf in prefix:
            cw.CREATED[0] = 0
            _run(base, h, pf, univ)
        proxy = h.kids
        plain = _ap_plain(base, proxy)
        before = _ap_canon(base, plain)
        ph = c38.Holder(plain)
        p_ret, p_exc = _run(base, ph, op, univ)
        plain_after = ph.kids
        cw.CREATED[0] = 0
        i_ret, i_exc = _run(base, h, op, univ)
        is_setpop = base == "set" and op[0] == "pop"
        if is_setpop and p_exc is None and i_exc is None:
            plain_after = set(x for x in before)
            if i_ret in plain_after:
                plain_after.discard(i_ret)
                p_ret = i_ret
        pcls = type(p_exc).__name__ if p_exc is not None else "ok"
        icls = type(i_exc).__name__ if i_exc is not None else "ok"
        info["plain_outcome"] = pcls
        now = h.kids
        exp = _ap_canon(base, plain_after)
        got = _ap_canon(base, _ap_plain(base, now))
        info["nontrivial"] = bool(exp != before or p_exc is not None)
        if pcls != icls:
            problems.append(("result", "%s gives %s, proxy gives %s%s" % (base, pcls if p_exc is not None else "no error", icls if i_exc is not None else "no error", " (%s)" % str(i_exc)[:100] if i_exc is not None else "")))
        elif now is not proxy:
            problems.append(("result", "attribute no longer returns the same proxy collection"))
        elif got != exp and not (p_exc is not None and got == before):
            # (when both raise the same error, the proxy may also have left the contents untouched)
            problems.append(("result", "contents %s, %s gives %s" % (got, base, exp)))
        elif p_exc is None and _canon_ret(p_ret, plain_after, ident) != _canon_ret(i_ret, now, ident):
            problems.append(("result", "returned %s, %s returns %s" % (_canon_ret(i_ret, now, ident), base, _canon_ret(p_ret, plain_after, ident))))
        elif len(now) != len(got):
            problems.append(("result", "len() %d, %s has %d" % (len(now), base, len(plain_after))))
        if not problems:
            # intermediary objects mirror the proxy
            col = getattr(holder, relname)
            if base == "dict":
                under = [[k, v.val] for k, v in col.items()]
                bad = under != got or any(k != v.key for k, v in col.items())
            elif base == "set":
                under = sorted((i.val for i in col), key=repr)
                bad = under != got
            else:
                under = [getattr(i, "val" if kind == "lvals" else "name") for i in col]
                bad = under != got
            if bad:
                problems.append(("intermediary", "intermediary objects %s, proxy %s" % (under, got)))
        if not problems and sess is not None and i_exc is None:
            try:
                sess.flush()
            except Exception as e:  # noqa: BLE001
                problems.append(("persist", "flush raised %s: %s" % (type(e).__name__, str(e)[:120])))
            else:
                fk = "group_id" if kind == "gmembers" else "owner_id"
                pid = holder.id
                if base == "dict":
                    rows = sess.execute(sa.text("select key, val from %s where %s = :i" % (table, fk)), dict(i=pid)).all()
                    r = sorted([list(x) for x in rows], key=repr)
                    e_ = sorted(got, key=repr)
                else:
                    col_ = "name" if kind == "gmembers" else "val"
                    rows = sess.execute(sa.text("select %s from %s where %s = :i order by id" % (col_, table, fk)), dict(i=pid)).all()
                    r = sorted((x[0] for x in rows), key=repr)
                    e_ = sorted(got, key=repr)
                orphans = sess.execute(sa.text("select count(*) from %s where %s is null" % (table, fk))).scalar()
                if r != e_:
                    problems.append(("persist", "association rows %s, proxy contents %s" % (r, e_)))
                elif orphans:
                    problems.append(("persist", "%d association rows left without owner" % orphans))
                else:
                    sess.expire_all()
                    re_ = _ap_canon(base, _ap_plain(base, getattr(o, kind)))
                    if sorted(re_, key=repr) != sorted(got, key=repr):
                        problems.append(("persist", "re-loaded proxy %s, in-memory %s" % (re_, got)))
        info["outcome"] = ("ap", kind, route, op[0], pcls, icls, len(before), len(exp))
        info["before"] = before
        info["after"] = got
        return problems, info
    finally:
        if sess is not None:
            sess.rollback()
            sess.close()


def run_case(case):
    return run_ol(case) if case["world"] == "ol" else run_ap(case)


# ------------------------------------------------------------------ domains


def _no_dup_value(v):
    """ordering-list alphabet: argument never (re-)adds a current member"""
    if isinstance(v, str):
        return v not in ("k0", "k1", "k2", "k3", "k4", "o", "w")
    if isinstance(v, list) and v and v[0] in ("list", "tuple", "iter"):
        toks = v[1]
        return all(_no_dup_value(t) for t in toks) and len(set(toks)) == len(toks)
    if isinstance(v, list) and v and v[0] == "self":
        return False
    return True


def ol_families(full):
    fams = c38.list_families(full)
    out = {}
    for fam, ops in fams.items():
        keep = []
        for sub, op in ops:
            n = op[0]
            if n.startswith("imul") and op[1] >= 2:
                continue
            if n in ("append", "extend", "insert", "setitem", "setslice", "iadd", "iadd@attr"):
                if not all(_no_dup_value(a) for a in op[1:]):
                    continue
            if n in ("remove", "index", "count", "contains") and op[1] in ("o", "w"):
                continue
            keep.append((sub, op))
        out[fam] = keep
    out["append"] += [("preset", ["append", "m"])]
    out["insert"] += [("", ["insert", i, "m"]) for i in (0, 1, -1, 5)]
    out["setitem"] += [("", ["setitem", i, "m"]) for i in (0, -1)]
    out["extend"] += [("preset", ["extend", ["list", ["m", "x"]]]), ("preset", ["extend", ["list", ["x", "m"]]])]
    out["iadd"] += [("preset", ["iadd", ["list", ["m"]]])]
    out["setslice"] += [("simple", ["setslice", [0, 1, None], ["list", ["m", "x"]]])]
    out["misc"] += [("reorder", ["reorder"])]
    return out


def ap_families(base, full):
    if base == "list":
        fams = c38.list_families(full)
        fams["misc"] = [(s, o) for s, o in fams["misc"] if o[0] not in ("sort", "reverse")]  # documented as unsupported
        return fams
    if base == "set":
        return c38.set_families(full)
    return c38.dict_families(full)


OL_PREFIX = [["append", "u"], ["pop"], ["insert", 0, "u"], ["delitem", 0], ["setslice", [0, 1, None], ["list", ["u", "v"]]], ["setitem", -1, "u"], ["remove", "k0"], ["clear"]]
AP_PREFIX = dict(
    list=[["append", "u"], ["pop"], ["insert", 0, "u"], ["delitem", 0], ["setslice", [0, 1, None], ["list", ["u", "v"]]], ["setitem", -1, "u"], ["clear"]],
    set=c38.PREFIX["set"],
    dict=c38.PREFIX["adict"],
)



def _full(tier, route, depth, cfg=None):
    """full (C38) argument domain or the reduced one"""
    if tier == "thorough":
        if route == "transient":
            return True
        # Session / flush / reload route: full domain at depth 1 for two ordering_list configurations and the
        # plain list / set / dict proxies; the remaining configurations share the code path and get the reduced domain
        return depth == 1 and cfg in ("cf1", "roa", "lvals", "svals", "dvals")
    return depth == 1 and route == "transient"


def _db(route):
    return route in ("loaded", "persistent")


def groups(tier):
    """(world, configuration, route) work groups of a tier, canonical order"""
    out = []
    for v in cw.OL_VARIANTS:
        out.append(("ol", v, "transient"))
    for v in ("cf1", "roa", "cf0", "tens"):  # same relative order in both tiers (minimal signatures)
        if tier == "quick" and v not in ("cf1", "roa"):
            continue
        out.append(("ol", v, "loaded"))
    for r in ("transient", "persistent"):
        for k in AP_KINDS:
            out.append(("ap", k, r))
    return out


def group_cases(world, cfg, route, family, tier, part=0, parts=1):
    """global simplest-first order within one (world, configuration, route, family)"""
    unit = 0
    quick_db = tier == "quick" and _db(route)
    if quick_db and family in ("getslice", "getitem"):
        return
    for depth in (1, 2):
        full = _full(tier, route, depth, cfg)
        small = quick_db or (depth == 2 and tier == "quick")
        if world == "ol":
            ops = ol_families(full)[family]
            prefixes = [None] if depth == 1 else (OL_PREFIX[:3] if quick_db else OL_PREFIX)
            inits = [("size", s) for s in ((0, 2, 3) if small else range(0, 5))]
        else:
            base = AP_KINDS[cfg][0]
            ops = ap_families(base, full).get(family, [])
            prefixes = [None] if depth == 1 else (AP_PREFIX[base][:3] if quick_db else AP_PREFIX[base])
            n = len(AP_INIT[base])
            inits = [("init", i) for i in ((0, 2, 3) if small else range(n))]
        nchunks = 1 if parts == 1 else max(1, min(8, len(ops) // 400))
        for _k, iv in inits:
            for pf in prefixes:
                for c in range(nchunks):
                    unit += 1
                    if unit % parts != part:
                        continue
                    for sub, op in ops[c::nchunks] if nchunks > 1 else ops:
                        if world == "ol":
                            case = dict(world="ol", variant=cfg, route=route, size=iv, op=op)
                        else:
                            case = dict(world="ap", kind=cfg, route=route, init=iv, op=op)
                        if pf is not None:
                            case["prefix"] = [pf]
                        yield sub, case


def shards(tier, seed):
    out = []
    for world, cfg, r in groups(tier):
        fams = ol_families(True) if world == "ol" else ap_families(AP_KINDS[cfg][0], True)
        for fam in fams:
            if tier == "quick" and _db(r) and fam in ("getslice", "getitem"):
                continue
            parts = 1
            if fam == "setslice":
                parts = 24 if tier == "thorough" else (8 if not _db(r) else 4)
            elif fam in ("getslice", "delslice") and tier == "thorough":
                parts = 6
            for i in range(parts):
                out.append([world, cfg, r, fam, i, parts])
    return out


# ------------------------------------------------------------------ signatures / driver

# generous watchdog: the box is shared; a shard is 2-40 s of CPU on an idle core
SHARD_TIMEOUT = dict(quick=1800, thorough=7200)

_MIN = {}


def describe(case):
    if case["world"] == "ol":
        s = "ordering_list[%s %s size %d]" % (case["variant"], case["route"], case["size"])
    else:
        base = AP_KINDS[case["kind"]][0]
        s = "proxy %s[%s %s]" % (case["kind"], case["route"], AP_INIT[base][case["init"]])
    for pf in case.get("prefix") or []:
        s += " after %s" % c38._opstr(pf)
    return s + " " + c38._opstr(case["op"])


def _oclass(family, plain_outcome):
    if family == "setslice":
        return "*"
    return "ok" if plain_outcome == "ok" else "raises"


def minimal(world, cfg, route, family, sub, oclass, aspect, tier, trigger):
    """first failing case of the failure class; configurations and routes are searched in their
    canonical order so that a root cause common to several configurations gets one signature"""
    key = (world, cfg if world == "ap" else "*", family, sub, oclass, aspect, tier)
    if key in _MIN:
        return _MIN[key]
    found = None
    if world == "ol":
        grps = [(v, r) for _w, v, r in groups(tier) if _w == "ol"]
    else:
        grps = [(cfg, r) for r in ("transient", "persistent")]
    # the quick domain is searched first in every tier, so that both tiers report the same signature
    for t in ("quick", tier) if tier != "quick" else ("quick",):
        if world == "ol":
            grps = [(v, r) for _w, v, r in groups(t) if _w == "ol"]
        for g_cfg, g_route in grps:
            if aspect == "persist" and not _db(g_route):
                continue
            for s2, case in group_cases(world, g_cfg, g_route, family, t):
                if s2 != sub:
                    continue
                problems, info = run_case(case)
                if info["skipped"] or _oclass(family, info["plain_outcome"]) != oclass:
                    continue
                hit = [p for p in problems if p[0] == aspect]
                if hit:
                    found = (case, hit[0][1])
                    break
            if found:
                break
        if found:
            break
    if found is None:
        found = trigger
    _MIN[key] = found
    return found


def run_shard(shard, tier, rec):
    world, cfg, route, family, part, parts = shard
    cw.world()
    sampled = 0
    for sub, case in group_cases(world, cfg, route, family, tier, part, parts):
        problems, info = run_case(case)
        rec.transition()
        rec.trace()
        if info["skipped"]:
            rec.count("skipped_inconsistent_prefix")
            continue
        rec.case(repr(sorted(case.items(), key=str)), nontrivial=info["nontrivial"])
        setpop = case["op"][0] == "pop" and world == "ap" and AP_KINDS[cfg][0] == "set"  # member chosen depends on addresses
        if not problems and info["outcome"][5] == "ok":
            # (after an error the partial result of a set operation depends on iteration order, i.e. on addresses)
            rec.state(("after", world, cfg, repr(info.get("after")) if not setpop else len(info.get("after") or ())))
        rec.outcome(info["outcome"])
        rec.count("cases_" + world)
        if route in ("loaded", "persistent"):
            rec.count("cases_with_flush_and_reload")
        if problems:
            oclass = _oclass(family, info["plain_outcome"])
            for aspect, text in problems:
                mcfg = cfg
                if cfg == "gmembers":
                    # same _AssociationList class: report under lvals when the case fails there too
                    p2, _i = run_case(dict(case, kind="lvals"))
                    if any(a == aspect for a, _t in p2):
                        mcfg = "lvals"
                mcase, mtext = minimal(world, mcfg, route, family, sub, oclass, aspect, tier, (dict(case, kind=mcfg) if world == "ap" else case, text))
                sig = "%s: %s -> %s" % (aspect, describe(mcase), mtext)
                rec.violation(sig, "failure class (%s, %s, %s, %s, builtin %s); first seen at: %s -> %s" % (world, family, sub or "-", aspect, oclass, describe(case), text), mcase)
        elif info["nontrivial"] and sampled < 1 and info["plain_outcome"] == "ok" and not setpop:
            sampled += 1
            rec.sample(dict(case=describe(case), before=info["before"], after=info["after"]), limit=8)


def replay(case):
    problems, info = run_case(case)
    return [("%s: %s -> %s" % (a, describe(case), t), "builtin outcome %s; before %s after %s" % (info["plain_outcome"], info.get("before"), info.get("after"))) for a, t in problems]
