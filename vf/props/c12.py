"""C12 bulk INSERT (+RETURNING, sort_by_parameter_order): one row per parameter set, in order.

Engine F (answer enumeration) + I.  Every case = (table/sentinel style, engine
configuration, route, row count n, insertmanyvalues_page_size) is executed on
SQLite through ``vf.engines.permproxy``: once with the order SQLite itself
answers in (which also tells how the statement was batched) and then once for
**every** answer a server without ordering guarantee may give, i.e. every
combination of permutations of every batch's RETURNING rows.

Oracle (the property statement, checked behaviourally through *markers*: the
n-th parameter set carries ``data = marker[n]``, markers / supplied keys are
deliberately non-monotonic so that no accidental sort repairs a wrong order):

* the table contains every parameter set exactly once (markers as a multiset,
  supplied keys next to their marker, python scalar / callable / SQL-expression
  / server defaults present, callable default invoked once per row);
* with ``sort_by_parameter_order`` the n-th returned row, the n-th
  ``inserted_primary_key_rows`` / ``returned_defaults_rows`` entry, the n-th ORM
  object's identity, the n-th bulk mapping's key belong to the n-th parameter
  set (looked up in the table by that key -> marker n);
* without it the returned rows are the parameter sets as a multiset;
* where the configuration cannot give the guarantee, the documented outcome
  (a downgrade to row-at-a-time - observable as 1-row statements - or the
  documented InvalidRequestError for an explicit sentinel the dialect cannot
  use, with nothing inserted) must occur; any other exception is a violation.

Heterogeneous key sets (ORM bulk routes): insert(Entity) with / without
returning(sort_by_parameter_order) and bulk_insert_mappings(return_defaults) scan
every dictionary and emit one INSERT per run of same-keyed dictionaries; every
sequence of n<=4 (quick) / n<=6 (thorough) parameter sets over the key-set kinds
A={data}, B={data,opt}, C={data,opt2} is executed for a single-table entity
(autoincrement / client UUID key) and a joined-inheritance entity whose optional
keys sit on the sub-table (parent rows one run, child rows several), again under
every answer order; the n-th returned entity / row / mapping must carry marker,
key AND optional columns of the n-th parameter set.

A second, compile-level part drives the real
``SQLCompiler._deliver_insertmanyvalues_batches`` of statements compiled for
postgresql (pyformat / numeric_dollar / format), mysql+mariadb (format) and
mssql (qmark) - which cannot execute here - and interprets every produced
batch with a tiny VALUES-clause reader: resolving each placeholder of the i-th
VALUES tuple against the batch's parameters must give back the i-th parameter
set of that batch, batches concatenated give the parameter list exactly once,
in order, the embedded ``sen_counter`` is 0..k-1 and the sentinel values handed
to the result sorter are those of the same rows.

Harness configurations (labelled in every case key / sample): ``stock`` is the
SQLite dialect as shipped (implicit sentinels NOT_SUPPORTED -> autoincrement
keys downgrade); ``maria`` sets ``dialect.insertmanyvalues_implicit_sentinel``
on the SQLite dialect *instance* to MariaDB's value (ANY_AUTOINCREMENT);
``mssql`` sets it to AUTOINCREMENT|IDENTITY|USE_INSERT_FROM_SELECT (SQL
Server's; PostgreSQL's minus bind casts) and lets the proxy translate the one
bit of syntax SQLite lacks (column list on a subquery alias); ``worv`` sets
``use_insertmanyvalues_wo_returning`` as psycopg2 / mssql do.  These drive the
autoincrement-sentinel branches of the real batching / sorting code with
permuted answers; SQLite assigns rowids in VALUES / ORDER BY order, which is
the server-side assumption those dialects document.

Mutations caught (each in a private copy, VF_REPO=/tmp/wt-dml):
  1. engine/default.py _deliver_insertmanyvalues_batches: implicit sentinel
     ``sorted(rows, key=itemgetter(-1))`` -> ``rows`` (sort dropped)
  2. engine/default.py: ``for sentinel_keys in imv_batch.sentinel_values`` ->
     ``for sentinel_keys in sorted(rows_by_sentinel)`` (ordered by sentinel
     value instead of parameter order)
  3. sql/compiler.py _deliver_insertmanyvalues_batches:
     ``compiled_batches[0:batch_size] = []`` -> ``[0 : batch_size - 1]``
     (off-by-one in the compiled/sentinel slice)
  4. sql/compiler.py: last short batch dropped (``while batches`` ->
     ``while len(batches) >= batch_size or ...first``)
  5. engine/default.py: ``_scalar_sentinel_proc`` result processor not applied
     (Uuid sentinel can no longer be matched)
  6. sql/compiler.py: downgrade condition ``imv.sentinel_columns is None``
     removed (batched without sentinel while order was requested)
  7. sql/compiler.py: ``"_IMV_VALUES_COUNTER", str(i)`` -> ``str(0)`` in the
     embedded counter of the INSERT..SELECT form (caught by the compile-level
     interpreter; SQLite's stable ORDER BY hides it in execution)
  8. sql/compiler.py named branch: ``param[key]`` -> ``batch[0][key]`` (first
     row's values for every row of a batch)
  9. sql/compiler.py numeric branch: ``end = ... + start`` -> ``... + start - 1``
 10. orm/persistence.py _emit_insert_statements: ``return_result.splice_vertically(result)``
     -> ``result.splice_vertically(return_result)`` (per-key-set groups concatenated in
     reverse; caught only by the heterogeneous key-set routes: single table ->
     returned-order, joined inheritance -> an entity carrying another row's key)
 11. orm/persistence.py: records sorted by key set before the groupby (A,B,A
     collapsed into two statements, rows returned group-wise)
     (not property-breaking, correctly silent: splice_horizontally operands swapped -
     ORM returning resolves columns by identity, not position)
"""
from __future__ import annotations

import itertools
import re
import uuid as _uuid
import warnings

import sqlalchemy as sa
from sqlalchemy import Column
from sqlalchemy import insert
from sqlalchemy import insert_sentinel
from sqlalchemy import Integer
from sqlalchemy import literal
from sqlalchemy import MetaData
from sqlalchemy import select
from sqlalchemy import String
from sqlalchemy import Table
from sqlalchemy import text
from sqlalchemy import Uuid
from sqlalchemy import exc as sa_exc
from sqlalchemy.dialects import registry as _dialect_registry
from sqlalchemy.orm import registry as _orm_registry
from sqlalchemy.orm import Session
from sqlalchemy.pool import StaticPool
from sqlalchemy.sql.compiler import InsertmanyvaluesSentinelOpts as Opts

from ..engines import permproxy

ID = "C12"
LEVEL = "fault_enumeration"
META = dict(
    engine="F+I",
    technique="environment-answer enumeration (every permutation of every batch's RETURNING rows through a proxy DBAPI) "
    "x small-scope input enumeration, marker oracle; compile-level batch interpreter for non-executable dialects",
    design_ref="DESIGN.md §5 C12",
    level_text="For every table/sentinel style x engine configuration x route (Core returning / return_defaults / plain, "
    "ORM add_all / insert(Entity).returning / bulk_insert_mappings, SQLite upsert) x row count x page size the real "
    "executemany INSERT runs on SQLite once per possible answer order of every batch (complete: all permutations, all "
    "batches combined), and markers tie each returned row / primary key / object to its parameter set and to the stored "
    "row. Complete for the stated bound, so any mis-slicing, mis-sorting or mis-matching expressible with <=5 (quick) / "
    "<=7 (thorough) rows is found.",
    level_note="Trusted: the proxy (row permutation only), the marker oracle, SQLite assigning rowids in VALUES order. "
    "PostgreSQL / MariaDB / SQL Server servers are absent: their sentinel flag sets are applied to a SQLite dialect "
    "instance (labelled maria / mssql configurations) and their own compiled statements are checked by interpreting the "
    "batches the real batcher yields, not by execution.",
    rule="case = (table style, engine configuration, route, n, page size, page-size channel); evaluated once per answer "
    "plan (product over batches of all permutations); non-trivial = the statement was really batched with >=2 rows in a "
    "batch and an answer different from SQLite's own order was served; or (no RETURNING) the rows were sliced into >=2 multi-VALUES "
    "statements; or, compile-level, a batch with >=2 rows",
    assumptions=[
        "a server may return the RETURNING rows of one INSERT statement in any order, but returns exactly the inserted rows",
        "server-generated integer keys are allocated in VALUES (resp. ORDER BY sen_counter) order - the documented assumption "
        "of the dialects whose flags are emulated",
        "row count 0 is excluded: an empty parameter list is deprecated misuse (SADeprecationWarning), not an executemany",
    ],
    bounds=dict(
        quick="n in 1..5, page in {1,2,3,4,1000}; all answer plans (<=120 per case); 13 table styles x 13 engine configurations x 10 routes; "
        "compile-level: n in 2..5, page in {1,2,3,1000}, 6 dialect/paramstyle pairs x 5 table styles x 3 routes; heterogeneous key "
        "sets: all sequences of 2..4 parameter sets over 3 key-set kinds x 3 entities (incl. joined inheritance) x 4 engine "
        "configurations x 4 ORM bulk routes, page in {2,1000} (joined: {2})",
        thorough="n in 1..6 with page in {1,2,3,4,5,1000} and n=7 with page in {1,2,3,4} (all answer plans, <=720 per case); "
        "compile-level: n<=7; heterogeneous key sets: all sequences of 2..6 parameter sets (page 2 for n>=5; joined: pages {2,3} for n<=4)",
    ),
)
SHARD_TIMEOUT = dict(quick=300, thorough=1800)

for _n, _c in (("pysqlite_numeric", "_SQLiteDialect_pysqlite_numeric"), ("pysqlite_dollar", "_SQLiteDialect_pysqlite_dollar")):
    _dialect_registry.register("sqlite." + _n, "sqlalchemy.dialects.sqlite.pysqlite", _c)

# ------------------------------------------------------------------ world

MARKERS = ("m3", "m0", "m6", "m2", "m5", "m1", "m4")  # non-monotonic on purpose
GIVEN_INT = (40, 10, 70, 20, 60, 30, 50)
GIVEN_STR = ("k4", "k1", "k7", "k2", "k6", "k3", "k5")
_UUID_SEQ = (0x9F, 0x12, 0xE0, 0x33, 0xC4, 0x05, 0x7A, 0x51, 0xB8, 0x26, 0x6D, 0x48, 0xF1, 0x0B, 0xA3, 0x84)


class _Gen:
    """deterministic client-side generators; reset before every execution"""

    def __init__(self):
        self.reset()

    def reset(self):
        self.n_uuid = 0
        self.n_str = 0
        self.n_pc = 0

    def uuid(self):
        i = self.n_uuid
        self.n_uuid += 1
        return _uuid.UUID(int=(_UUID_SEQ[i % 16] << 64) + (i // 16 << 8) + 7)

    def sid(self):
        i = self.n_str
        self.n_str += 1
        return "s%02x" % ((i * 37 + 11) % 101)

    def pc(self):
        self.n_pc += 1
        return self.n_pc


GEN = _Gen()
MD = MetaData()
ORM = _orm_registry()


def _dflt_cols():
    return [
        Column("px", Integer, default=5),
        Column("pc", Integer, default=GEN.pc),
        Column("sx", Integer, default=literal(3) + literal(4)),
        Column("sd", Integer, server_default=text("9")),
    ]


class TCfg:
    def __init__(self, name, table, given=None, key=("id",), dflt=False, style="", explicit_server_sentinel=False, orm=True):
        self.name, self.table, self.given, self.key, self.dflt = name, table, given or {}, key, dflt
        self.style = style
        self.explicit_server_sentinel = explicit_server_sentinel
        self.cls = None
        if orm:
            self.cls = type("E_" + name, (object,), {})
            ORM.map_imperatively(self.cls, table)


def _mk_tables():
    T = {}

    def add(cfg):
        T[cfg.name] = cfg

    add(TCfg("auto", Table("c12_auto", MD, Column("id", Integer, primary_key=True), Column("data", String)), style="autoincrement PK (server generated)"))
    add(TCfg("auto_dflt", Table("c12_auto_dflt", MD, Column("id", Integer, primary_key=True), Column("data", String), *_dflt_cols()), dflt=True, style="autoincrement PK + python/callable/SQL/server defaults"))
    add(TCfg("auto_given", Table("c12_auto_given", MD, Column("id", Integer, primary_key=True), Column("data", String)), given={"id": GIVEN_INT}, style="autoincrement-capable PK, values supplied"))
    add(TCfg("uuid", Table("c12_uuid", MD, Column("id", Uuid(), primary_key=True, default=GEN.uuid), Column("data", String)), style="client-side UUID PK (callable default, typed)"))
    add(TCfg("uuid_dflt", Table("c12_uuid_dflt", MD, Column("id", Uuid(), primary_key=True, default=GEN.uuid), Column("data", String), *_dflt_cols()), dflt=True, style="client-side UUID PK + defaults"))
    add(TCfg("str_given", Table("c12_str_given", MD, Column("id", String, primary_key=True), Column("data", String)), given={"id": GIVEN_STR}, style="string PK supplied"))
    add(TCfg("composite", Table("c12_composite", MD, Column("a", String, primary_key=True), Column("b", Integer, primary_key=True, autoincrement=False), Column("data", String)), given={"a": ("x", "y", "x", "y", "x", "y", "x"), "b": (3, 3, 1, 2, 2, 1, 4)}, key=("a", "b"), style="composite client-side PK"))
    add(TCfg("sent_fn", Table("c12_sent_fn", MD, Column("id", Integer, primary_key=True), Column("data", String), insert_sentinel("sent")), style="insert_sentinel() helper column"))
    add(TCfg("sent_fn_dflt", Table("c12_sent_fn_dflt", MD, Column("id", Integer, primary_key=True), Column("data", String), *_dflt_cols(), insert_sentinel("sent")), dflt=True, style="insert_sentinel() helper column + defaults"))
    add(TCfg("sent_col_given", Table("c12_sent_col_given", MD, Column("id", Integer, primary_key=True), Column("data", String), Column("sid", Integer, insert_sentinel=True, nullable=False)), given={"sid": GIVEN_INT}, style="Column(insert_sentinel=True), user-populated"))
    add(TCfg("sent_col_cb", Table("c12_sent_col_cb", MD, Column("id", Integer, primary_key=True), Column("data", String), Column("sid", String, insert_sentinel=True, default=GEN.sid)), style="Column(insert_sentinel=True), callable default"))
    add(TCfg("auto_explicit", Table("c12_auto_explicit", MD, Column("id", Integer, primary_key=True, insert_sentinel=True), Column("data", String)), explicit_server_sentinel=True, style="autoincrement PK explicitly marked insert_sentinel"))
    add(TCfg("nopk", Table("c12_nopk", MD, Column("id", Integer), Column("data", String)), given={"id": GIVEN_INT}, orm=False, style="no primary key, no sentinel"))
    return T


TABLES = _mk_tables()

# engine configurations: name -> (url, paramstyle kw, implicit-sentinel flags or None, rewrite, wo_returning)
_MSSQL = Opts.AUTOINCREMENT | Opts.IDENTITY | Opts.USE_INSERT_FROM_SELECT
ECFG = {
    "stock-qmark": ("sqlite://", None, None, False, False),
    "stock-named": ("sqlite://", "named", None, False, False),
    "stock-dollar": ("sqlite+pysqlite_dollar://", None, None, False, False),
    "maria-qmark": ("sqlite://", None, Opts.ANY_AUTOINCREMENT, False, False),
    "maria-named": ("sqlite://", "named", Opts.ANY_AUTOINCREMENT, False, False),
    "maria-numeric": ("sqlite+pysqlite_numeric://", None, Opts.ANY_AUTOINCREMENT, False, False),
    "mssql-qmark": ("sqlite://", None, _MSSQL, True, False),
    "mssql-named": ("sqlite://", "named", _MSSQL, True, False),
    "mssql-dollar": ("sqlite+pysqlite_dollar://", None, _MSSQL, True, False),
    "worv-qmark": ("sqlite://", None, None, False, True),
    "worv-named": ("sqlite://", "named", None, False, True),
    "maxp-qmark": ("sqlite://", None, Opts.ANY_AUTOINCREMENT, False, False),
    "maxp-named": ("sqlite://", "named", Opts.ANY_AUTOINCREMENT, False, True),
}
# maxp: dialect.insertmanyvalues_max_parameters scaled down (SQL Server's 2099-parameter limit is the real user of
# this knob) so that the parameter-count based batch-size reduction is what slices the batches
MAXP = {"maxp-qmark": 9, "maxp-named": 9}
ROUTES = ("core_ret", "core_ret_idfirst", "core_unsorted", "core_rd", "core_plain", "orm_add_all", "orm_insert_ret", "orm_insert_plain", "orm_bulk_map", "upsert_ret")


def make_engine(ename, page, via):
    url, pstyle, flags, rewrite, worv = ECFG[ename]
    px = permproxy.Proxy(rewrite=permproxy.rewrite_values_alias if rewrite else None)
    kw = dict(module=px, poolclass=StaticPool)
    if pstyle:
        kw["paramstyle"] = pstyle
    if via == "engine":
        kw["insertmanyvalues_page_size"] = page
    eng = sa.create_engine(url, **kw)
    if flags is not None:
        eng.dialect.insertmanyvalues_implicit_sentinel = flags
    if worv:
        eng.dialect.use_insertmanyvalues_wo_returning = True
    if ename in MAXP:
        eng.dialect.insertmanyvalues_max_parameters = MAXP[ename]
    return eng, px


def param_sets(tc, n):
    out = []
    for i in range(n):
        d = {"data": MARKERS[i]}
        for k, vals in tc.given.items():
            d[k] = vals[i]
        out.append(d)
    return out


def _applicable(tc, ename, route):
    if route.startswith("orm") and tc.cls is None:
        return False
    if ename.startswith("worv") and route not in ("core_plain", "orm_insert_plain"):
        return False
    if ename == "maxp-named" and route not in ("core_plain", "core_ret", "orm_add_all", "orm_insert_plain"):
        return False
    if route == "upsert_ret" and tc.name not in ("auto_given", "str_given", "composite"):
        return False
    return True


# ------------------------------------------------------------------ one execution


class Obs:
    __slots__ = ("error", "returned", "pk_rows", "rd_rows", "obj_keys", "stored", "batches", "applied", "stmts")


def _keyvals(tc, row_mapping):
    return tuple(row_mapping[k] for k in tc.key)


class Runner:
    """one case = one fresh engine + database; every answer plan of the case is executed on it after emptying the
    table (rowids restart, client-side generators are reset), i.e. each plan sees what a new database would show"""

    def __init__(self, tc, ename, route, n, page, via):
        self.args = (tc, ename, route, n, page, via)
        self.eng, self.px = make_engine(ename, page, via)
        with warnings.catch_warnings():
            warnings.simplefilter("ignore")
            tc.table.create(self.eng)
        self.first = True

    def close(self):
        self.eng.dispose()

    def run(self, plan):
        tc, ename, route, n, page, via = self.args
        eng, px = self.eng, self.px
        GEN.reset()
        o = Obs()
        o.error = o.returned = o.pk_rows = o.rd_rows = o.obj_keys = None
        t = tc.table
        params = param_sets(tc, n)
        with warnings.catch_warnings():
            warnings.simplefilter("ignore")
            with eng.connect() as conn:
                if not self.first:
                    conn.exec_driver_sql("DELETE FROM %s" % t.name)
                    conn.commit()
                self.first = False
                if via == "execopt":
                    conn = conn.execution_options(insertmanyvalues_page_size=page)
                if route == "upsert_ret":
                    # pre-existing rows for the odd parameter sets: those take the DO UPDATE path
                    pre = [dict(p, data="old") for i, p in enumerate(params) if i % 2 == 1]
                    if pre:
                        conn.execute(insert(t), pre)
                px.reset(plan)
                try:
                    _do_route(o, tc, conn, eng, route, params)
                except (sa_exc.SQLAlchemyError, AssertionError, KeyError, IndexError, TypeError, ValueError) as e:  # implementation failure / documented error
                    o.error = e
                o.batches = tuple(px.batches)
                o.applied = tuple(px.applied)
                o.stmts = [(k, s_, len(p_)) for k, s_, p_ in px.log if s_ is not None and s_.lstrip().upper().startswith("INSERT")]
                px.reset()
                if conn.in_transaction() and o.error is not None:
                    conn.rollback()
                o.stored = [dict(r._mapping) for r in conn.execute(select(t))]
                conn.rollback()
        return o


def run_once(tc, ename, route, n, page, via, plan):
    """execute one case with one answer plan on a fresh engine/database; returns Obs"""
    r = Runner(tc, ename, route, n, page, via)
    try:
        return r.run(plan)
    finally:
        r.close()


def _do_route(o, tc, conn, eng, route, params):
    t = tc.table
    keycols = [t.c[k] for k in tc.key]
    if route == "core_ret":
        r = conn.execute(insert(t).returning(t.c.data, *keycols, sort_by_parameter_order=True), params)
        o.returned = [(row[0], tuple(row[1:])) for row in r.all()]
    elif route == "core_ret_idfirst":
        # key first, every column of the table afterwards (sentinel column possibly twice in RETURNING)
        r = conn.execute(insert(t).returning(*keycols, t, sort_by_parameter_order=True), params)
        nk = len(keycols)
        o.returned = [(row._mapping[t.c.data], tuple(row[:nk])) for row in r.all()]
    elif route == "core_unsorted":
        r = conn.execute(insert(t).returning(t.c.data, *keycols), params)
        o.returned = [(row[0], tuple(row[1:])) for row in r.all()]
    elif route == "core_rd":
        r = conn.execute(insert(t).return_defaults(sort_by_parameter_order=True), params)
        if tc.key == ("id",) or tc.key == ("a", "b"):
            if t.primary_key.columns:
                o.pk_rows = [tuple(x) for x in r.inserted_primary_key_rows]
        rd = r.returned_defaults_rows
        if rd is not None:
            o.rd_rows = [dict(x._mapping) if x is not None else None for x in rd]
    elif route == "core_plain":
        conn.execute(insert(t), params)
    elif route == "upsert_ret":
        from sqlalchemy.dialects.sqlite import insert as sqlite_insert

        st = sqlite_insert(t)
        st = st.on_conflict_do_update(index_elements=keycols, set_={"data": st.excluded.data})
        r = conn.execute(st.returning(t.c.data, *keycols, sort_by_parameter_order=True), params)
        o.returned = [(row[0], tuple(row[1:])) for row in r.all()]
    elif route in ("orm_add_all", "orm_insert_ret", "orm_insert_plain", "orm_bulk_map"):
        with Session(bind=conn) as s:
            if route == "orm_add_all":
                objs = []
                for p in params:
                    ob = tc.cls()
                    for k, v in p.items():
                        setattr(ob, k, v)
                    objs.append(ob)
                s.add_all(objs)
                s.flush()
                o.obj_keys = [(ob.__dict__.get("data"), tuple(ob.__dict__.get(k) for k in tc.key)) for ob in objs]
            elif route == "orm_insert_plain":
                s.execute(insert(tc.cls), params)
            elif route == "orm_insert_ret":
                res = s.execute(insert(tc.cls).returning(tc.cls, sort_by_parameter_order=True), params)
                o.obj_keys = [(ob.data, tuple(getattr(ob, k) for k in tc.key)) for ob in res.scalars().all()]
            else:
                maps = [dict(p) for p in params]
                s.bulk_insert_mappings(tc.cls, maps, return_defaults=True)
                o.obj_keys = [(mp.get("data"), tuple(mp.get(k) for k in tc.key)) for mp in maps]
            s.commit()
    else:
        raise AssertionError(route)


class _Skip(Exception):
    pass


# ------------------------------------------------------------------ oracle


def expected_error_allowed(tc, ename):
    """documented: an autoincrement column explicitly marked insert_sentinel=True raises
    InvalidRequestError on a dialect that cannot use server-generated keys as sentinels"""
    return tc.explicit_server_sentinel and ECFG[ename][2] is None


def check(tc, ename, route, n, params, o):
    """returns list of (kind, detail); [] = property holds on this execution"""
    out = []
    markers = [p["data"] for p in params]
    sorted_route = route not in ("core_unsorted", "core_plain", "orm_insert_plain")
    if o.error is not None:
        if isinstance(o.error, sa_exc.InvalidRequestError) and expected_error_allowed(tc, ename) and route not in ("core_plain", "core_unsorted"):
            if o.stored:
                out.append(("error-but-rows-inserted", "documented InvalidRequestError raised but table holds %r" % (o.stored,)))
            return out
        out.append(("unexpected-error", "%s: %s" % (type(o.error).__name__, str(o.error)[:300])))
        return out
    # ---- table contents: every parameter set exactly once
    got = sorted(r["data"] for r in o.stored)
    if got != sorted(markers):
        out.append(("table-contents", "stored markers %r, parameter sets %r" % (got, sorted(markers))))
        return out
    by_marker = {r["data"]: r for r in o.stored}
    for p in params:
        r = by_marker[p["data"]]
        for k, v in p.items():
            if r[k] != v:
                out.append(("stored-value", "parameter set %r stored as %r" % (p, r)))
                break
    if tc.dflt:
        pcs = sorted(r["pc"] for r in o.stored)
        if any(r["px"] != 5 or r["sx"] != 7 or r["sd"] != 9 for r in o.stored):
            out.append(("stored-defaults", "scalar/SQL/server defaults not applied: %r" % (o.stored,)))
        elif pcs != list(range(1, n + 1)):
            out.append(("callable-default-count", "callable default values %r, expected one invocation per row 1..%d" % (pcs, n)))
    if "sent" in tc.table.c:
        pass  # helper column: NULL or counter, not part of the statement's meaning
    key_of_marker = {r["data"]: tuple(r[k] for k in tc.key) for r in o.stored}
    if len(set(key_of_marker.values())) != len(o.stored) and tc.name != "nopk":
        out.append(("duplicate-keys", repr(o.stored)))
    # ---- returned rows
    for what, seq in (("returned", o.returned), ("object", o.obj_keys)):
        if seq is None:
            continue
        if len(seq) != n:
            out.append((what + "-count", "%d %s rows for %d parameter sets: %r" % (len(seq), what, n, seq)))
            continue
        if sorted_route:
            for i, (mk, key) in enumerate(seq):
                if mk != markers[i]:
                    out.append((what + "-order", "row %d is %r, parameter set %d has marker %r; all: %r" % (i, mk, i, markers[i], seq)))
                    break
                if key_of_marker[mk] != key:
                    out.append((what + "-key-mismatch", "row %d returns key %r but the stored row of %r has key %r" % (i, key, mk, key_of_marker[mk])))
                    break
        else:
            if sorted(seq) != sorted((mk, key_of_marker[mk]) for mk in markers):
                out.append((what + "-multiset", "returned %r, stored %r" % (seq, key_of_marker)))
    if o.pk_rows is not None:
        if len(o.pk_rows) != n:
            out.append(("pk-rows-count", "%d inserted_primary_key_rows for %d parameter sets" % (len(o.pk_rows), n)))
        else:
            for i, pk in enumerate(o.pk_rows):
                if key_of_marker[markers[i]] != pk:
                    out.append(("pk-rows-order", "inserted_primary_key_rows[%d]=%r but parameter set %d (%r) is stored under key %r; all: %r" % (i, pk, i, markers[i], key_of_marker[markers[i]], o.pk_rows)))
                    break
    if o.rd_rows is not None:
        if len(o.rd_rows) != n:
            out.append(("returned-defaults-count", "%d returned_defaults_rows for %d parameter sets" % (len(o.rd_rows), n)))
        else:
            for i, rd in enumerate(o.rd_rows):
                r = by_marker[markers[i]]
                bad = [c for c, v in (rd or {}).items() if getattr(c, "key", c) in r and r[getattr(c, "key", c)] != v]
                if bad:
                    out.append(("returned-defaults-order", "returned_defaults_rows[%d]=%r but parameter set %d is stored as %r" % (i, rd, i, r)))
                    break
    return out


def shape(o):
    """how the statement was executed: per INSERT statement, number of VALUES tuples ('m<k>' = DBAPI executemany of k)"""
    out = []
    for kind, sql, np_ in o.stmts:
        if kind == "executemany":
            out.append("m%d" % np_)
        else:
            i = sql.find("VALUES (")
            out.append(1 + sql.count("), (", i) if i >= 0 else 1)
    return tuple(out)


# ------------------------------------------------------------------ enumeration


def answer_plans(batches):
    """all combinations of permutations of every batch, identity first, fewer displaced batches first"""
    per = [list(itertools.permutations(range(b))) for b in batches]
    plans = []
    for combo in itertools.product(*per):
        plan = {k: list(p) for k, p in enumerate(combo) if list(p) != list(range(len(p)))}
        plans.append(plan)
    plans.sort(key=lambda pl: (len(pl), sorted(pl.items())))
    return plans


def n_pages(tier):
    if tier == "quick":
        return [(n, p) for n in range(1, 6) for p in (1, 2, 3, 4, 1000)]
    out = [(n, p) for n in range(1, 7) for p in (1, 2, 3, 4, 5, 1000)]
    out += [(7, p) for p in (1, 2, 3, 4)]
    return out


def shards(tier, seed):
    out = []
    for tname in TABLES:
        for ename in ECFG:
            out.append(("exec", tname, ename))
    for d in COMPILE_DIALECTS:
        out.append(("compile", d))
    for hname in HET:
        for ename in HET_ECFG:
            out.append(("het", hname, ename))
    return out


def _sig(kind, tname, ename, route, n, page, via, plan):
    return "%s: table=%s engine=%s route=%s n=%d page=%d via=%s answer=%s" % (
        kind, tname, ename, route, n, page, via, ",".join("%s:%s" % (k, "".join(map(str, v))) for k, v in sorted(plan.items())) or "as-is")


def run_shard(shard, tier, rec):
    if shard[0] == "compile":
        return run_compile_shard(shard[1], tier, rec)
    if shard[0] == "het":
        return run_het_shard(shard[1], shard[2], tier, rec)
    _, tname, ename = shard
    tc = TABLES[tname]
    for route in ROUTES:
        if not _applicable(tc, ename, route):
            continue
        for n, page in n_pages(tier):
            vias = ("engine", "execopt") if route in ("core_ret", "orm_add_all") else ("engine",)
            for via in vias:
                _run_case(rec, tc, tname, ename, route, n, page, via)


def _run_case(rec, tc, tname, ename, route, n, page, via):
    runner = Runner(tc, ename, route, n, page, via)
    try:
        base = runner.run({})
        params = param_sets(tc, n)
        plans = answer_plans(base.batches) if base.error is None else [{}]
        rec.outcome((tname, ename.split("-")[0], route, shape(base), type(base.error).__name__ if base.error else None))
        sh0 = shape(base)
        for plan in plans:
            o = base if not plan else runner.run(plan)
            pkey = tuple(sorted((k, tuple(v)) for k, v in plan.items()))
            nontrivial = (bool(plan) and len(o.applied) == len(plan)) or (
                not plan and not base.batches and len(sh0) >= 2 and any(isinstance(b, int) and b > 1 for b in sh0))
            rec.case((tname, ename, route, n, page, via, pkey), nontrivial=nontrivial)
            if plan and tuple(o.batches) != tuple(base.batches) and o.error is None:
                rec.violation(_sig("batching-depends-on-answer", tname, ename, route, n, page, via, plan), "batches %r vs %r" % (o.batches, base.batches),
                              dict(t=tname, e=ename, route=route, n=n, page=page, via=via, plan={str(k): v for k, v in plan.items()}), kind=("nd", tname, route))
            for kind, detail in check(tc, ename, route, n, params, o):
                rec.violation(_sig(kind, tname, ename, route, n, page, via, plan), detail + "\nstatements: %r" % (o.stmts[:4],),
                              dict(t=tname, e=ename, route=route, n=n, page=page, via=via, plan={str(k): v for k, v in plan.items()}),
                              kind=(kind, tname, ename, route))
            if nontrivial and len(plan) >= 2 and n == 5 and page == 2:
                rec.sample(dict(configuration=ename, table_style=tc.style, route=route, n=n, page=page, batches=list(o.batches),
                                answer_plan={str(k): v for k, v in plan.items()}, first_statement=o.stmts[0][1] if o.stmts else None,
                                returned=[list(map(str, x)) for x in (o.returned or o.obj_keys or [])][:5]), limit=2)
        rec.count("executions", len(plans))
        sh = shape(base)
        if any(isinstance(b, int) and b > 1 for b in sh):
            rec.count("cases_batched_multi_values")
        elif any(isinstance(b, str) for b in sh):
            rec.count("cases_dbapi_executemany")
        elif len(sh) > 1 or n == 1:
            rec.count("cases_row_at_a_time")
        if base.error is not None:
            rec.count("cases_documented_error")
    finally:
        runner.close()


def replay(case):
    if case.get("kind") == "compile":
        return replay_compile(case)
    if case.get("kind") == "het":
        return replay_het(case)
    tc = TABLES[case["t"]]
    plan = {int(k): list(v) for k, v in case["plan"].items()}
    n, page, via, route, ename = case["n"], case["page"], case["via"], case["route"], case["e"]
    runner = Runner(tc, ename, route, n, page, via)
    try:
        base = runner.run({})
        o = base if not plan else runner.run(plan)
    finally:
        runner.close()
    res = []
    if plan and tuple(o.batches) != tuple(base.batches) and o.error is None:
        res.append((_sig("batching-depends-on-answer", case["t"], ename, route, n, page, via, plan), "batches %r vs %r" % (o.batches, base.batches)))
    for kind, detail in check(tc, ename, route, n, param_sets(tc, n), o):
        res.append((_sig(kind, case["t"], ename, route, n, page, via, plan), detail + "\nstatements: %r" % (o.stmts[:4],)))
    return res


# ------------------------------------------------------------------ heterogeneous key sets (ORM bulk routes)
#
# session.execute(insert(Entity)[.returning(.., sort_by_parameter_order=True)], [dicts]) and bulk_insert_mappings scan
# every dictionary (documented) and emit one INSERT per *run* of dictionaries with the same key set; the per-run
# results are concatenated (Result.splice_vertically) and, for joined inheritance, the per-table results are put side
# by side (splice_horizontally).  Enumerated: every sequence of n parameter sets over three key-set kinds
# A={data} B={data,opt} C={data,opt2} (A,B,A etc. give >=2 runs), single-table entities (autoincrement / client UUID
# key) and a joined-inheritance entity whose optional keys live on the sub-table only (parent rows form ONE run while
# child rows form several), again under every answer order of every batch.

HET_KINDS = ("A", "B", "C")
HET_ROUTES = ("het_ret_entity", "het_ret_cols", "het_plain", "het_maps")
HET_ECFG = ("stock-qmark", "maria-qmark", "maria-named", "mssql-qmark")


class HCfg:
    def __init__(self, name, cls, tables, style):
        self.name, self.cls, self.tables, self.style = name, cls, tables, style


def _mk_het():
    H = {}
    t1 = Table("c12_het_auto", MD, Column("id", Integer, primary_key=True), Column("data", String), Column("opt", Integer), Column("opt2", Integer))
    c1 = type("H_auto", (object,), {})
    ORM.map_imperatively(c1, t1)
    H["het_auto"] = HCfg("het_auto", c1, [t1], "single table, autoincrement PK, optional keys opt/opt2")
    t2 = Table("c12_het_uuid", MD, Column("id", Uuid(), primary_key=True, default=GEN.uuid), Column("data", String), Column("opt", Integer), Column("opt2", Integer))
    c2 = type("H_uuid", (object,), {})
    ORM.map_imperatively(c2, t2)
    H["het_uuid"] = HCfg("het_uuid", c2, [t2], "single table, client-side UUID PK, optional keys opt/opt2")
    tp = Table("c12_het_jp", MD, Column("id", Integer, primary_key=True), Column("type", String), Column("data", String))
    tc_ = Table("c12_het_jc", MD, Column("id", Integer, sa.ForeignKey("c12_het_jp.id"), primary_key=True), Column("opt", Integer), Column("opt2", Integer))
    P = type("H_parent", (object,), {})
    C = type("H_child", (P,), {})
    ORM.map_imperatively(P, tp, polymorphic_on=tp.c.type, polymorphic_identity="p")
    ORM.map_imperatively(C, tc_, inherits=P, polymorphic_identity="c")
    H["het_joined"] = HCfg("het_joined", C, [tp, tc_], "joined inheritance, autoincrement PK on parent, optional keys on the sub-table only")
    return H


HET = _mk_het()


def het_params(seq):
    out = []
    for i, k in enumerate(seq):
        d = {"data": MARKERS[i]}
        if k == "B":
            d["opt"] = 100 + i
        elif k == "C":
            d["opt2"] = 200 + i
        out.append(d)
    return out


def het_sequences(nmax):
    for n in range(2, nmax + 1):
        yield from ("".join(x) for x in itertools.product(HET_KINDS, repeat=n))


def het_cases(tier, joined):
    """(sequence, page); the joined entity issues parent + child statements, its answer plans multiply: small pages only"""
    if tier == "quick":
        for seq in het_sequences(4):
            for page in ((2,) if joined else (2, 1000)):
                yield seq, page
    else:
        for seq in het_sequences(6):
            if len(seq) <= 4:
                pages = (2, 3) if joined else (2, 1000)
            else:
                pages = (2,)
            for page in pages:
                yield seq, page


class HetRunner:
    def __init__(self, hc, ename, route, seq, page):
        self.hc, self.ename, self.route, self.seq, self.page = hc, ename, route, seq, page
        self.eng, self.px = make_engine(ename, page, "engine")
        with warnings.catch_warnings():
            warnings.simplefilter("ignore")
            for t in hc.tables:
                t.create(self.eng)
        self.first = True

    def close(self):
        self.eng.dispose()

    def run(self, plan):
        hc, route = self.hc, self.route
        GEN.reset()
        o = Obs()
        o.error = o.returned = o.pk_rows = o.rd_rows = o.obj_keys = None
        params = het_params(self.seq)
        cls = hc.cls
        with warnings.catch_warnings():
            warnings.simplefilter("ignore")
            with self.eng.connect() as conn:
                if not self.first:
                    for t in reversed(hc.tables):
                        conn.exec_driver_sql("DELETE FROM %s" % t.name)
                    conn.commit()
                self.first = False
                self.px.reset(plan)
                try:
                    with Session(bind=conn) as s:
                        if route == "het_ret_entity":
                            res = s.execute(insert(cls).returning(cls, sort_by_parameter_order=True), params)
                            o.returned = [(ob.data, ob.id, ob.opt, ob.opt2) for ob in res.scalars().all()]
                        elif route == "het_ret_cols":
                            res = s.execute(insert(cls).returning(cls.opt2, cls.data, cls.id, cls.opt, sort_by_parameter_order=True), params)
                            o.returned = [(r[1], r[2], r[3], r[0]) for r in res.all()]
                        elif route == "het_plain":
                            s.execute(insert(cls), params)
                        elif route == "het_maps":
                            maps = [dict(p_) for p_ in params]
                            s.bulk_insert_mappings(cls, maps, return_defaults=True)
                            o.returned = [(m_.get("data"), m_.get("id"), m_.get("opt"), m_.get("opt2")) for m_ in maps]
                        else:
                            raise AssertionError(route)
                        s.commit()
                except (sa_exc.SQLAlchemyError, AssertionError, KeyError, IndexError, TypeError, ValueError, AttributeError) as e:
                    o.error = e
                o.batches = tuple(self.px.batches)
                o.applied = tuple(self.px.applied)
                o.stmts = [(k, s_, len(p_)) for k, s_, p_ in self.px.log if s_ is not None and s_.lstrip().upper().startswith("INSERT")]
                self.px.reset()
                if conn.in_transaction():
                    conn.rollback()
                if len(hc.tables) == 1:
                    t = hc.tables[0]
                    o.stored = [dict(r._mapping) for r in conn.execute(select(t.c.id, t.c.data, t.c.opt, t.c.opt2))]
                else:
                    tp, tc_ = hc.tables
                    o.stored = [dict(r._mapping) for r in conn.execute(select(tp.c.id, tp.c.data, tc_.c.opt, tc_.c.opt2, tc_.c.id.label("cid"), tp.c.type).select_from(tp.outerjoin(tc_, tp.c.id == tc_.c.id)))]
                conn.rollback()
        return o


def het_check(hc, route, seq, o):
    out = []
    params = het_params(seq)
    n = len(params)
    if o.error is not None:
        return [("unexpected-error", "%s: %s" % (type(o.error).__name__, str(o.error)[:300]))]
    want = sorted((p["data"], p.get("opt"), p.get("opt2")) for p in params)
    got = sorted((r["data"], r["opt"], r["opt2"]) for r in o.stored)
    if got != want:
        return [("table-contents", "stored (data, opt, opt2) %r, parameter sets %r" % (got, want))]
    if len(hc.tables) == 2 and any(r["cid"] != r["id"] or r["type"] != "c" for r in o.stored):
        return [("joined-rows", "parent/child rows not paired: %r" % (o.stored,))]
    key_of = {r["data"]: r["id"] for r in o.stored}
    if len(set(key_of.values())) != n:
        return [("duplicate-keys", repr(o.stored))]
    if o.returned is not None:
        if len(o.returned) != n:
            return [("returned-count", "%d returned for %d parameter sets: %r" % (len(o.returned), n, o.returned))]
        for i, (mk, key, opt, opt2) in enumerate(o.returned):
            p = params[i]
            if mk != p["data"]:
                out.append(("returned-order", "entry %d is %r, parameter set %d has marker %r; all: %r" % (i, mk, i, p["data"], o.returned)))
                break
            if key != key_of[mk]:
                out.append(("returned-key-mismatch", "entry %d (%r) carries key %r, its stored row has key %r; all: %r" % (i, mk, key, key_of[mk], o.returned)))
                break
            if route != "het_maps" and (opt, opt2) != (p.get("opt"), p.get("opt2")):
                out.append(("returned-columns-of-another-row", "entry %d (%r) carries opt/opt2 %r, parameter set %d has %r; all: %r" % (i, mk, (opt, opt2), i, (p.get("opt"), p.get("opt2")), o.returned)))
                break
    return out


def _hsig(kind, hname, ename, route, seq, page, plan):
    return "%s: entity=%s engine=%s route=%s keysets=%s page=%d answer=%s" % (
        kind, hname, ename, route, seq, page, ",".join("%s:%s" % (k, "".join(map(str, v))) for k, v in sorted(plan.items())) or "as-is")


def _runs(seq):
    return 1 + sum(1 for a, b in zip(seq, seq[1:]) if a != b)


def run_het_shard(hname, ename, tier, rec):
    hc = HET[hname]
    for route in HET_ROUTES:
        for seq, page in het_cases(tier, len(hc.tables) == 2):
            runner = HetRunner(hc, ename, route, seq, page)
            try:
                base = runner.run({})
                plans = answer_plans(base.batches) if base.error is None else [{}]
                rec.outcome((hname, ename, route, _runs(seq), shape(base), type(base.error).__name__ if base.error else None))
                for plan in plans:
                    o = base if not plan else runner.run(plan)
                    pkey = tuple(sorted((k, tuple(v)) for k, v in plan.items()))
                    rec.case(("het", hname, ename, route, seq, page, pkey), nontrivial=_runs(seq) >= 2)
                    case = dict(kind="het", h=hname, e=ename, route=route, seq=seq, page=page, plan={str(k): v for k, v in plan.items()})
                    if plan and tuple(o.batches) != tuple(base.batches) and o.error is None:
                        rec.violation(_hsig("batching-depends-on-answer", hname, ename, route, seq, page, plan), "batches %r vs %r" % (o.batches, base.batches), case, kind=("nd", hname, route))
                    for kind, detail in het_check(hc, route, seq, o):
                        rec.violation(_hsig(kind, hname, ename, route, seq, page, plan), detail + "\nstatements: %r" % (o.stmts[:6],), case, kind=(kind, hname, ename, route))
                    if seq == "ABA" and page == 2 and not plan and route == "het_ret_entity":
                        rec.sample(dict(configuration=ename, entity=hc.style, route=route, key_sets=seq, statements=[s_ for _, s_, _ in o.stmts], returned=[list(map(str, x)) for x in (o.returned or [])]), limit=1)
                rec.count("het_executions", len(plans))
                if _runs(seq) >= 2:
                    rec.count("het_cases_with_several_runs")
            finally:
                runner.close()


def replay_het(case):
    hc = HET[case["h"]]
    plan = {int(k): list(v) for k, v in case["plan"].items()}
    runner = HetRunner(hc, case["e"], case["route"], case["seq"], case["page"])
    try:
        base = runner.run({})
        o = base if not plan else runner.run(plan)
    finally:
        runner.close()
    res = []
    if plan and tuple(o.batches) != tuple(base.batches) and o.error is None:
        res.append((_hsig("batching-depends-on-answer", case["h"], case["e"], case["route"], case["seq"], case["page"], plan), "batches %r vs %r" % (o.batches, base.batches)))
    for kind, detail in het_check(hc, case["route"], case["seq"], o):
        res.append((_hsig(kind, case["h"], case["e"], case["route"], case["seq"], case["page"], plan), detail + "\nstatements: %r" % (o.stmts[:6],)))
    return res


# ------------------------------------------------------------------ compile-level part
#
# The real batcher of statements compiled for dialects that cannot execute
# here; each yielded batch is *interpreted* (placeholders resolved against the
# batch's parameters) and must denote exactly the parameter sets of its slice.

COMPILE_DIALECTS = {
    "postgresql+psycopg2": "pyformat",
    "postgresql+asyncpg": "numeric_dollar",
    "postgresql+pg8000": "format",
    "mysql+pymysql": "format",
    "mariadb+pymysql": "format",
    "mssql+pyodbc": "qmark",
}
COMPILE_TABLES = ("auto", "auto_given", "str_given", "composite", "nopk")
COMPILE_ROUTES = ("ret_sorted", "ret_unsorted", "plain")

_ELEM = re.compile(r"^(?:%\((?P<named>\w+)\)s|(?P<fmt>%s)|\$(?P<dollar>\d+)|(?P<q>\?)|:(?P<colon>\w+))(?:::[A-Z ]+(?:\(\d+\))?)?$")


class _BadSQL(Exception):
    pass


def _split_top(s):
    out, depth, cur = [], 0, ""
    for ch in s:
        if ch == "(":
            depth += 1
        elif ch == ")":
            depth -= 1
        if ch == "," and depth == 0:
            out.append(cur.strip())
            cur = ""
        else:
            cur += ch
    out.append(cur.strip())
    return out


def interpret_batch(sql, params):
    """-> (insert column names, list of {column: value} rows, list of counter values or None)"""
    m = re.match(r"INSERT INTO (\S+) \(([^)]*)\)", sql)
    if not m:
        raise _BadSQL("no INSERT column list: %r" % sql)
    cols = [c.strip().strip('"[]`') for c in m.group(2).split(",")]
    i = sql.find("VALUES (")
    if i < 0:
        raise _BadSQL("no VALUES: %r" % sql)
    j = i + len("VALUES ")
    tuples = []
    while True:
        if sql[j] != "(":
            raise _BadSQL("expected ( at %d: %r" % (j, sql))
        depth, k = 0, j
        while True:
            if sql[k] == "(":
                depth += 1
            elif sql[k] == ")":
                depth -= 1
                if depth == 0:
                    break
            k += 1
        tuples.append(sql[j + 1:k])
        if sql[k + 1:k + 3] == ", " and sql[k + 3:k + 4] == "(":
            j = k + 3
            continue
        rest = sql[k + 1:]
        break
    pos = [0]

    def resolve(el):
        mm = _ELEM.match(el)
        if not mm:
            if re.match(r"^\d+$", el):
                return ("lit", int(el))
            raise _BadSQL("unreadable VALUES element %r in %r" % (el, sql))
        if mm.group("named") is not None:
            return ("val", params[mm.group("named")])
        if mm.group("colon") is not None:
            return ("val", params[mm.group("colon")])
        if mm.group("dollar") is not None:
            return ("val", params[int(mm.group("dollar")) - 1])
        v = params[pos[0]]
        pos[0] += 1
        return ("val", v)

    resolved = [[resolve(el) for el in _split_top(t)] for t in tuples]
    positional_used = pos[0]
    names = None
    ms = re.search(r"^\) AS imp_sen\(([^)]*)\)", rest)
    if ms:
        names = [x.strip() for x in ms.group(1).split(",")]
        sel = re.search(r"SELECT (.*) FROM \(VALUES ", sql)
        selexprs = [re.sub(r"::.*$", "", x) for x in _split_top(sel.group(1))]
        if len(selexprs) != len(cols):
            raise _BadSQL("SELECT list %r does not fit column list %r" % (selexprs, cols))
    rows, counters = [], []
    for r in resolved:
        if names is not None:
            if len(r) != len(names):
                raise _BadSQL("VALUES tuple has %d elements, imp_sen declares %r" % (len(r), names))
            byname = dict(zip(names, r))
            rows.append({c: byname[e][1] for c, e in zip(cols, selexprs)})
            kind, cv = byname["sen_counter"]
            counters.append(cv if kind == "lit" else ("param", cv))
        else:
            if len(r) != len(cols):
                raise _BadSQL("VALUES tuple has %d elements for columns %r" % (len(r), cols))
            rows.append({c: v for c, (_, v) in zip(cols, r)})
    if isinstance(params, (tuple, list)) and not any(_ELEM.match(el) and _ELEM.match(el).group("dollar") for t in tuples for el in _split_top(t)):
        if positional_used != len(params):
            raise _BadSQL("%d positional placeholders but %d parameters" % (positional_used, len(params)))
    elif isinstance(params, (tuple, list)):
        nref = sum(1 for t in tuples for el in _split_top(t) if _ELEM.match(el))
        if nref != len(params):
            raise _BadSQL("%d numbered placeholders but %d parameters" % (nref, len(params)))
    return cols, rows, (counters if names is not None else None)


def compile_case(dname, tname, route, n, page):
    """-> (problems, info)"""
    from sqlalchemy.engine.url import make_url

    tc = TABLES[tname]
    t = tc.table
    d = make_url(dname + "://").get_dialect()(paramstyle=COMPILE_DIALECTS[dname])
    params = param_sets(tc, n)
    if route == "ret_sorted":
        st = insert(t).returning(t.c.data, sort_by_parameter_order=True)
    elif route == "ret_unsorted":
        st = insert(t).returning(t.c.data)
    else:
        st = insert(t)
    with warnings.catch_warnings():
        warnings.simplefilter("ignore")
        comp = st.compile(dialect=d, for_executemany=True, column_keys=list(params[0]))
    imv = comp._insertmanyvalues
    if imv is None:
        return [], dict(batched=False, why="dialect does not use insertmanyvalues for this statement")
    cps = [comp.construct_params(p, escape_names=False, _group_number=g) for g, p in enumerate(params, 1)]
    procs = comp._bind_processors
    if comp.positional:
        dbp = [tuple(procs[k](cp[k]) if k in procs else cp[k] for k in comp.positiontup) for cp in cps]
    else:
        esc = comp.escaped_bind_names
        dbp = [{esc.get(k, k): (procs[k](cp[k]) if k in procs else cp[k]) for k in cp} for cp in cps]
    problems = []
    sorted_req = imv.sort_by_parameter_order and bool(comp.effective_returning)
    batches = list(comp._deliver_insertmanyvalues_batches(str(comp), dbp, cps, None, page, sorted_req, None))
    seen = []
    sent_keys = imv.sentinel_param_keys
    for bi, b in enumerate(batches):
        lo = len(seen)
        try:
            cols, rows, counters = interpret_batch(b.replaced_statement, b.replaced_parameters)
        except _BadSQL as e:
            problems.append(("batch-unreadable", "batch %d: %s" % (bi, e)))
            break
        want = [{c: p[c] for c in cols} for p in params[lo:lo + len(rows)]]
        if rows != want:
            problems.append(("batch-rows", "batch %d denotes rows %r, parameter sets %d.. are %r\n%s\n%r" % (bi, rows, lo, want, b.replaced_statement, b.replaced_parameters)))
            break
        if counters is not None and counters != list(range(len(rows))):
            problems.append(("batch-counter", "batch %d embeds sen_counter %r for %d rows\n%s" % (bi, counters, len(rows), b.replaced_statement)))
            break
        if len(b.batch) != len(rows) or b.current_batch_size != len(rows) or list(b.batch) != dbp[lo:lo + len(rows)]:
            problems.append(("batch-bookkeeping", "batch %d: statement has %d rows, batch record %r size %r" % (bi, len(rows), list(b.batch), b.current_batch_size)))
            break
        if sent_keys and sorted_req:
            wants = [tuple(p[k] for k in sent_keys) for p in params[lo:lo + len(rows)]]
            gots = [tuple(x) if isinstance(x, tuple) else (x,) for x in b.sentinel_values]
            if gots != wants:
                problems.append(("batch-sentinels", "batch %d: sentinel values %r, rows have %r" % (bi, gots, wants)))
                break
        if b.batchnum != bi + 1 or b.total_batches != len(batches):
            problems.append(("batch-numbering", "batch %d reports %d/%d of %d" % (bi, b.batchnum, b.total_batches, len(batches))))
            break
        if len(rows) > 1 and sorted_req and not (imv.sentinel_columns is not None):
            problems.append(("batched-without-sentinel", "order requested, no sentinel, yet %d rows in one statement" % len(rows)))
            break
        if len(rows) > page:
            problems.append(("batch-too-large", "batch %d has %d rows, page size %d" % (bi, len(rows), page)))
            break
        seen.extend(rows)
    if not problems and len(seen) != n:
        problems.append(("rows-lost-or-duplicated", "%d parameter sets, batches denote %d rows" % (n, len(seen))))
    info = dict(batched=any(len(b.batch) > 1 for b in batches), nb=len(batches), implicit=imv.implicit_sentinel, counter=imv.embed_values_counter,
                sentinel=bool(imv.sentinel_columns), first=batches[0].replaced_statement if batches else None)
    return problems, info


def _csig(kind, dname, tname, route, n, page):
    return "compile %s: dialect=%s table=%s route=%s n=%d page=%d" % (kind, dname, tname, route, n, page)


def run_compile_shard(dname, tier, rec):
    nmax = 5 if tier == "quick" else 7
    for tname in COMPILE_TABLES:
        for route in COMPILE_ROUTES:
            for n in range(2, nmax + 1):
                for page in (1, 2, 3, 1000):
                    problems, info = compile_case(dname, tname, route, n, page)
                    rec.case(("compile", dname, tname, route, n, page), nontrivial=info.get("batched", False))
                    rec.outcome(("compile", dname, tname, route, info.get("batched"), info.get("implicit"), info.get("counter"), info.get("nb")))
                    rec.count("compile_cases")
                    if info.get("batched") and info.get("counter") and n == 3 and page == 2:
                        rec.sample(dict(configuration="compile-only " + dname, table_style=TABLES[tname].style, route=route, n=n, page=page, first_batch_statement=info["first"]), limit=1)
                    for kind, detail in problems:
                        rec.violation(_csig(kind, dname, tname, route, n, page), detail, dict(kind="compile", d=dname, t=tname, route=route, n=n, page=page), kind=(kind, dname, tname, route))


def replay_compile(case):
    problems, _ = compile_case(case["d"], case["t"], case["route"], case["n"], case["page"])
    return [(_csig(k, case["d"], case["t"], case["route"], case["n"], case["page"]), d) for k, d in problems]
