"""C07 IN / NOT IN with expanding parameters follows SQL semantics (engine I, + pair histories).

For every left operand (column holding NULL,1,2,3 / each of those as a bound literal), every value list of length
0..N over {NULL,1,2} (duplicates included), every 2-tuple list over {NULL,1,2}^2, the four forms in_ / not_in /
~in_ / ~not_in, the positions selected-value / WHERE / HAVING / CASE and the modes

    bound           expanding bind parameter, compiled cache off
    cached          the same through one engine-wide compiled cache (consecutive lists of different lengths, NULL
                    positions and emptiness re-bind one cached statement)
    literal_binds   values rendered into the SQL text
    literal_execute bindparam(expanding=True, literal_execute=True)
    pair            one statement object with a named expanding bindparam executed back-to-back with every ordered
                    pair of lists

the value SQLite returns for the SQLAlchemy statement must equal (a) the 3VL evaluation (vf.models.sql3vl) of the
explicit OR-of-equalities (its negation for the NOT forms) and (b) that explicit form itself executed on SQLite as
plain SQL text.  The renderings of postgresql / mysql / mssql / oracle (literal_binds) are executed on SQLite where
SQLite accepts them (a ``dual`` table exists for Oracle's empty set) and compared the same way; texts SQLite rejects
are counted as not executed.

Mutations caught (private copy of lib/, VF_REPO=/tmp/wt-sqlsem):
 * compiler.py visit_empty_set_op_expr: NOT IN branch returns the IN text ("NULL) AND (1 != 1")
 * sqlite/base.py visit_empty_set_expr: "WHERE 1!=1" -> "WHERE 1=1" (empty set yields a row)
 * elements.py BindParameter._negate_in_binary: expand_op not flipped (returns self unchanged)
 * compiler.py _literal_execute_expanding_parameter: drops the last value of the list (to_update / replacement built from values[:-1])
 * compiler.py visit_not_in_op_binary renders " IN " (override_operator dropped)
 * default_comparator.py: "not_in_op" registered with negate_op=not_in_op (double negation stays NOT IN)
"""
from __future__ import annotations

import itertools
import warnings

import sqlalchemy as sa

from ..models import sql3vl

ID = "C07"
LEVEL = "exploration"
META = dict(
    engine="I",
    technique="exhaustive small-scope enumeration of (left operand, value list, form, position, mode) executed on SQLite; "
    "3VL reference evaluator of the explicit OR-of-equalities plus the explicit SQL text executed side by side; all ordered "
    "list pairs re-bound on one cached statement",
    design_ref="DESIGN.md §5 C07",
    level_text="Every value list of length 0..3 (quick) / 0..4 (thorough) over {NULL,1,2}, every 2-tuple list of length 0..2 / "
    "0..3 over {NULL,1,2}^2, against every left value in {NULL,1,2,3} (column and literal), in 4 forms x 4 positions x 4 "
    "modes, and every ordered pair of lists back-to-back on one cached statement, is executed for real and compared as a "
    "three-valued value (TRUE/FALSE/NULL distinguished) with the OR-of-equalities. Exhaustive for the bound; the truth table "
    "of IN over a 3-value domain with NULL is covered completely by lists of length <=3.",
    level_note="Trusted: sql3vl's in/not_in (itself cross-checked against the explicit SQL executed on SQLite in every case). "
    "Other dialects' renderings are executed on SQLite only where SQLite accepts the text.",
    rule="case = (arity, left kind/value, list, form, position, mode); non-trivial = the list is empty, contains NULL or a "
    "duplicate, or the left operand is NULL (the cases where IN differs from naive membership)",
    assumptions=["SQLite 3.40 row values for tuple IN", "integer domain"],
    bounds=dict(
        quick="scalar lists <=3, tuple lists <=2, all ordered pairs of scalar lists <=3 (1600) and tuple lists <=1",
        thorough="scalar lists <=4, tuple lists <=3, all ordered pairs of scalar lists <=4 (14641) and tuple lists <=2",
    ),
)

LEFT = (None, 1, 2, 3)
VALS = (None, 1, 2)
FORMS = ("in", "not_in", "inv_in", "inv_not_in")
NEGATED = {"in": False, "not_in": True, "inv_in": True, "inv_not_in": False}
POSITIONS = ("value", "where", "having", "case")
MODES = ("bound", "cached", "literal_binds", "literal_execute")
DIALECTS = ("postgresql", "mysql", "mssql", "oracle")

md = sa.MetaData()
t = sa.Table("tin", md, sa.Column("id", sa.Integer, primary_key=True), sa.Column("x", sa.Integer), sa.Column("y", sa.Integer))
ROWS = [dict(id=i + 1, x=x, y=y) for i, (x, y) in enumerate(itertools.product(LEFT, VALS))]

_st = {}


def _env():
    if not _st:
        eng = sa.create_engine("sqlite://")
        md.create_all(eng)
        with eng.begin() as c:
            c.execute(t.insert(), ROWS)
            c.exec_driver_sql("CREATE TABLE dual (dummy VARCHAR(1))")
            c.exec_driver_sql("INSERT INTO dual VALUES ('X')")
        conn = eng.connect()
        _st["eng"] = eng
        _st["cached"] = conn
        _st["nocache"] = conn.execution_options(compiled_cache=None)
        _st["raw"] = conn.connection.driver_connection
        for d in DIALECTS:
            _st[d] = __import__("sqlalchemy.dialects." + d, fromlist=["dialect"]).dialect()
    return _st


def lists_upto(n, dom):
    for k in range(n + 1):
        yield from itertools.product(dom, repeat=k)


def bounds(tier):
    if tier == "quick":
        return dict(scalar=3, tuple_=2, pair_scalar=3, pair_tuple=1)
    return dict(scalar=4, tuple_=3, pair_scalar=4, pair_tuple=2)


def shards(tier, seed):
    b = bounds(tier)
    out = []
    for arity in (1, 2):
        for form in FORMS:
            out.append(["single", arity, form])
    npair = 16 if tier == "quick" else 48
    for form in FORMS:
        for p in range(npair):
            out.append(["pair", 1, form, p, npair])
        out.append(["pair", 2, form, 0, 1])
    return out


# ------------------------------------------------------------------ model


def model_ast(arity, left, lst, negated):
    """explicit OR-of-equalities; left: ('col',) or ('lit', v)"""
    if arity == 1:
        lx = ("col", "x") if left[0] == "col" else ("lit", left[1], "N")
        terms = [("eq", lx, ("lit", v, "N")) for v in lst]
    else:
        terms = [("and", ("eq", ("col", "x"), ("lit", v[0], "N")), ("eq", ("col", "y"), ("lit", v[1], "N"))) for v in lst]
    ast = ("or",) + tuple(terms) if terms else ("lit", False, "B")
    if len(terms) == 1:
        ast = terms[0]
    return ("not", ast) if negated else ast


def expected(arity, left, lst, negated):
    f = sql3vl.compile_ast(model_ast(arity, left, lst, negated))
    return [sql3vl.to_backend(f(r)) for r in ROWS]


def explicit_sql(arity, left, lst, negated):
    """the explicit form as plain SQL text + params (independent of SQLAlchemy)"""
    params = []
    terms = []
    for v in lst:
        if arity == 1:
            if left[0] == "col":
                terms.append("(x = ?)")
            else:
                terms.append("(? = ?)")
                params.append(left[1])
            params.append(v)
        else:
            terms.append("((x = ?) AND (y = ?))")
            params.extend(v)
    body = "(" + " OR ".join(terms) + ")" if terms else "0"
    if negated:
        body = "NOT " + body
    return "SELECT %s FROM tin ORDER BY id" % body, params


# ------------------------------------------------------------------ statements


def left_expr(arity, left):
    if arity == 2:
        return sa.tuple_(t.c.x, t.c.y)
    return t.c.x if left[0] == "col" else sa.literal(left[1], sa.Integer)


def in_expr(arity, left, form, values):
    """values: a python list, or a BindParameter"""
    lx = left_expr(arity, left)
    if form == "in":
        return lx.in_(values)
    if form == "not_in":
        return lx.not_in(values)
    if form == "inv_in":
        return ~lx.in_(values)
    return ~lx.not_in(values)


def statement(position, expr):
    if position == "value":
        return sa.select(t.c.id, expr.label("v")).order_by(t.c.id)
    if position == "where":
        return sa.select(t.c.id).where(expr).order_by(t.c.id)
    if position == "having":
        return sa.select(t.c.id).group_by(t.c.id, t.c.x, t.c.y).having(expr).order_by(t.c.id)
    return sa.select(t.c.id, sa.case((expr, "T"), else_="E").label("v")).order_by(t.c.id)


def project(position, exp):
    """what the statement must return given the per-row 3VL values"""
    if position == "value":
        return [(r["id"], v) for r, v in zip(ROWS, exp)]
    if position in ("where", "having"):
        return [(r["id"],) for r, v in zip(ROWS, exp) if v == 1]
    return [(r["id"], "T" if v == 1 else "E") for r, v in zip(ROWS, exp)]


def _rows(res):
    try:
        return [tuple(r) for r in res.cursor.fetchall()]
    finally:
        res.close()


def run_mode(env, mode, arity, left, form, position, lst):
    """execute through the real path; returns list of tuples"""
    lst = [tuple(v) if arity == 2 else v for v in lst]
    with warnings.catch_warnings():
        warnings.simplefilter("ignore")
        if mode in ("bound", "cached"):
            stmt = statement(position, in_expr(arity, left, form, list(lst)))
            return _rows(env["nocache" if mode == "bound" else "cached"].execute(stmt))
        if mode == "literal_execute":
            bp = sa.bindparam("vals", value=list(lst), expanding=True, literal_execute=True)
            stmt = statement(position, in_expr(arity, left, form, bp))
            return _rows(env["cached"].execute(stmt))
        stmt = statement(position, in_expr(arity, left, form, list(lst)))
        sql = str(stmt.compile(dialect=env["eng"].dialect, compile_kwargs=dict(literal_binds=True)))
        return [tuple(r) for r in env["raw"].execute(sql).fetchall()]


def run_dialect(env, d, arity, left, form, lst):
    """the other dialect's literal rendering executed on SQLite; None if SQLite does not accept the text"""
    import sqlite3

    lst = [tuple(v) if arity == 2 else v for v in lst]
    with warnings.catch_warnings():
        warnings.simplefilter("ignore")
        stmt = statement("value", in_expr(arity, left, form, list(lst)))
        sql = str(stmt.compile(dialect=env[d], compile_kwargs=dict(literal_binds=True)))
    try:
        return [tuple(r) for r in env["raw"].execute(sql).fetchall()], sql
    except (sqlite3.OperationalError, sqlite3.ProgrammingError):
        return None, sql


def _lefts(arity):
    if arity == 2:
        return [("col",)]
    return [("col",)] + [("lit", v) for v in LEFT]


def _nontrivial(left, lst):
    flat = [e for v in lst for e in (v if isinstance(v, tuple) else (v,))]
    return (not lst) or None in flat or len(set(lst)) < len(lst) or (left[0] == "lit" and left[1] is None) or left[0] == "col"


def _sig(mode, arity, form, position, left, lst, got, exp):
    return "%s %s arity=%d %s left=%s list=%s" % (mode, form, arity, position, "column" if left[0] == "col" else repr(left[1]), list(lst))


def check_single(env, arity, left, form, lst, rec, modes=MODES, positions=POSITIONS, dialects=DIALECTS):
    """all positions x modes for one (left, form, list); returns list of (sig, detail, case, kind)"""
    out = []
    neg = NEGATED[form]
    exp = expected(arity, left, lst, neg)
    sql, params = explicit_sql(arity, left, lst, neg)
    ref = [r[0] for r in env["raw"].execute(sql, params).fetchall()]
    if ref != exp:
        raise RuntimeError("model defect: sql3vl %r vs explicit SQL on SQLite %r for %r" % (exp, ref, (arity, left, lst, neg)))
    if rec is not None:
        rec.count("explicit_form_executions")
        rec.outcome(tuple(exp))
    for position in positions:
        want = project(position, exp)
        for mode in modes:
            try:
                got = run_mode(env, mode, arity, left, form, position, lst)
            except sa.exc.SQLAlchemyError as ex:
                got = "raised %s: %s" % (type(ex).__name__, str(ex).splitlines()[0][:200])
            except Exception as ex:
                if type(ex).__module__.startswith("sqlite3"):
                    got = "raised %s: %s" % (type(ex).__name__, str(ex).splitlines()[0][:200])
                else:
                    raise
            if rec is not None:
                rec.case((arity, left, lst, form, position, mode), nontrivial=_nontrivial(left, lst))
            if got != want:
                raised = isinstance(got, str)
                # a statement that cannot be executed at all fails the same way for every form: one signature
                sig = _sig(mode, arity, "*" if raised else form, position, left, lst, got, want) + (" raises " + got.split(":")[0][7:] if raised else "")
                out.append(
                    (
                        sig,
                        "form %s: statement returned %r\nOR-of-equalities (3VL) says %r" % (form, got, want),
                        dict(kind="single", arity=arity, left=list(left), form=form, lst=[list(v) if arity == 2 else v for v in lst], position=position, mode=mode),
                        "%s/%s/%d" % (mode, "raise" if raised else form, arity),
                    )
                )
    if left[0] == "col":
        want = project("value", exp)
        for d in dialects:
            try:
                got, sql = run_dialect(env, d, arity, left, form, lst)
            except sa.exc.CompileError:
                if rec is not None:
                    rec.count("dialect_not_compilable_" + d)
                continue
            if got is None:
                if rec is not None:
                    rec.count("dialect_text_not_executable_on_sqlite_" + d)
                continue
            if rec is not None:
                rec.count("dialect_text_executed_on_sqlite_" + d)
            if got != want:
                out.append(
                    (
                        _sig(d, arity, form, "value", left, lst, got, want),
                        "%s rendering %r executed on SQLite returned %r\nOR-of-equalities (3VL) says %r" % (d, sql, got, want),
                        dict(kind="dialect", dialect=d, arity=arity, left=list(left), form=form, lst=[list(v) if arity == 2 else v for v in lst]),
                        "%s/%s/%d" % (d, form, arity),
                    )
                )
    return out


def check_pair(env, arity, left, form, position, l1, l2, rec):
    """one statement object, named expanding bindparam, executed with l1 then l2 through the cache"""
    out = []
    neg = NEGATED[form]
    with warnings.catch_warnings():
        warnings.simplefilter("ignore")
        stmt = statement(position, in_expr(arity, left, form, sa.bindparam("vals", expanding=True)))
        for which, lst in (("first", l1), ("second", l2)):
            want = project(position, expected(arity, left, lst, neg))
            try:
                got = _rows(env["cached"].execute(stmt, {"vals": [tuple(v) if arity == 2 else v for v in lst]}))
            except sa.exc.SQLAlchemyError as ex:
                got = "raised %s: %s" % (type(ex).__name__, str(ex).splitlines()[0][:200])
            if got != want:
                out.append(
                    (
                        "pair %s arity=%d %s left=%s lists=%s then %s (%s execution wrong)" % (form, arity, position, "column" if left[0] == "col" else repr(left[1]), list(l1), list(l2), which),
                        "%s execution returned %r\nOR-of-equalities (3VL) says %r" % (which, got, want),
                        dict(kind="pair", arity=arity, left=list(left), form=form, position=position, l1=[list(v) if arity == 2 else v for v in l1], l2=[list(v) if arity == 2 else v for v in l2]),
                        "pair/%s/%d" % (form, arity),
                    )
                )
    if rec is not None:
        rec.case(("pair", arity, left, form, position, l1, l2), nontrivial=len(l1) != len(l2) or _nontrivial(left, l1) or _nontrivial(left, l2))
    return out


def _domain(arity):
    return VALS if arity == 1 else tuple(itertools.product(VALS, VALS))


def run_shard(shard, tier, rec):
    env = _env()
    b = bounds(tier)
    if shard[0] == "single":
        _, arity, form = shard
        n = b["scalar"] if arity == 1 else b["tuple_"]
        k = 0
        for lst in lists_upto(n, _domain(arity)):
            for left in _lefts(arity):
                for sig, detail, case, kind in check_single(env, arity, left, form, lst, rec):
                    rec.violation(sig, detail, case, kind=kind)
                k += 1
                if k % 37 == 5 and _nontrivial(left, lst) and lst:
                    rec.sample(dict(arity=arity, left=list(left), form=form, list=[list(v) if arity == 2 else v for v in lst], expected_values=expected(arity, left, lst, NEGATED[form])))
        return
    _, arity, form, p, parts = shard
    n = b["pair_scalar"] if arity == 1 else b["pair_tuple"]
    lists = list(lists_upto(n, _domain(arity)))
    k = 0
    for l1 in lists:
        for l2 in lists:
            k += 1
            if k % parts != p:
                continue
            for position, left in (("value", ("col",)), ("where", ("col",))) + ((("value", ("lit", None)),) if arity == 1 else ()):
                for sig, detail, case, kind in check_pair(env, arity, left, form, position, l1, l2, rec):
                    rec.violation(sig, detail, case, kind=kind)


def _lst(arity, l):
    return tuple(tuple(v) if arity == 2 else v for v in l)


def replay(case):
    env = _env()
    arity = case["arity"]
    left = tuple(case["left"])
    if case["kind"] == "pair":
        res = check_pair(env, arity, left, case["form"], case["position"], _lst(arity, case["l1"]), _lst(arity, case["l2"]), None)
    elif case["kind"] == "dialect":
        res = check_single(env, arity, left, case["form"], _lst(arity, case["lst"]), None, modes=(), positions=(), dialects=(case["dialect"],))
    else:
        res = check_single(env, arity, left, case["form"], _lst(arity, case["lst"]), None, modes=(case["mode"],), positions=(case["position"],), dialects=())
    return [(sig, detail) for sig, detail, _, _ in res]
