"""C31 flush emits statements in an order that satisfies every constraint (engine I over H states).

A *flush batch* is a pair (S0, S1) of schema-consistent object graphs over the world's universe: S0 is persisted and
committed first, then the session is driven -- in ONE flush -- to S1: objects absent in S0 and present in S1 are
added (INSERT), present in S0 and absent in S1 are deleted (DELETE), objects whose parent / collection membership
differs are re-parented (UPDATE), everything else is untouched.  All pairs within the bound are enumerated (every
graph: each object present or absent, every parent assignment that satisfies NOT NULL and is acyclic for the
self-referential world, every subset of association pairs), each through several *routes* (relationship written
through the many-to-one side or through the collection side; inserts issued before or after the deletes in program
order) which must not matter.

Oracle: S1 satisfies every FOREIGN KEY / NOT NULL constraint by construction, so
  (1) with ``PRAGMA foreign_keys=ON`` (immediate checking, constraints not deferrable) the flush must not raise, and the
      rows must then be exactly S1;
  (2) on a second replica with foreign keys OFF the statement stream is observed on the database itself: after every
      driver statement the raw tables are read and every foreign-key value must refer to an existing row ("a row may
      only reference an existing row at the moment of each statement") -- a verdict that does not depend on SQLite's
      own FK enforcement.

Worlds: U1 (nullable and NOT NULL foreign key; bidirectional, collection-only and many-to-one-only; cascade save-update
and all), U3 tree (bidirectional and each single direction; (re-parenting, deleting a parent
and re-homing its children in the same flush)), U2 many-to-many, U4 joined inheritance (base row first, sub-table row
first on delete) with a company link, U8 two-table cycle with post_update.

Mutations caught (VF_REPO=/tmp/wt-orm2):
  * dependency._OneToManyDP.per_property_dependencies: edge (child_deletes, parent_deletes) dropped -> flush raises / stream check fails on
    {p1 c1(p1)} -> {} (collection-only U1 with class names Aparent/Zchild; with the other name order the tie-break hides it)
  * dependency._OneToManyDP.per_state_dependencies: edges (after_save, child_action), (save_parent, child_action) dropped -> self-referential
    child written before its parent / wrong rows (collection-only U3)
  * dependency._ManyToOneDP.per_property_dependencies (post_update): edge (child_saves, after_save) dropped -> post_update UPDATE before the
    target INSERT: IntegrityError + stream check (U8)
  * persistence._delete_obj: joined-inheritance tables deleted base-first -> IntegrityError + stream check (U4)
  Not caught: dropping (child_saves, after_save) of a plain many-to-one and the before_delete edges of many-to-many -- the sort's
  deterministic tie-break by mapper name still yields a valid order in these worlds (equivalent here).
"""
import itertools

from sqlalchemy import exc as sa_exc

from ..worlds import ormworld2 as ow
from . import c30

ID = "C31"
LEVEL = "model_checking"
META = dict(
    engine="I over H",
    technique="exhaustive enumeration of flush batches (pairs of consistent object graphs) x routes; immediate-FK execution plus "
    "per-statement referential check of the emitted stream on the database",
    design_ref="DESIGN.md §5 C31",
    level_text="Every pair (persisted start graph, target graph) over the world's universe within the bound is flushed in one "
    "flush on the real unit of work; the flush must succeed under immediate FK checking and the statement stream must keep "
    "referential integrity after every single statement (observed with enforcement off). Complete for the bound.",
    level_note="Trusted: the graph enumerator and the S0->S1 driver (plain ORM calls), the raw readers. Unique constraints other "
    "than primary keys and key *changes* are outside the statement of C31. PostgreSQL/MariaDB immediate checks are represented "
    "by SQLite with foreign_keys=ON plus the per-statement check.",
    rule="state = object graph; transition = one flush batch executed (2 replicas); non-trivial = the batch contains at least two "
    "of {insert, delete, re-parent} on related objects, so that an order between statements is forced",
    assumptions=["SQLite", "non-deferrable FKs checked per statement", "distinct primary keys inside one batch"],
    bounds=dict(
        quick="U1 (2 parents, 2 children; nullable + NOT NULL FK; bidirectional, collection-only and many-to-one-only under both class-name orders), U3 with 3 nodes "
        "(all pairs; bidirectional and each single direction) and 4 nodes (start graphs <= 2 rows), U2 2x2, U4, U8 (start graphs <= 2 rows); 2 routes",
        thorough="same worlds, U3 with 4 nodes all pairs, U8 all pairs, cascade 'all' variants (targets that keep a child of a deleted parent are outside the domain there); 4 routes",
    ),
)
SHARD_TIMEOUT = dict(quick=600, thorough=3000)


# ---------------------------------------------------------------- graphs


class Space:
    """all schema-consistent graphs over the first `n` universe objects of a world"""

    def __init__(self, w, names):
        self.w = w
        self.spec = w.spec
        self.names = list(names)
        self.cls = {n: c for n, c, kw in w.universe}
        self.pk = {n: kw[w.spec.cls[c].pk] for n, c, kw in w.universe}

    def graphs(self):
        spec = self.spec
        names = self.names
        for present in itertools.product((False, True), repeat=len(names)):
            ps = [n for n, p in zip(names, present) if p]
            slots = []
            for n in ps:
                for l in spec.links:
                    if spec.isa(self.cls[n], l.holder):
                        cands = [p for p in ps if p != n and spec.isa(self.cls[p], l.target)]
                        opts = ([None] if l.nullable else []) + cands
                        slots.append(((l.name, n), opts))
            pairs = []
            for m in spec.m2ms:
                for a in ps:
                    if spec.isa(self.cls[a], m.left):
                        for b in ps:
                            if spec.isa(self.cls[b], m.right):
                                pairs.append((m.name, a, b))
            for choice in itertools.product(*[o for _, o in slots]):
                par = {k: v for (k, _), v in zip(slots, choice)}
                if not self._acyclic(par):
                    continue
                for r in range(len(pairs) + 1):
                    for sub in itertools.combinations(pairs, r):
                        yield dict(present=tuple(ps), par=par, mm=frozenset(sub))

    def _acyclic(self, par):
        for l in self.spec.links:
            if self.spec.root(l.holder) != self.spec.root(l.target) or l.post_update:
                continue
            for (ln, n), p in par.items():
                if ln != l.name:
                    continue
                seen, k = set(), n
                while k is not None and k not in seen:
                    seen.add(k)
                    k = par.get((l.name, k))
                if k is not None:
                    return False
        return True

    def rows(self, g):
        """rows implied by a graph, same shape as ormworld2.read_rows"""
        spec = self.spec
        out = {t.name: [] for t in self.w.tables}
        uni = {n: kw for n, c, kw in self.w.universe}
        for n in g["present"]:
            c = spec.cls[self.cls[n]]
            for t in c.tabs:
                row = []
                for col in t.cols:
                    v = None
                    for a, cn in c.cols.items():
                        if cn == col:
                            v = uni[n].get(a)
                    if col in c.fixed:
                        v = c.fixed[col]
                    for l in spec.links:
                        if l.table == t.name and l.fk == col and spec.isa(self.cls[n], l.holder):
                            p = g["par"].get((l.name, n))
                            v = self.pk[p] if p is not None else None
                    if col == t.pk:
                        v = self.pk[n]
                    row.append(v)
                out[t.name].append(tuple(row))
        for m in spec.m2ms:
            out[m.table] = [(self.pk[a], self.pk[b]) for mn, a, b in g["mm"] if mn == m.name]
        return {t: sorted(v, key=repr) for t, v in out.items()}

    def size(self, g):
        return len(g["present"])


def build_ops(space, g):
    """ORM operations that persist graph g from nothing"""
    spec = space.spec
    ops = []
    for (ln, n), p in sorted(g["par"].items()):
        if p is not None:
            l = spec.link[ln]
            ops.append(("setrel", n, l.m2o, p) if l.m2o else ("append", p, l.o2m, n))
    for mn, a, b in sorted(g["mm"]):
        ops.append(("append", a, spec.m2m[mn].lkey, b))
    for n in g["present"]:
        ops.append(("add", n))
    ops.append(("commit",))
    return ops


def batch_ops(space, g0, g1, route, order):
    """ORM operations that take a session holding g0 (persistent) to g1, to be followed by ONE flush"""
    spec = space.spec
    p0, p1 = set(g0["present"]), set(g1["present"])
    rel, adds, dels = [], [], []
    for n in space.names:
        if n in p1:
            for l in spec.links:
                if not spec.isa(space.cls[n], l.holder):
                    continue
                old = g0["par"].get((l.name, n)) if n in p0 else None
                new = g1["par"].get((l.name, n))
                if old == new:
                    continue
                use_m2o = l.m2o and (route == "m2o" or not l.o2m)
                if use_m2o:
                    rel.append(("setrel", n, l.m2o, new))
                else:
                    if not l.uselist:
                        if new is not None:
                            rel.append(("setrel", new, l.o2m, n))
                        elif old is not None:
                            rel.append(("setrel", old, l.o2m, None))
                    else:
                        if old is not None:
                            rel.append(("remove", old, l.o2m, n))
                        if new is not None:
                            rel.append(("append", new, l.o2m, n))
            if n not in p0:
                adds.append(("add", n))
        elif n in p0:
            dels.append(("delete", n))
    for m in spec.m2ms:
        for mn, a, b in sorted(g0["mm"] - g1["mm"]):
            if mn == m.name and a in p1 and b in p1:
                rel.append(("remove", a, m.lkey, b))
        for mn, a, b in sorted(g1["mm"] - g0["mm"]):
            if mn == m.name:
                rel.append(("append", a, m.lkey, b))
    if order == "adds-first":
        return adds + rel + dels
    return dels + rel + adds


# ---------------------------------------------------------------- execution


def fk_problem(w, rows):
    spec = w.spec
    cols = {t: cs for t, cs, q in w.readers}
    keyset = {}
    for c in spec.cls.values():
        for t in c.tabs:
            i = cols[t.name].index(t.pk)
            keyset[t.name] = {r[i] for r in rows[t.name]}
    for l in spec.links:
        i = cols[l.table].index(l.fk)
        tt = spec.cls[l.target].tabs[0].name
        for r in rows[l.table]:
            if r[i] is not None and r[i] not in keyset[tt]:
                return "%s.%s=%r refers to a missing %s row" % (l.table, l.fk, r[i], tt)
    for c in spec.cls.values():
        for t in c.tabs[1:]:
            for k in keyset[t.name]:
                if k not in keyset[c.tabs[0].name]:
                    return "%s row %r without its %s row" % (t.name, k, c.tabs[0].name)
    for m in spec.m2ms:
        lt, rt = spec.cls[m.left].tabs[0].name, spec.cls[m.right].tabs[0].name
        for a, b in rows[m.table]:
            if a not in keyset[lt] or b not in keyset[rt]:
                return "%s (%r,%r) refers to a missing row" % (m.table, a, b)
    return None


def run_batch(w, space, g0, g1, route, order, fk_on):
    """-> list of (kind, text)"""
    ow.FK_ON = fk_on
    try:
        run = ow.Run(w, autoflush=False)
    finally:
        ow.FK_ON = True
    probs = []
    stream = []
    try:
        for op in build_ops(space, g0):
            out = run.apply(op)
            if out[0] == "exc":
                return [("setup", "persisting the start graph failed at %s: %r" % (ow._fmt_op(op), out[1]))]
        for op in batch_ops(space, g0, g1, route, order):
            out = run.apply(op)
            if out[0] == "exc":
                return [("setup", "driving the session failed at %s: %r" % (ow._fmt_op(op), out[1]))]
        if not fk_on:
            def after(conn, sql, params):
                rows = ow.read_rows(conn, w)
                p = fk_problem(w, rows)
                stream.append(sql.split("(")[0][:40])
                if p and not any(k == "stream" for k, _ in probs):
                    probs.append(("stream", "after statement %d (%s): %s" % (len(stream), " ".join(sql.split())[:90], p)))

            run.plan.after = after
        run.plan.arm()
        out = run.apply(("flush",))
        run.plan.disarm()
        run.plan.after = None
        if out[0] == "exc":
            e = out[1]
            if not isinstance(e, sa_exc.SQLAlchemyError):
                raise e
            probs.append(("flush-raised", "%s: %s" % (type(e).__name__, str(e).splitlines()[0][:200])))
            return probs
        got = run.rows()
        want = space.rows(g1)
        if got != want:
            probs.append(("rows", ow.diff_rows(got, want)))
        run.nstmt = run.plan.counts["dml"]
        return probs
    finally:
        run.close()


def describe(space, g):
    parts = []
    for n in g["present"]:
        rels = ["%s=%s" % (ln, p) for (ln, x), p in sorted(g["par"].items()) if x == n and p is not None]
        parts.append(n + ("(" + ",".join(rels) + ")" if rels else ""))
    parts += ["%s-%s" % (a, b) for mn, a, b in sorted(g["mm"])]
    return "{" + " ".join(parts) + "}"


def classify(space, g0, g1):
    p0, p1 = set(g0["present"]), set(g1["present"])
    ins, dele = p1 - p0, p0 - p1
    rep = {n for (ln, n), p in g1["par"].items() if n in p0 and g0["par"].get((ln, n)) != p}
    kinds = (bool(ins), bool(dele), bool(rep) or g0["mm"] != g1["mm"])
    return sum(kinds)


def spaces(tier):
    SU, ALL = c30.SU, c30.ALL
    out = [
        dict(world=("U1", SU), names=["p1", "p2", "c1", "c2"], max0=None),
        dict(world=("U1", SU, False), names=["p1", "p2", "c1", "c2"], max0=None),
        dict(world=("U3", SU), names=["n1", "n2", "n3"], max0=None),
        dict(world=("U3", SU), names=["n1", "n2", "n3", "n4"], max0=2 if tier == "quick" else None),
        dict(world=("U2", SU), names=["i1", "i2", "t1", "t2"], max0=None),
        dict(world=("U1", SU, True, False, ow.M2O_DEFAULT, "o2m", ("Aparent", "Zchild")), names=["p1", "p2", "c1", "c2"], max0=None),
        dict(world=("U1", SU, True, False, ow.M2O_DEFAULT, "o2m", ("Zparent", "Achild")), names=["p1", "p2", "c1", "c2"], max0=None),
        dict(world=("U1", SU, True, False, ow.M2O_DEFAULT, "m2o", ("Aparent", "Zchild")), names=["p1", "p2", "c1", "c2"], max0=None),
        dict(world=("U1", SU, True, False, ow.M2O_DEFAULT, "m2o", ("Zparent", "Achild")), names=["p1", "p2", "c1", "c2"], max0=None),
        dict(world=("U3", SU, "o2m"), names=["n1", "n2", "n3"], max0=None),
        dict(world=("U3", SU, "m2o"), names=["n1", "n2", "n3"], max0=None),
        dict(world=("U4", SU), names=["co1", "pe1", "en2", "ma3"], max0=None),
        dict(world=("U8", SU), names=["h1", "h2", "b1", "b2"], max0=2 if tier == "quick" else None),
    ]
    if tier != "quick":
        out += [
            dict(world=("U1", ALL), names=["p1", "p2", "c1", "c2"], max0=None),
            dict(world=("U3", ALL), names=["n1", "n2", "n3"], max0=None),
            dict(world=("U8", ALL), names=["h1", "h2", "b1", "b2"], max0=2),
        ]
    return out


NPART = 8


def shards(tier, seed):
    out = []
    for i, sp in enumerate(spaces(tier)):
        for part in range(NPART):
            out.append(dict(space=i, part=part, **sp))
    return out


def routes(tier):
    if tier == "quick":
        return [("m2o", "adds-first"), ("o2m", "deletes-first")]
    return [("m2o", "adds-first"), ("o2m", "deletes-first"), ("m2o", "deletes-first"), ("o2m", "adds-first")]


def valid_target(space, g0, g1):
    """delete cascades: with cascade 'delete' (or a database-level ON DELETE rule) a child of a deleted parent cannot
    stay -- session.delete(parent) marks it at once when the deletes are issued first; such targets are not in the domain"""
    spec = space.spec
    for l in spec.links:
        if "delete" in l.c_o2m:
            for (ln, n), p in g0["par"].items():
                if ln == l.name and p is not None and p not in g1["present"] and n in g1["present"]:
                    return False
    return True


def run_shard(shard, tier, rec):
    w = ow.world(shard["world"])
    space = Space(w, shard["names"])
    graphs = sorted(space.graphs(), key=lambda g: (len(g["present"]), sum(1 for v in g["par"].values() if v is not None), len(g["mm"]), describe(space, g)))
    rec.count("graphs_%d" % shard["space"], len(graphs) if shard["part"] == 0 else 0)
    idx = 0
    wk = repr(shard["world"])
    # simplest first: pairs ordered by total size, so that the first failure of a kind is a small one
    pairs = []
    for i0, g0 in enumerate(graphs):
        if shard["max0"] is not None and space.size(g0) > shard["max0"]:
            continue
        rec.state((wk, tuple(shard["names"]), describe(space, g0)))
        for i1, g1 in enumerate(graphs):
            if i0 != i1:
                pairs.append((i0 + i1, i0, i1))
    pairs.sort()
    for _, i0, i1 in pairs:
        g0, g1 = graphs[i0], graphs[i1]
        if True:
            idx += 1
            if idx % NPART != shard["part"]:
                continue
            nkinds = classify(space, g0, g1)
            if not valid_target(space, g0, g1):
                rec.count("targets_outside_domain")
                continue
            for route, order in routes(tier):
                case = dict(shard={k: shard[k] for k in ("world", "names")}, g0=_enc(g0), g1=_enc(g1), route=route, order=order)
                for fk_on in (True, False):
                    probs = run_batch(w, space, g0, g1, route, order, fk_on)
                    rec.transition()
                    rec.trace()
                    for kind, text in probs:
                        if kind == "setup":
                            rec.count("setup_failed")
                            continue
                        if kind == "flush-raised" and text.startswith("CircularDependencyError") and reversal(space, g0, g1):
                            rec.violation(F11_SIG, "%s fk=%s route=%s/%s | %s -> %s: %s" % (wk, "on" if fk_on else "off", route, order, describe(space, g0), describe(space, g1), text),
                                          dict(case, fk_on=fk_on))
                            continue
                        rec.violation("%s fk=%s route=%s/%s: %s | %s -> %s" % (wk, "on" if fk_on else "off", route, order, kind, describe(space, g0), describe(space, g1)),
                                      text, dict(case, fk_on=fk_on), kind=(wk, kind, fk_on))
                    rec.outcome((kind_sig(space, g0, g1), bool(probs)))
                rec.case((wk, describe(space, g0), describe(space, g1), route, order), nontrivial=nkinds >= 2)
            if nkinds == 3:
                rec.sample(dict(world=wk, start=describe(space, g0), target=describe(space, g1)), limit=3)


F11_SIG = ("self-referential relationship: a flush whose old and new parent links together form a loop (simplest case: a parent and its "
           "child swap roles; the final state itself is acyclic and valid) raises CircularDependencyError")


def reversal(space, g0, g1):
    """the union of the child->parent links of g0 and g1 has a directed cycle"""
    for l in space.spec.links:
        if space.spec.root(l.holder) != space.spec.root(l.target):
            continue
        edges = {}
        for g in (g0, g1):
            for (ln, a), b in g["par"].items():
                if ln == l.name and b is not None:
                    edges.setdefault(a, set()).add(b)
        state = {}

        def visit(n):
            if state.get(n) == 1:
                return True
            if state.get(n) == 2:
                return False
            state[n] = 1
            for m_ in edges.get(n, ()):
                if visit(m_):
                    return True
            state[n] = 2
            return False

        if any(visit(n) for n in list(edges)):
            return True
    return False


def kind_sig(space, g0, g1):
    p0, p1 = set(g0["present"]), set(g1["present"])
    return (len(p1 - p0), len(p0 - p1), sum(1 for (ln, n), p in g1["par"].items() if n in p0 and g0["par"].get((ln, n)) != p))


def _enc(g):
    return dict(present=list(g["present"]), par=[[k[0], k[1], v] for k, v in sorted(g["par"].items())], mm=sorted(list(x) for x in g["mm"]))


def _dec(d):
    return dict(present=tuple(d["present"]), par={(a, b): c for a, b, c in d["par"]}, mm=frozenset(tuple(x) for x in d["mm"]))


def _tup(x):
    return tuple(_tup(i) for i in x) if isinstance(x, list) else x


def replay(case):
    sh = case["shard"]
    w = ow.world(_tup(sh["world"]))
    space = Space(w, sh["names"])
    g0, g1 = _dec(case["g0"]), _dec(case["g1"])
    probs = run_batch(w, space, g0, g1, case["route"], case["order"], case["fk_on"])
    wk = repr(_tup(sh["world"]))
    out = []
    for kind, text in probs:
        if kind == "setup":
            continue
        if kind == "flush-raised" and text.startswith("CircularDependencyError") and reversal(space, g0, g1):
            out.append((F11_SIG, text))
        else:
            out.append(("%s fk=%s route=%s/%s: %s | %s -> %s" % (wk, "on" if case["fk_on"] else "off", case["route"], case["order"], kind, describe(space, g0), describe(space, g1)), text))
    return out
