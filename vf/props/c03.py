"""C03 statement objects are immutable values; compilation is deterministic (engine H over live objects).

Every chain of generative calls of length <= 3 (quick) / <= 4 (thorough) from eight base statements (Core
select, compound select, insert, update, delete, textual select, ORM select, legacy Query) is built and *kept
alive*.  When a node is created its (SQL, parameters) on five dialects are snapshotted; then

* the receiver of every generative call is fingerprinted before and after the call (un-memoised cache key +
  extracted bind values + shallow ``vars()``): "calling generative methods never changes the statement";
* two consecutive compilations of the new node must agree, and compiling must not change the node's fingerprint:
  "compilation is deterministic and does not modify the statement";
* ``copy.copy``, ``_clone()`` and a pickle round trip of the node must compile to the node's snapshot;
* the same chain applied to untouched objects (no ancestor ever compiled) must compile like the node in the tree:
  whatever compile()/derivation left behind in an ancestor must not leak into statements derived from it;
* after the whole tree exists (and everything above happened to every node) every node is compiled again and must
  reproduce its snapshot: nothing derived later, copied, pickled or compiled has changed an earlier statement.

A problem found in the tree is re-run on fresh objects (``probe``) and its chain is shrunk call by call while the same
class of problem persists, so a root cause has one signature ``<class>: <base>.<chain> [then .<call>] -> <what>``.
A tree in which a receiver was found modified re-baselines its live nodes and counts (does not report) the
deviations that do not reproduce on fresh objects: they are consequences of the reported modification.

Internal errors (AttributeError, AssertionError ...) raised by a derivation or a compilation are C22's subject: here
they are a node's stable outcome (recorded as a note), so "compiles like before" also covers "fails like before".

Mutations caught (each alone in a private copy, ``VF_REPO=/tmp/wt-stmt1 ./check C03 --no-evidence``; new signatures
on top of the clean tree's reported ones):
  N5  sql/selectable.py Select.add_columns: ``self._raw_columns = self._raw_columns + [...]`` -> ``+= [...]`` (extends the
      list shared with the receiver) -> "receiver modified by a generative call: select then .add_columns(s)"
  N1  dialects/oracle/base.py translate_select_structure: ``select = select._generate()`` dropped, so ``_oracle_visit`` is
      written into the user's statement -> new "statement changed after later derivations..." / fresh-route signatures
  N3  sql/base.py Generative._generate: memoised attributes no longer skipped when copying __dict__
      -> "derived from compiled ancestors it differs from the same chain on untouched objects" signatures
  N4  sql/elements.py BindParameter.__setstate__: the original key is forgotten (always "param")
      -> "pickle round trip compiles differently: select.where(c1) -> parameters on sqlite" (and ~1000 more)
"""
from __future__ import annotations

import copy
import pickle
import warnings

from sqlalchemy import bindparam
from sqlalchemy import delete
from sqlalchemy import exc as sa_exc
from sqlalchemy import func
from sqlalchemy import insert
from sqlalchemy import Integer
from sqlalchemy import column
from sqlalchemy import select
from sqlalchemy import text
from sqlalchemy import union
from sqlalchemy import update
from sqlalchemy.orm import aliased
from sqlalchemy.orm import defer
from sqlalchemy.orm import joinedload
from sqlalchemy.orm import Query
from sqlalchemy.orm import selectinload
from sqlalchemy.orm import with_loader_criteria
from sqlalchemy.sql.base import Options
from sqlalchemy.sql.cache_key import HasCacheKey

from ..worlds import stmtgen as sg

ID = "C03"
LEVEL = "model_checking"
META = dict(
    engine="H",
    technique="exhaustive tree of generative-call chains on live statement objects; every node snapshotted at creation "
    "and re-validated after all later operations; receiver/compile side-effect fingerprints at every step",
    design_ref="DESIGN.md §5 C03",
    level_text="All chains of <=3 (quick; all chains <=2, the 3rd call state-changing below state-changing chains) / <=4 "
    "(thorough; all chains <=3, the 4th call state-changing below state-changing chains) "
    "generative calls over a per-base alphabet of 12-33 calls with fixed small arguments, from 8 base statements, are "
    "materialised as a tree of live objects. Each node's SQL string and parameters on sqlite, postgresql, mysql, mssql, "
    "oracle and oracle with enable_offset_fetch=False (ROWNUM wrapping) are recorded when the node is created, compared between two consecutive compilations, compared with "
    "the compilations of its copy.copy / _clone() / pickle round trip, and compared again after the complete tree has "
    "been built, compiled, copied and pickled. The receiver of each call and the subject of each compile() are "
    "fingerprinted (un-memoised cache key, extracted bind values, shallow vars()) before and after. Complete for the "
    "bound: an in-place change made by any alphabet call at any position of a chain of that length is observed either "
    "at once (fingerprint) or in the final pass (SQL/params of an earlier node).",
    level_note="Trusted: the snapshot function (str(compiled), compiled.params) and the fingerprint. Arguments of the "
    "calls are fixed; chains longer than the bound and methods outside the alphabet are not covered. Memoised "
    "attributes added to a statement by compile()/derivation are allowed (pre-existing attributes must stay identical).",
    rule="state = node of the chain tree (base, call sequence); transition = one generative call applied to a live "
    "node; every node is compiled on 5 dialects at creation and again in the final pass (trace validated); "
    "non-trivial = the call was accepted and produced a node whose SQL or parameters differ from its parent's on "
    "some dialect",
    assumptions=["single-threaded construction", "dialects instantiated without a DBAPI (default options)"],
    bounds=dict(
        quick="all chains of <= 2 calls plus, below chains of state-changing calls, every 3rd state-changing call, from "
        "each of 8 bases; 5 dialects + Oracle ROWNUM mode; copy/clone/pickle of every node",
        thorough="all chains of <= 3 calls plus, below chains of state-changing calls, a 4th call from the first ten "
        "state-changing calls; 5 dialects + Oracle ROWNUM mode",
    ),
)
SHARD_TIMEOUT = dict(quick=600, thorough=3000)

a, b, c = sg.a, sg.b, sg.c
A, B, C = sg.A, sg.B, sg.C


class Args:
    """argument objects of the alphabet: created once per shard and shared by all calls, as constants in user code are"""

    def __init__(self):
        self.c1 = a.c.x > 1
        self.c2 = a.c.s == "a"
        self.c3 = a.c.x == bindparam("p", 5)
        self.hav = func.count(a.c.id) > 1
        self.cte = select(b.c.aid).where(b.c.y > 0).cte("side")
        self.sel2 = select(a.c.id, a.c.x).where(a.c.x < 0)
        self.oc1 = A.x > 1
        self.oc2 = A.s == "a"
        self.ohav = func.count(A.id) > 1
        self.o_selectin = selectinload(A.bs)
        self.o_joined = joinedload(A.bs)
        self.o_defer = defer(A.s)
        self.o_crit = with_loader_criteria(B, B.y > 1)
        self.q2 = Query([A]).filter(A.x < 0)
        self.Aal = aliased(A, name="a_al")


def _ops_select(g):
    return [
        ("where(c1)", lambda s: s.where(g.c1), True),
        ("where(c2)", lambda s: s.where(g.c2), True),
        ("where(p)", lambda s: s.where(g.c3), True),
        ("join(b)", lambda s: s.join(b), True),
        ("outerjoin(b)", lambda s: s.outerjoin(b), True),
        ("join_from(b,c)", lambda s: s.join_from(b, c), True),
        ("select_from(a)", lambda s: s.select_from(a), False),
        ("order_by(id)", lambda s: s.order_by(a.c.id), True),
        ("order_by(x desc)", lambda s: s.order_by(a.c.x.desc()), True),
        ("order_by(None)", lambda s: s.order_by(None), False),
        ("group_by(x)", lambda s: s.group_by(a.c.x), True),
        ("having", lambda s: s.having(g.hav), True),
        ("limit(2)", lambda s: s.limit(2), True),
        ("offset(1)", lambda s: s.offset(1), True),
        ("fetch(3)", lambda s: s.fetch(3), False),
        ("distinct()", lambda s: s.distinct(), True),
        ("with_only_columns(id)", lambda s: s.with_only_columns(a.c.id), True),
        ("add_columns(s)", lambda s: s.add_columns(a.c.s), True),
        ("correlate(b)", lambda s: s.correlate(b), False),
        ("correlate_except(b)", lambda s: s.correlate_except(b), False),
        ("execution_options", lambda s: s.execution_options(foo=1), False),
        ("prefix_with", lambda s: s.prefix_with("/*p*/"), True),
        ("suffix_with", lambda s: s.suffix_with("/*s*/"), False),
        ("with_for_update", lambda s: s.with_for_update(nowait=True), False),
        ("with_hint", lambda s: s.with_hint(a, "HINT", "*"), False),
        ("with_statement_hint", lambda s: s.with_statement_hint("/*sh*/"), False),
        ("params(p=7)", lambda s: s.params(p=7), True),
        ("add_cte", lambda s: s.add_cte(g.cte), True),
        ("filter_by(x=1)", lambda s: s.filter_by(x=1), False),
        ("cte().select", lambda s: select(s.cte("c1")), False),
        ("subquery().select", lambda s: s.subquery("sq").select(), False),
        ("union(sel2)", lambda s: s.union(g.sel2), False),
        ("set_label_style", lambda s: s.set_label_style(sg_label_style()), False),
    ]


def sg_label_style():
    from sqlalchemy import LABEL_STYLE_TABLENAME_PLUS_COL

    return LABEL_STYLE_TABLENAME_PLUS_COL


def _ops_compound(g):
    return [
        ("order_by(id)", lambda s: s.order_by("id"), True),
        ("order_by(x desc)", lambda s: s.order_by(column("x").desc()), True),
        ("limit(2)", lambda s: s.limit(2), True),
        ("offset(1)", lambda s: s.offset(1), True),
        ("fetch(3)", lambda s: s.fetch(3), False),
        # the dialect-keyword form lives in this (small) tree only: see the finding on shared dialect_options
        ("fetch(3,oracle_approx)", lambda s: s.fetch(3, oracle_fetch_approximate=True), False),
        ("group_by(x)", lambda s: s.group_by("x"), True),
        ("execution_options", lambda s: s.execution_options(foo=1), False),
        ("params(p=7)", lambda s: s.params(p=7), True),
        ("union(sel2)", lambda s: s.union(g.sel2), True),
        ("union_all(sel2)", lambda s: s.union_all(g.sel2), True),
        ("add_cte", lambda s: s.add_cte(g.cte), True),
        ("subquery().select", lambda s: s.subquery("sq").select(), False),
        ("with_for_update", lambda s: s.with_for_update(), False),
        ("set_label_style", lambda s: s.set_label_style(sg_label_style()), False),
    ]


def _ops_insert(g):
    return [
        ("values(x=1)", lambda s: s.values(x=1), True),
        ("values(s='k')", lambda s: s.values(s="k"), True),
        ("values(x=p)", lambda s: s.values(x=bindparam("p", 5)), True),
        ("values([..])", lambda s: s.values([dict(x=1), dict(x=2)]), False),
        ("returning(id)", lambda s: s.returning(a.c.id), True),
        ("returning(x)", lambda s: s.returning(a.c.x), True),
        ("return_defaults()", lambda s: s.return_defaults(), False),
        ("prefix_with", lambda s: s.prefix_with("OR REPLACE"), True),
        ("inline()", lambda s: s.inline(), False),
        ("from_select", lambda s: s.from_select(["x", "s"], g.sel2.with_only_columns(a.c.x, a.c.s)), True),
        ("execution_options", lambda s: s.execution_options(foo=1), False),
        ("with_hint", lambda s: s.with_hint("HINT", dialect_name="*"), False),
        ("add_cte", lambda s: s.add_cte(g.cte), True),
        ("params(p=7)", lambda s: s.params(p=7), False),
    ]


def _ops_update(g):
    return [
        ("where(c1)", lambda s: s.where(g.c1), True),
        ("where(c2)", lambda s: s.where(g.c2), True),
        ("where(p)", lambda s: s.where(g.c3), True),
        ("where(b)", lambda s: s.where(a.c.id == b.c.aid), True),
        ("values(x=1)", lambda s: s.values(x=1), True),
        ("values(s='k')", lambda s: s.values(s="k"), True),
        ("values(x=x+1)", lambda s: s.values(x=a.c.x + 1), True),
        ("ordered_values", lambda s: s.ordered_values((a.c.s, "w"), (a.c.x, 2)), True),
        ("returning(id)", lambda s: s.returning(a.c.id), True),
        ("returning(x)", lambda s: s.returning(a.c.x), True),
        ("return_defaults()", lambda s: s.return_defaults(), False),
        ("prefix_with", lambda s: s.prefix_with("/*p*/"), False),
        ("execution_options", lambda s: s.execution_options(foo=1), False),
        ("with_hint", lambda s: s.with_hint("HINT", dialect_name="*"), False),
        ("with_dialect_options", lambda s: s.with_dialect_options(mysql_limit=3), False),
        ("add_cte", lambda s: s.add_cte(g.cte), True),
        ("params(p=7)", lambda s: s.params(p=7), True),
        ("filter_by(x=1)", lambda s: s.filter_by(x=1), False),
    ]


def _ops_delete(g):
    return [
        ("where(c1)", lambda s: s.where(g.c1), True),
        ("where(c2)", lambda s: s.where(g.c2), True),
        ("where(p)", lambda s: s.where(g.c3), True),
        ("where(b)", lambda s: s.where(a.c.id == b.c.aid), True),
        ("returning(id)", lambda s: s.returning(a.c.id), True),
        ("returning(x)", lambda s: s.returning(a.c.x), True),
        ("prefix_with", lambda s: s.prefix_with("/*p*/"), False),
        ("execution_options", lambda s: s.execution_options(foo=1), False),
        ("with_hint", lambda s: s.with_hint("HINT", dialect_name="*"), False),
        ("with_dialect_options", lambda s: s.with_dialect_options(mysql_limit=3), False),
        ("add_cte", lambda s: s.add_cte(g.cte), True),
        ("params(p=7)", lambda s: s.params(p=7), True),
        ("filter_by(x=1)", lambda s: s.filter_by(x=1), False),
    ]


def _ops_text(g):
    from sqlalchemy.sql.selectable import SelectBase
    from sqlalchemy.sql.elements import TextClause

    def sel(fn):  # applicable once the text has become a (textual) select
        return lambda s: fn(s) if isinstance(s, SelectBase) else None

    def txt(fn):  # applicable while it still is a plain text()
        return lambda s: fn(s) if isinstance(s, TextClause) else None

    return [
        ("bindparams(p=1)", txt(lambda s: s.bindparams(p=1)), True),
        ("bindparams(typed)", txt(lambda s: s.bindparams(bindparam("p", type_=Integer))), True),
        ("params(p=7)", lambda s: s.params(p=7), True),
        ("execution_options", lambda s: s.execution_options(foo=1), False),
        ("columns(typed)", txt(lambda s: s.columns(column("id", Integer), column("x", Integer))), True),
        ("columns(kw)", txt(lambda s: s.columns(id=Integer)), True),
        ("subquery().select", sel(lambda s: s.subquery("tt").select()), True),
        ("cte().select", sel(lambda s: select(s.cte("tc"))), True),
        ("where(x)", sel(lambda s: s.where(column("x") > 1)), True),
        ("order_by(id)", sel(lambda s: s.order_by(column("id"))), True),
        ("distinct()", sel(lambda s: s.distinct() if hasattr(s, "distinct") else None), True),
        ("bindparams on select", sel(lambda s: s.bindparams(p=3)), False),
    ]


def _ops_orm(g):
    return [
        ("where(c1)", lambda s: s.where(g.oc1), True),
        ("where(c2)", lambda s: s.where(g.oc2), True),
        ("join(A.bs)", lambda s: s.join(A.bs), True),
        ("outerjoin(A.bs)", lambda s: s.outerjoin(A.bs), True),
        ("join(B.cs)", lambda s: s.join(B.cs), True),
        ("options(selectin)", lambda s: s.options(g.o_selectin), True),
        ("options(joined)", lambda s: s.options(g.o_joined), True),
        ("options(defer)", lambda s: s.options(g.o_defer), True),
        ("options(criteria)", lambda s: s.options(g.o_crit), True),
        ("order_by(id)", lambda s: s.order_by(A.id), True),
        ("order_by(x desc)", lambda s: s.order_by(A.x.desc()), True),
        ("group_by(x)", lambda s: s.group_by(A.x), True),
        ("having", lambda s: s.having(g.ohav), True),
        ("limit(2)", lambda s: s.limit(2), True),
        ("offset(1)", lambda s: s.offset(1), False),
        ("distinct()", lambda s: s.distinct(), True),
        ("add_columns(x)", lambda s: s.add_columns(A.x), True),
        ("with_only_columns(id)", lambda s: s.with_only_columns(A.id), True),
        ("filter_by(x=1)", lambda s: s.filter_by(x=1), True),
        ("execution_options", lambda s: s.execution_options(populate_existing=True), False),
        ("select_from(A)", lambda s: s.select_from(A), False),
        ("params(p=7)", lambda s: s.params(p=7), False),
        ("subquery->aliased", lambda s: select(aliased(A, s.subquery("asq"))), False),
        ("cte().select", lambda s: select(s.cte("oc")), False),
        ("with_for_update", lambda s: s.with_for_update(), False),
        ("set_label_style", lambda s: s.set_label_style(sg_label_style()), False),
        ("union(self)", lambda s: s.union(select(A).where(A.x < 0)), False),
    ]


def _ops_query(g):
    return [
        ("filter(c1)", lambda q: q.filter(g.oc1), True),
        ("filter(c2)", lambda q: q.filter(g.oc2), True),
        ("filter_by(x=1)", lambda q: q.filter_by(x=1), True),
        ("join(A.bs)", lambda q: q.join(A.bs), True),
        ("outerjoin(A.bs)", lambda q: q.outerjoin(A.bs), True),
        ("options(selectin)", lambda q: q.options(g.o_selectin), True),
        ("options(joined)", lambda q: q.options(g.o_joined), True),
        ("options(defer)", lambda q: q.options(g.o_defer), True),
        ("order_by(id)", lambda q: q.order_by(A.id), True),
        ("order_by(x desc)", lambda q: q.order_by(A.x.desc()), True),
        ("group_by(x)", lambda q: q.group_by(A.x), True),
        ("having", lambda q: q.having(g.ohav), True),
        ("limit(2)", lambda q: q.limit(2), True),
        ("offset(1)", lambda q: q.offset(1), False),
        ("slice(1,3)", lambda q: q.slice(1, 3), False),
        ("distinct()", lambda q: q.distinct(), True),
        ("add_columns(x)", lambda q: q.add_columns(A.x), True),
        ("add_entity(B)", lambda q: q.add_entity(B), False),
        ("with_entities(id)", lambda q: q.with_entities(A.id), True),
        ("params(p=7)", lambda q: q.params(p=7), False),
        ("execution_options", lambda q: q.execution_options(foo=1), False),
        ("populate_existing", lambda q: q.populate_existing(), False),
        ("yield_per(2)", lambda q: q.yield_per(2), False),
        ("enable_eagerloads(False)", lambda q: q.enable_eagerloads(False), False),
        ("union(q2)", lambda q: q.union(g.q2), False),
        ("select_from(A)", lambda q: q.select_from(A), False),
        ("with_for_update", lambda q: q.with_for_update(), False),
        ("correlate(B)", lambda q: q.correlate(B), False),
        ("set_label_style", lambda q: q.set_label_style(sg_label_style()), False),
    ]


BASES = [
    ("select", lambda g: select(a.c.id, a.c.x), _ops_select),
    ("compound", lambda g: union(select(a.c.id, a.c.x).where(a.c.x > 1), select(b.c.id, b.c.y)), _ops_compound),
    ("insert", lambda g: insert(a), _ops_insert),
    ("update", lambda g: update(a), _ops_update),
    ("delete", lambda g: delete(a), _ops_delete),
    ("text", lambda g: text("select id, x from a where x > :p"), _ops_text),
    ("orm_select", lambda g: select(A), _ops_orm),
    ("query", lambda g: Query([A]), _ops_query),
]
BASE_BY_NAME = {n: (mk, ops) for n, mk, ops in BASES}

ACCEPTABLE = (sa_exc.SQLAlchemyError, NotImplementedError)


def _element(stmt):
    """the ClauseElement that gets compiled (a legacy Query compiles through its .statement)"""
    if isinstance(stmt, Query):
        return stmt.statement
    return stmt


def snapshot(stmt, dialects):
    out = []
    for d in dialects:
        try:
            comp = _element(stmt).compile(dialect=d)
            out.append((str(comp), repr(sorted(comp.params.items(), key=lambda kv: str(kv[0])))))
        except ACCEPTABLE as e:
            out.append(("refused", type(e).__name__))
        except Exception as e:  # noqa
            # an internal error while compiling is C22's subject; here it is just this node's (stable) outcome
            if not _raised_inside_sqlalchemy(e):
                raise
            INTERNAL_ERRORS.add("compile: %s in %s" % (type(e).__name__, _raised_inside_sqlalchemy(e)))
            out.append(("internal error", type(e).__name__))
    return tuple(out)


INTERNAL_ERRORS = set()


def _raised_inside_sqlalchemy(e):
    import traceback

    from ..core import SA_DIR

    fr = traceback.extract_tb(e.__traceback__)[-1]
    if fr.filename.startswith(SA_DIR):
        return "%s:%s" % (fr.filename[len(SA_DIR) + 1:], fr.name)
    return None


def _ck(stmt):
    """un-memoised structural fingerprint: cache key tuple + extracted bind values (None if not cacheable)"""
    el = stmt if not isinstance(stmt, Query) else None
    if el is None:
        return None
    try:
        ck = HasCacheKey._generate_cache_key(el)
    except ACCEPTABLE:
        return ("refused",)
    if ck is None:
        return None
    return (ck.key, tuple(repr(bp.value) for bp in ck.bindparams), repr(ck.params))


def _shallow(v):
    if isinstance(v, (tuple, list)):
        return (type(v).__name__, tuple(id(x) for x in v))
    if isinstance(v, dict):
        return (type(v).__name__, tuple((repr(k) if isinstance(k, str) else id(k), id(x)) for k, x in v.items()))
    if isinstance(v, (str, int, bool, float, type(None))):
        return repr(v)
    if isinstance(v, Options) or (isinstance(v, type) and issubclass(v, Options)):
        # immutable option bundles (class = defaults, instance = merged copy): a value, compared by value
        cls = v if isinstance(v, type) else type(v)
        return ("Options", tuple((k, _shallow(getattr(v, k))) for k in sorted(getattr(cls, "_cache_attrs", ()))))
    return (type(v).__name__, id(v))


def fingerprint(stmt):
    """(structural cache key, shallow vars()) -- memoised attributes (HasMemoized bookkeeping) are not state"""
    d = vars(stmt)
    memo = d.get("_memoized_keys", ())
    return (_ck(stmt), {k: _shallow(v) for k, v in d.items() if k != "_memoized_keys" and k not in memo})


def fp_changes(before, after):
    """attributes present before whose shallow value changed or vanished, plus a changed cache key"""
    out = []
    if before[0] != after[0]:
        out.append("cache key / extracted values")
    for k, v in before[1].items():
        if k not in after[1]:
            out.append("attribute %s removed" % k)
        elif after[1][k] != v:
            out.append("attribute %s rebound or resized" % k)
    return out


def first_diff(snap1, snap2, dialects):
    for d, x, y in zip(dialects, snap1, snap2):
        if x != y:
            what = "SQL" if x[0] != y[0] else "parameters"
            return getattr(d, "_vf_label", d.name), what, x, y
    return None


def the_dialects():
    """the five default dialects plus Oracle as a pre-12c server (ROWNUM wrapping instead of FETCH FIRST: the
    compiler path that restructures the user's SELECT)"""
    from sqlalchemy.engine import url as _url

    ds = sg.DIALECTS()
    old = _url.URL.create("oracle").get_dialect()(enable_offset_fetch=False)  # what initialize() sets below 12c
    old.server_version_info = (11, 2)
    old._vf_label = "oracle-rownum"
    return ds + [old]


class Node:
    __slots__ = ("chain", "stmt", "snap", "keep")

    def __init__(self, chain, stmt, snap):
        self.chain, self.stmt, self.snap = chain, stmt, snap
        self.keep = []


def chain_name(base, chain):
    return base + "".join("." + c for c in chain)


def shards(tier, seed):
    out = []
    g = Args()
    for name, mk, ops in BASES:
        for i in range(len(ops(g))):
            out.append((name, i))
    return out


# ----------------------------------------------------------------- the checks on one node / one call
# Each returns a list of problems: (class label, short description used in the signature, detail)


def call(stmt, fn):
    """apply a generative call; returns the new statement, or None when the call is refused / not applicable"""
    try:
        return fn(stmt)  # (the alphabet's own wrappers return None for "not applicable to this kind of object")
    except ACCEPTABLE:
        return None
    except (AttributeError, TypeError) as e:
        # e.g. .where() on the CompoundSelect returned by union(): not part of that object's API
        if "has no attribute" in str(e) or "object is not callable" in str(e):
            return None
        if _raised_inside_sqlalchemy(e):
            INTERNAL_ERRORS.add("derivation: %s in %s" % (type(e).__name__, _raised_inside_sqlalchemy(e)))
            return None
        raise
    except Exception as e:  # noqa
        if _raised_inside_sqlalchemy(e):  # internal error inside a generative method: C22's kind of finding, not C03's
            INTERNAL_ERRORS.add("derivation: %s in %s" % (type(e).__name__, _raised_inside_sqlalchemy(e)))
            return None
        raise


def check_call(node, opname, fn, dialects, recompile):
    """the receiver must be the same value after the call: fingerprint always, SQL/params when ``recompile``"""
    before = fingerprint(node.stmt)
    new = call(node.stmt, fn)
    problems = []
    ch = fp_changes(before, fingerprint(node.stmt))
    if ch:
        problems.append(("receiver modified by a generative call", ch[0], "; ".join(ch)))
    if recompile:
        snap = snapshot(node.stmt, dialects)
        if snap != node.snap:
            d = first_diff(node.snap, snap, dialects)
            problems.append(("receiver compiles differently after a generative call", "%s on %s" % (d[1], d[0]),
                             "before: %r\nafter:  %r" % (d[2], d[3])))
    return new, problems


def check_new(stmt, dialects, twice=True):
    """snapshot a new statement; compilation must be deterministic and must not modify it.
    ``twice=False`` (explorer): the second compilation of every node is the one of the final pass."""
    problems = []
    fp0 = fingerprint(stmt)
    # the (memoised) cache key a later execution would use must be the key of *this* statement, not one carried over
    # from the statement it was derived from
    if fp0[0] is not None and hasattr(stmt, "_generate_cache_key"):
        try:
            mk_ = stmt._generate_cache_key()
        except ACCEPTABLE:
            mk_ = None
        if mk_ is not None:
            memo = (mk_.key, tuple(repr(bp.value) for bp in mk_.bindparams), repr(mk_.params))
            if memo != fp0[0]:
                problems.append(("the statement's memoised cache key is not its own", "stale _generate_cache_key()",
                                 "memoised: %r\nfresh:    %r" % (memo[1:], fp0[0][1:])))
    snap = snapshot(stmt, dialects)
    snap2 = snapshot(stmt, dialects) if twice else snap
    if snap != snap2:
        d = first_diff(snap, snap2, dialects)
        problems.append(("two consecutive compilations differ", "%s on %s" % (d[1], d[0]), "%r\n%r" % (d[2], d[3])))
    ch = fp_changes(fp0, fingerprint(stmt))
    if ch:
        problems.append(("compile() modified the statement", ch[0], "; ".join(ch)))
    return snap, problems


def check_copies(node, dialects, rec=None, only=None):
    """copy.copy / _clone() / pickle round trip compile like the original (``only``: index of the single dialect
    the explorer uses for this node -- it rotates over the nodes; a probe uses all of them)"""
    st = node.stmt
    all_dialects = dialects
    one = (dialects, node.snap)
    if only is not None:
        one = ([dialects[only]], (node.snap[only],))
    variants = [("copy.copy", lambda: copy.copy(st))]
    if hasattr(st, "_clone"):
        variants.append(("_clone()", lambda: st._clone()))
    variants.append(("pickle round trip", lambda: pickle.loads(pickle.dumps(st))))
    problems = []
    for what, mk in variants:
        try:
            cp = mk()
        except ACCEPTABLE:
            if rec:
                rec.count("copies_refused:" + what)
            continue
        except (pickle.PicklingError, AttributeError, TypeError):
            if what == "pickle round trip":
                if rec:
                    rec.count("not_picklable")  # e.g. lambdas in options: the property is about statements that can be pickled
                continue
            raise
        node.keep.append(cp)
        if rec:
            rec.transition()
        # the shallow copies share every element with the original: one (rotating) dialect; the pickle round trip
        # builds new elements (and, in the tree, pickles whatever the earlier compilations memoised): every dialect
        dialects, base_snap = (all_dialects, node.snap) if what == "pickle round trip" else one
        snap = snapshot(cp, dialects)
        if snap != base_snap:
            d = first_diff(base_snap, snap, dialects)
            problems.append(("%s compiles differently" % what, "%s on %s" % (d[1], d[0]), "original: %r\ncopy:     %r" % (d[2], d[3])))
    return problems


def check_fresh_route(base, node, dialects, only=None):
    """The same chain applied to untouched objects (fresh base, fresh arguments, no ancestor ever compiled, copied
    or pickled) must compile like the node that was derived from compiled / copied / pickled ancestors: if compiling
    (or deriving from) a statement left anything behind in it, the two routes differ."""
    g = Args()
    mk, opsf = BASE_BY_NAME[base]
    ops = {o[0]: o[1] for o in opsf(g)}
    stmt = mk(g)
    for name in node.chain:
        stmt = call(stmt, ops[name])
        if stmt is None:
            return []
    base_snap = node.snap
    if only is not None:
        dialects, base_snap = [dialects[only]], (node.snap[only],)
    snap = snapshot(stmt, dialects)
    if snap != base_snap:
        d = first_diff(base_snap, snap, dialects)
        return [("derived from compiled ancestors it differs from the same chain on untouched objects",
                 "%s on %s" % (d[1], d[0]), "in the tree:      %r\nuntouched route:  %r" % (d[2], d[3]))]
    return []


def check_final(node, dialects):
    snap = snapshot(node.stmt, dialects)
    if snap != node.snap:
        d = first_diff(node.snap, snap, dialects)
        return [("statement changed after later derivations/compilations/copies", "%s on %s" % (d[1], d[0]),
                 "at creation: %r\nnow:         %r" % (d[2], d[3]))]
    return []


# ----------------------------------------------------------------- probe: one chain on fresh objects


def probe(base, chain, op, dialects):
    """Rebuild ``chain`` from a fresh base with fresh argument objects, doing to every node what the explorer does
    (two compilations on every dialect, copies of the last node), then apply ``op`` (if any) to the last node and
    re-validate every node of the chain.  Returns the problems found on the LAST node / the last call."""
    warnings.simplefilter("ignore")
    g = Args()
    mk, opsf = BASE_BY_NAME[base]
    ops = {o[0]: o[1] for o in opsf(g)}
    stmt = mk(g)
    snap0, problems = check_new(stmt, dialects)
    if chain or op is not None:
        problems = []
    node = Node((), stmt, snap0)
    nodes = [node]
    for i, name in enumerate(chain):
        new, pr = check_call(node, name, ops[name], dialects, True)
        if new is None or new is node.stmt:
            return None  # chain not constructible
        snap, pr2 = check_new(new, dialects)
        if i == len(chain) - 1 and op is None:
            problems = pr + pr2
        node = Node(node.chain + (name,), new, snap)
        nodes.append(node)
    if op is None:
        problems += check_copies(node, dialects)
        problems += check_fresh_route(base, node, dialects)
        for n in nodes:
            problems += check_final(n, dialects)
    else:
        new, pr = check_call(node, op, ops[op], dialects, True)
        problems += pr
        if new is not None and new is not node.stmt:
            _, pr2 = check_new(new, dialects)
            for n in nodes:
                problems += check_final(n, dialects)
    return problems


def minimise(base, chain, op, label, dialects):
    """drop calls from the chain (earliest first) while a problem of the same class persists on fresh objects;
    returns (chain, op, problem) or None when the problem does not reproduce outside the tree"""

    def has(ch):
        pr = probe(base, ch, op, dialects)
        for x in pr or ():
            if x[0] == label:
                return x
        return None

    cur = list(chain)
    found = has(cur)
    if found is None:
        return None
    i = 0
    while i < len(cur):
        trial = cur[:i] + cur[i + 1:]
        f2 = has(trial)
        if f2 is not None:
            cur, found = trial, f2
        else:
            i += 1
    return tuple(cur), op, found


def signature(base, chain, op, problem):
    return "%s: %s%s -> %s" % (problem[0], chain_name(base, chain), (" then ." + op) if op else "", problem[1])


_TREES_WITH_A_REPORTED_MODIFICATION = set()


_REPORTS = [0]
_SEEN_KEYS = set()
MAX_ANALYSED_PER_SHARD = 80


def report(rec, base, chain, op, problems, dialects, shard):
    for pr in problems:
        # one analysis per (class, what differs, the call that completed the chain): later, larger chains ending in
        # the same call with the same symptom shrink to the same minimal chain
        key = (pr[0], pr[1], chain[-1] if chain else None, op)
        if key in _SEEN_KEYS:
            rec.count("problems_repeating_an_analysed_one")
            continue
        _SEEN_KEYS.add(key)
        if tuple(shard) in _TREES_WITH_A_REPORTED_MODIFICATION:
            # a receiver of this tree is known (reported) to have been modified in place: a deviation that does not
            # reproduce on fresh objects is a consequence of that (statements share the receiver's internals)
            again = probe(base, tuple(chain), op, dialects)
            if not any(x[0] == pr[0] for x in (again or ())):
                rec.count("tree_only_deviations_explained_by_a_reported_receiver_modification")
                continue
        _REPORTS[0] += 1
        if _REPORTS[0] > MAX_ANALYSED_PER_SHARD:
            # enough minimised findings from this tree; the rest is counted (simplest-first order: these are larger)
            rec.count("further_problems_in_this_tree_not_minimised")
            rec.violation(signature(base, chain, op, pr) + " (not minimised)", pr[2],
                          dict(kind="tree", shard=list(shard), base=base, chain=list(chain), op=op))
            continue
        m = minimise(base, chain, op, pr[0], dialects)
        if m is None:
            if tuple(shard) in _TREES_WITH_A_REPORTED_MODIFICATION:
                # does not reproduce on fresh objects and a receiver of this tree is known to have been modified in
                # place (reported): statements sharing that receiver's internals deviate as a consequence
                rec.count("tree_only_deviations_explained_by_a_reported_receiver_modification")
                continue
            # only inside the tree (needs sibling effects): keep the tree as the replayable case
            rec.violation(signature(base, chain, op, pr) + " (inside the tree of shard %r only)" % (shard,), pr[2],
                          dict(kind="tree", shard=list(shard), base=base, chain=list(chain), op=op))
        else:
            ch2, op2, pr2 = m
            rec.violation(signature(base, ch2, op2, pr2), pr2[2], dict(kind="probe", base=base, chain=list(ch2), op=op2, label=pr2[0]))


# ----------------------------------------------------------------- the explorer


def explore(rec, base, first, depth, dialects, tier, shard):
    """root, every depth-1 child, the complete subtree below child number ``first``; then the final pass"""
    warnings.simplefilter("ignore")
    g = Args()
    mk, opsf = BASE_BY_NAME[base]
    ops = opsf(g)
    root_stmt = mk(g)
    root_snap, pr = check_new(root_stmt, dialects)
    if pr:
        report(rec, base, (), None, pr, dialects, shard)
    root = Node((), root_stmt, root_snap)
    nodes = [root]
    tainted = set()  # nodes already reported as modified: their later deviations are consequences, not new findings

    def expand(node, name, fn):
        rec.transition()
        new, pr = check_call(node, name, fn, dialects, False)
        if pr:
            now = snapshot(node.stmt, dialects)
            if now != node.snap:  # the property's own words: the SQL / parameters of the receiver changed
                d = first_diff(node.snap, now, dialects)
                pr.append(("receiver compiles differently after a generative call", "%s on %s" % (d[1], d[0]),
                           "before: %r\nafter:  %r" % (d[2], d[3])))
            report(rec, base, node.chain, name, pr, dialects, shard)
            tainted.add(node.chain)
            _TREES_WITH_A_REPORTED_MODIFICATION.add(tuple(shard))
            # statements derived earlier may share the modified internals: re-baseline every live node so that
            # only *new* changes are reported from here on (consequences of this one are counted, not reported)
            for other in nodes:
                s2 = snapshot(other.stmt, dialects)
                if s2 != other.snap:
                    rec.count("live_nodes_changed_as_a_consequence_of_a_reported_receiver_modification")
                    other.snap = s2
        if new is None:
            rec.count("calls_refused_or_not_applicable")
            return None
        if new is node.stmt:
            rec.count("calls_returning_the_receiver_unchanged")
            return None
        snap, pr = check_new(new, dialects, twice=False)
        rec.trace()
        chain = node.chain + (name,)
        if pr:
            report(rec, base, chain, None, pr, dialects, shard)
        n = Node(chain, new, snap)
        rec.state((base, chain))
        rec.case((base, chain), nontrivial=snap != node.snap)
        rec.outcome(snap)
        nodes.append(n)
        return n

    frontier = []
    for i, (name, fn, _) in enumerate(ops):
        n = expand(root, name, fn)
        if n is not None and i == first:
            frontier.append(n)
    core_names = set(name for name, _, core_op in ops if core_op)
    fourth = set([name for name, _, core_op in ops if core_op][:10])  # the 4th call: the first ten state-changing calls
    for lvl in range(2, depth + 1):
        nxt = []
        # the last level of a tier applies the state-changing ("core") half of the alphabet, below chains made of
        # core calls; the levels before it are complete
        last_extra = lvl == depth and depth >= 3
        for node in frontier:
            if last_extra and not all(c_ in core_names for c_ in node.chain):
                continue
            for name, fn, core_op in ops:
                if last_extra and not core_op:
                    continue
                if lvl == 4 and name not in fourth:
                    continue
                n = expand(node, name, fn)
                if n is not None:
                    nxt.append(n)
        frontier = nxt
    for i, node in enumerate(nodes):
        if node.chain in tainted:
            rec.count("checks_skipped_on_nodes_already_reported_as_modified")
            continue
        pr = check_copies(node, dialects, rec, only=i % len(dialects))
        pr += check_fresh_route(base, node, dialects, only=(i + 2) % len(dialects))
        rec.transition()
        if pr:
            report(rec, base, node.chain, None, pr, dialects, shard)
    for node in nodes:
        rec.trace()
        if node.chain in tainted:
            continue
        pr = check_final(node, dialects)
        if pr:
            key = (pr[0][0], pr[0][1], node.chain[-1] if node.chain else None, None)
            if key in _SEEN_KEYS:
                rec.count("problems_repeating_an_analysed_one")
                continue
            attribute_final(rec, base, node, pr, ops, dialects, shard)
            _SEEN_KEYS.add(key)
    return nodes


def attribute_final(rec, base, node, pr, ops, dialects, shard):
    """a node no longer compiles to its snapshot: find the call on it that did it (fresh objects), else report the tree"""
    for name, fn, _ in ops:
        res = probe(base, node.chain, name, dialects)
        hit = [x for x in (res or ()) if x[0] in ("receiver compiles differently after a generative call",
                                                  "statement changed after later derivations/compilations/copies")]
        if hit:
            report(rec, base, node.chain, name, hit[:1], dialects, shard)
            return
    report(rec, base, node.chain, None, pr, dialects, shard)


def run_shard(shard, tier, rec):
    base, first = shard
    _REPORTS[0] = 0
    _SEEN_KEYS.clear()
    _TREES_WITH_A_REPORTED_MODIFICATION.discard(tuple(shard))
    dialects = the_dialects()
    depth = 3 if tier == "quick" else 4
    nodes = explore(rec, base, first, depth, dialects, tier, shard)
    rec.count("nodes", len(nodes))
    for x in sorted(INTERNAL_ERRORS):
        rec.note("internal error met (not judged by C03, see C22): " + x)
    INTERNAL_ERRORS.clear()
    for n in nodes[-3:]:
        rec.sample(dict(chain=chain_name(base, n.chain), sqlite=n.snap[0][0].replace("\n", " ")[:200]), limit=2)


def replay(case):
    """re-build exactly the chain (for a tree-only finding: the shard's tree) without the explorer's bookkeeping"""
    from ..core import Rec, StopShard

    rec = Rec(ID)
    warnings.simplefilter("ignore")
    dialects = the_dialects()
    base = case["base"]
    try:
        if case["kind"] == "tree":
            for tier in ("quick", "thorough"):
                explore(rec, base, case["shard"][1], 3 if tier == "quick" else 4, dialects, tier, tuple(case["shard"]))
                if rec.violations:
                    break
        else:
            pr = probe(base, tuple(case["chain"]), case.get("op"), dialects)
            for x in pr or ():
                if x[0] == case["label"]:
                    rec.violation(signature(base, tuple(case["chain"]), case.get("op"), x), x[2], case)
    except StopShard:
        pass
    return [(v["sig"], v["detail"]) for v in rec.violations]
