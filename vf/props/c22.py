"""C22 compiling a well-formed construct never fails with an internal error (engine I).

Enumerated inputs, each compiled on every dialect *variant* with every compile-option variant:

* the stmtgen family (21 base shapes x feature table, all assignments within d deviations; d=1 quick, d=2 thorough);
* nesting products: every base shape (thorough: every d=1 member) embedded into every base shape as CTE, referenced
  CTE, FROM-subquery join, scalar subquery in the columns / ORDER BY / SET / RETURNING, IN / EXISTS criterion, set
  operation, LATERAL, INSERT..FROM SELECT source, sqlite/postgresql/mysql upsert source, CREATE TABLE AS, CREATE VIEW;
* DDL: a table feature universe (column type, primary key / unique / check / foreign key kinds, index kinds with
  dialect options, server defaults, identity, computed, sequences, comments, schema, names that need quoting, table
  prefixes and per-dialect table options) within d deviations of a base table, each table yielding CreateTable,
  DropTable, CreateIndex/DropIndex, AddConstraint/DropConstraint, Create/DropSequence, comment DDL, Create/DropSchema.

Dialect variants: sqlite, postgresql, mysql, mariadb, mssql, oracle with their drivers' dialect classes, every
paramstyle, the server versions each dialect branches on, and every boolean capability flag a compiler consults
flipped one at a time.  Compile options: default, literal_binds, render_postcompile, schema_translate_map,
for_executemany (DML).

Oracle (as the property states it): the outcome is success, CompileError / UnsupportedCompilationError,
InvalidRequestError or ArgumentError (and subclasses), or a NotImplementedError that carries an explanation (the
deliberate "this backend does not support ..." refusals; a bare NotImplementedError() is an abstract method reached by
accident).  Anything else is a violation keyed by exception type and the innermost SQLAlchemy frame:
``internal <Exception> in <file>:<function>``; the replay case holds the first (simplest) construct / dialect variant /
option that reaches it.

The product is deviation-bounded: every construct meets every dialect variant under default compile options, and
every non-default compile option under the default dialect of each backend; the cases only the thorough tier adds
meet the default / driver / paramstyle / server-version variants (not the single-flag flips).

Mutations caught (each alone in a private copy, ``VF_REPO=/tmp/wt-stmt1 ./check C22 --no-evidence``; the clean tree
gives the 4 reported signatures, each mutation one more):
  X1  dialects/sqlite/base.py visit_on_conflict_do_update: self.stack[-1] -> self.stack[0] (assumes a top-level INSERT)
      -> internal AttributeError in dialects/sqlite/base.py:visit_on_conflict_do_update (upsert nested as CTE)
  X2b sql/compiler.py visit_textual_select: "self._default_stack_entry if toplevel else" dropped
      -> internal IndexError in sql/compiler.py:visit_textual_select
  X3  dialects/mysql/base.py visit_cast(self, cast, **kw) -> visit_cast(self, cast) (signature drift) -> internal TypeError
  X4  dialects/mysql/base.py visit_create_index: "if col.name in length" -> "if col.name" -> internal KeyError
Not caught, equivalent for every standard EXTRACT field: mssql visit_extract ``extract_map.get(f, f)`` -> ``extract_map[f]``
(all fields the constructs use are in the map).
"""
from __future__ import annotations

import traceback
import types
import warnings

from sqlalchemy import ARRAY
from sqlalchemy import BigInteger
from sqlalchemy import Boolean
from sqlalchemy import CheckConstraint
from sqlalchemy import Column
from sqlalchemy import Computed
from sqlalchemy import Date
from sqlalchemy import DateTime
from sqlalchemy import Double
from sqlalchemy import Enum
from sqlalchemy import exc as sa_exc
from sqlalchemy import exists
from sqlalchemy import Float
from sqlalchemy import ForeignKey
from sqlalchemy import ForeignKeyConstraint
from sqlalchemy import func
from sqlalchemy import Identity
from sqlalchemy import Index
from sqlalchemy import insert
from sqlalchemy import Integer
from sqlalchemy import Interval
from sqlalchemy import JSON
from sqlalchemy import LargeBinary
from sqlalchemy import literal
from sqlalchemy import MetaData
from sqlalchemy import Numeric
from sqlalchemy import PickleType
from sqlalchemy import PrimaryKeyConstraint
from sqlalchemy import schema as sa_schema
from sqlalchemy import select
from sqlalchemy import Sequence
from sqlalchemy import SmallInteger
from sqlalchemy import String
from sqlalchemy import Table
from sqlalchemy import Text
from sqlalchemy import text
from sqlalchemy import Time
from sqlalchemy import true
from sqlalchemy import Unicode
from sqlalchemy import UniqueConstraint
from sqlalchemy import update
from sqlalchemy import Uuid
from sqlalchemy.engine import url as sa_url
from sqlalchemy.orm import Query
from sqlalchemy.sql.dml import Insert
from sqlalchemy.sql.dml import Update
from sqlalchemy.sql.dml import UpdateBase
from sqlalchemy.sql.selectable import HasCTE
from sqlalchemy.sql.selectable import Select
from sqlalchemy.sql.selectable import SelectBase

from ..core import SA_DIR
from ..worlds import stmtgen as sg

ID = "C22"
LEVEL = "exploration"
META = dict(
    engine="I",
    technique="exhaustive small-scope enumeration of statements, nestings and DDL x dialect variants x compile options; "
    "outcome classification against the documented error set",
    design_ref="DESIGN.md §5 C22",
    level_text="Every member of the stmtgen family within d feature deviations, every pairwise nesting of shapes in 17 "
    "embedding modes, and every DDL construct of a table-feature universe within d deviations is compiled on every "
    "dialect variant (6 backends, their driver dialect classes, all paramstyles, branched-on server versions, each "
    "compiler-consulted capability flag flipped once) under 4-5 compile-option variants. Complete for the bound; an "
    "internal exception reachable by one of these inputs is found.",
    level_note="Trusted: the outcome classifier (exception class test). Dialects are instantiated without a DBAPI "
    "connection; version-dependent behaviour is reached by setting server_version_info / the flags that "
    "initialize() would set. Constructs outside the universe (custom types, user-defined compilers) are not covered.",
    rule="case = (construct id, dialect variant, compile options); non-trivial = the compile produced a statement that "
    "differs from the same construct's default-variant output of that backend, or ended in a documented error "
    "(a dialect/option branch was really exercised); distinct by construct id and variant",
    assumptions=["constructs are built through the public constructors; those the constructors refuse are not inputs"],
    bounds=dict(
        quick="stmtgen d=1; nestings base x base x 17 modes; DDL table features d=1; all dialect variants; 4-5 compile options",
        thorough="stmtgen d=2; nestings (d=1 member) into base x 17 modes; DDL table features d=2; all dialect variants",
    ),
)
SHARD_TIMEOUT = dict(quick=600, thorough=3000)

ALLOWED = (sa_exc.CompileError, sa_exc.InvalidRequestError, sa_exc.ArgumentError)

# ------------------------------------------------------------------ dialect variants


def _fake_sqlite_dbapi(version):
    import sqlite3

    ns = types.SimpleNamespace(**{k: getattr(sqlite3, k) for k in dir(sqlite3) if not k.startswith("__")})
    ns.sqlite_version_info = version
    ns.sqlite_version = ".".join(str(x) for x in version)
    return ns


def _mk(name, **kw):
    return sa_url.URL.create(name).get_dialect()(**kw)


def _flag(name, flag, value=None):
    """dialect with one capability flag flipped (or set to ``value``); a read-only property is overridden on a
    one-off subclass, which is what a server of the corresponding version makes it return"""

    def make():
        d = _mk(name)
        cur = getattr(d, flag)
        new = (not cur) if value is None else value
        try:
            setattr(d, flag, new)
        except AttributeError:
            d.__class__ = type(type(d).__name__, (type(d),), {flag: new})
        return d

    return make


def _version(name, v, hook=None):
    def make():
        d = _mk(name)
        d.server_version_info = v
        if hook and hasattr(d, hook):
            getattr(d, hook)()
        return d

    return make


GENERIC_FLAGS = (
    "supports_native_boolean", "supports_multivalues_insert", "supports_default_values", "supports_default_metavalue",
    "supports_empty_insert", "supports_identity_columns", "supports_simple_order_by_label", "cte_follows_insert",
    "tuple_in_values", "div_is_floordiv", "supports_native_uuid", "supports_sequences", "supports_alter",
    "supports_comments", "supports_constraint_comments", "insert_returning", "update_returning", "delete_returning",
    "favor_returning_over_lastrowid", "supports_native_enum", "supports_native_decimal", "supports_for_update_of",
)
OWN_FLAGS = dict(
    sqlite=("supports_cast", "_broken_dotted_colnames"),
    postgresql=("_supports_jsonb_subscripting", "supports_smallserial", "_supports_create_index_concurrently",
                "_supports_drop_index_concurrently", "_backslash_escapes", "supports_virtual_generated_columns"),
    mysql=("use_mysql_for_share", "_support_float_cast", "_support_default_function",
           "_requires_alias_for_on_duplicate_key", "_backslash_escapes"),
    mariadb=("_support_float_cast", "_support_default_function", "_backslash_escapes"),
    mssql=("_supports_offset_fetch", "deprecate_large_types", "legacy_schema_aliasing", "use_scope_identity",
           "scope_identity_must_be_embedded"),
    oracle=("use_ansi", "optimize_limits", "_supports_offset_fetch", "_use_nchar_for_unicode", "_supports_oracle_json",
            "_supports_char_length", "_supports_update_returning_computed_cols"),
)
DRIVERS = dict(
    sqlite=("sqlite+pysqlite", "sqlite+aiosqlite", "sqlite+pysqlite_numeric", "sqlite+pysqlite_dollar"),
    postgresql=("postgresql+psycopg2", "postgresql+psycopg", "postgresql+asyncpg", "postgresql+pg8000", "postgresql+psycopg_async"),
    mysql=("mysql+mysqldb", "mysql+pymysql", "mysql+asyncmy", "mysql+aiomysql", "mysql+mysqlconnector"),
    mariadb=("mariadb+mysqldb", "mariadb+mariadbconnector", "mariadb+pymysql"),
    mssql=("mssql+pyodbc", "mssql+pymssql", "mssql+aioodbc"),
    oracle=("oracle+cx_oracle", "oracle+oracledb", "oracle+oracledb_async"),
)
VERSIONS = dict(
    postgresql=((9, 4), (12, 0), (17, 0)),
    mysql=((5, 5, 0), (5, 7, 20), (8, 0, 30)),
    mariadb=((10, 1, 0), (10, 6, 0), (11, 4, 0)),
    mssql=((8,), (10,), (11,), (16,)),
    oracle=((9, 0), (11, 2), (12, 2), (21, 0), (23, 4)),
)
PARAMSTYLES = ("qmark", "named", "format", "pyformat", "numeric", "numeric_dollar")
BACKENDS = ("sqlite", "postgresql", "mysql", "mariadb", "mssql", "oracle")

_VARIANTS = None


def variants():
    """ordered list of (label, backend, factory); the first variant of a backend is its default"""
    global _VARIANTS
    if _VARIANTS is not None:
        return _VARIANTS
    out = []
    for be in BACKENDS:
        out.append(("%s default" % be, be, lambda be=be: _mk(be)))
        for drv in DRIVERS[be]:
            out.append(("%s driver %s" % (be, drv), be, lambda drv=drv: _mk(drv)))
        for ps in PARAMSTYLES:
            out.append(("%s paramstyle=%s" % (be, ps), be, lambda be=be, ps=ps: _mk(be, paramstyle=ps)))
        out.append(("%s label_length=12" % be, be, lambda be=be: _mk(be, label_length=12)))
        for v in VERSIONS.get(be, ()):
            out.append(("%s server_version=%s" % (be, ".".join(map(str, v))), be,
                        _version(be, v, "_setup_version_attributes")))
        if be == "sqlite":
            for v in ((3, 7, 15), (3, 24, 0), (3, 34, 0), (3, 40, 1)):
                out.append(("sqlite library %s" % ".".join(map(str, v)), be,
                            lambda v=v: _mk("sqlite", dbapi=_fake_sqlite_dbapi(v))))
        for fl in GENERIC_FLAGS + OWN_FLAGS[be]:
            out.append(("%s %s flipped" % (be, fl), be, _flag(be, fl)))
    # keep the ones this installation can build (e.g. a driver dialect class that is not importable is skipped)
    ok = []
    for label, be, mk in out:
        try:
            mk()
        except (sa_exc.NoSuchModuleError, ImportError, AttributeError):
            continue
        ok.append((label, be, mk))
    _VARIANTS = ok
    return ok


# ------------------------------------------------------------------ statements and nestings

MODES = (
    "cte", "cte_ref", "from_join", "scalar_col", "scalar_order", "where_in", "where_exists", "union", "lateral",
    "insert_from", "update_set", "returning_scalar", "upsert_sqlite", "upsert_pg", "upsert_mysql", "create_table_as",
    "create_view",
)


def as_element(built):
    s = built.stmt
    if isinstance(s, Query):
        s = s.statement
    return s


def nest(outer, mode, inner):
    """embed ``inner`` into ``outer`` (both ClauseElements); None when the mode does not apply to these kinds.
    Raises whatever the constructors raise (-> not an input)."""
    a = sg.a
    inner_sel = isinstance(inner, SelectBase)
    inner_ret = isinstance(inner, UpdateBase) and bool(inner._returning)
    isub = None
    if inner_sel:
        isub = inner.subquery("n_sub")
    elif inner_ret:
        isub = inner.cte("n_dml")
    col0 = None
    if isub is not None and len(isub.c) > 0:
        col0 = list(isub.c)[0]
    scal = select(func.count()).select_from(isub).scalar_subquery() if isub is not None else None

    if mode == "cte":
        if not (isinstance(inner, HasCTE) and hasattr(outer, "add_cte")):
            return None
        return outer.add_cte(inner.cte("n_cte"))
    if mode == "cte_ref":
        if not (isinstance(inner, HasCTE) and (inner_sel or inner_ret) and hasattr(outer, "where") and isinstance(outer, (Select, UpdateBase))):
            return None
        if isinstance(outer, Insert):
            return None
        ct = inner.cte("n_ref")
        cols = list(ct.c)
        if not cols:
            return None
        return outer.where(literal(1).in_(select(cols[0])))
    if col0 is None:
        return None
    if mode == "from_join":
        if not isinstance(outer, SelectBase):
            return None
        osub = outer.subquery("o_sub")
        oc = list(osub.c)
        if not oc:
            return None
        return select(oc[0], col0).select_from(osub.join(isub, oc[0] == col0, isouter=True))
    if mode == "scalar_col":
        if isinstance(outer, Select):
            return outer.add_columns(scal.label("n_sc"))
        return None
    if mode == "scalar_order":
        if isinstance(outer, SelectBase) and hasattr(outer, "order_by"):
            return outer.order_by(scal)
        return None
    if mode == "where_in":
        if isinstance(outer, (Select, UpdateBase)) and not isinstance(outer, Insert) and hasattr(outer, "where"):
            return outer.where(literal(1).in_(select(col0)))
        return None
    if mode == "where_exists":
        if isinstance(outer, (Select, UpdateBase)) and not isinstance(outer, Insert) and hasattr(outer, "where"):
            return outer.where(exists(select(col0).where(col0 == 1)))
        return None
    if mode == "union":
        if isinstance(outer, SelectBase) and inner_sel and hasattr(outer, "union_all"):
            return outer.union_all(inner)
        return None
    if mode == "lateral":
        if isinstance(outer, SelectBase) and inner_sel and hasattr(inner, "lateral"):
            osub = outer.subquery("o_sub")
            lat = inner.lateral("n_lat")
            oc, lc = list(osub.c), list(lat.c)
            if not oc or not lc:
                return None
            return select(oc[0], lc[0]).select_from(osub.join(lat, true()))
        return None
    if mode == "insert_from":
        if isinstance(outer, Insert):
            return insert(a).from_select(["x"], select(col0)).returning(a.c.id)
        return None
    if mode == "update_set":
        if isinstance(outer, Update):
            return update(a).where(a.c.id == 1).values(x=scal)
        return None
    if mode == "returning_scalar":
        if isinstance(outer, UpdateBase):
            return outer.returning(scal.label("n_ret"))
        return None
    if mode in ("upsert_sqlite", "upsert_pg", "upsert_mysql"):
        if not isinstance(outer, Insert):
            return None
        if mode == "upsert_sqlite":
            from sqlalchemy.dialects.sqlite import insert as ins

            s = ins(a).from_select(["id", "x"], select(col0, col0))
            return s.on_conflict_do_update(index_elements=[a.c.id], set_=dict(x=s.excluded.x + scal), where=a.c.x < scal)
        if mode == "upsert_pg":
            from sqlalchemy.dialects.postgresql import insert as ins

            s = ins(a).from_select(["id", "x"], select(col0, col0))
            return s.on_conflict_do_update(index_elements=[a.c.id], index_where=a.c.x > 0, set_=dict(x=s.excluded.x + scal),
                                           where=a.c.x < scal).returning(a.c.id)
        from sqlalchemy.dialects.mysql import insert as ins

        s = ins(a).from_select(["id", "x"], select(col0, col0))
        return s.on_duplicate_key_update(x=s.inserted.x + scal)
    if mode in ("create_table_as", "create_view"):
        if not inner_sel or not isinstance(outer, SelectBase):
            return None
        # the SELECT that defines the new table / view: the outer statement joined to the inner one
        osub = outer.subquery("o_sub")
        oc = list(osub.c)
        if not oc:
            return None
        src = select(oc[0].label("c1"), col0.label("c2")).select_from(osub.join(isub, oc[0] == col0))
        if mode == "create_table_as":
            return sa_schema.CreateTableAs(src, "n_tbl", temporary=True, if_not_exists=True)
        return sa_schema.CreateView(src, "n_view", or_replace=True)
    raise AssertionError(mode)


def build_case(case):
    """construct for a case descriptor; raises sg.NotConstructible when the constructors refuse"""
    kind = case[0]
    try:
        if kind == "stmt":
            return as_element(sg.build_exec(*sg.parse_sid(case[1])))
        if kind == "nest":
            outer = as_element(sg.build_exec(*sg.parse_sid(case[1])))
            inner = as_element(sg.build_exec(*sg.parse_sid(case[3])))
            r = nest(outer, case[2], inner)
            if r is None:
                raise sg.NotConstructible("mode %s does not apply" % case[2])
            return r
        if kind == "ddl":
            return ddl_constructs(ddl_parse(case[1]))[case[2]]
    except (sa_exc.ArgumentError, sa_exc.InvalidRequestError, sa_exc.CompileError) as e:
        raise sg.NotConstructible(str(e)) from e
    except KeyError as e:
        if kind == "ddl":
            raise sg.NotConstructible("no construct %s for this table" % (e,)) from e
        raise
    except NotImplementedError as e:
        raise sg.NotConstructible(str(e)) from e
    raise AssertionError(case)


# ------------------------------------------------------------------ DDL universe

DDL_FEATURES = [
    ("col_type", ("Integer", "BigInteger", "SmallInteger", "String20", "String", "Text", "Unicode", "Boolean", "BooleanCk",
                  "Enum", "EnumCk", "EnumNonNative", "Numeric", "Float", "Float53", "Double", "DateTimeTZ", "Date", "Time",
                  "Interval", "LargeBinary", "JSON", "Uuid", "UuidStr", "ArrayInt", "Pickle")),
    ("pk", ("single", "composite", "none", "named", "no_autoinc", "bigint", "string")),
    ("unique", ("none", "column", "constraint", "named_deferrable", "composite")),
    ("check", ("none", "text", "expr", "named", "column_level")),
    ("fk", ("none", "column", "constraint", "composite", "ondelete", "deferrable", "use_alter", "self", "match", "named")),
    ("index", ("none", "plain", "unique", "expr", "desc", "partial", "column_flag", "mysql_length", "mssql_include",
               "pg_using", "oracle_bitmap", "sqlite_where", "pg_ops", "mysql_prefix", "mssql_clustered", "pg_concurrently", "pg_nulls")),
    ("server_default", ("none", "text", "func", "literal", "string", "true", "expr")),
    ("identity", ("none", "default", "always", "options", "on_null")),
    ("computed", ("none", "plain", "stored", "virtual")),
    ("sequence", ("none", "plain", "options", "schema")),
    ("comment", ("none", "table", "column", "both", "quote")),
    ("schema", ("none", "s1", "quoted")),
    ("names", ("plain", "reserved", "mixed", "space", "quotechar", "long", "unicode")),
    ("prefix", ("none", "temporary")),
    ("table_opt", ("none", "mysql_engine", "mysql_many", "sqlite_rowid", "sqlite_strict", "pg_partition", "pg_inherits",
                   "pg_with", "oracle_compress", "mssql_none", "oracle_tablespace", "pg_tablespace", "pg_unlogged")),
    ("nullable", ("default", "not_null")),
    ("if_exists", ("no", "yes")),
]
DDL_CONSTRUCTS = (
    "CreateTable", "DropTable", "CreateIndex", "DropIndex", "AddConstraintUnique", "DropConstraintUnique",
    "AddConstraintCheck", "DropConstraintCheck", "AddConstraintFK", "DropConstraintFK", "AddConstraintPK", "DropConstraintPK",
    "CreateSequence", "DropSequence", "SetTableComment", "DropTableComment", "SetColumnComment", "DropColumnComment",
    "SetConstraintComment", "DropConstraintComment", "CreateSchema", "DropSchema", "CreateColumn",
)


def ddl_base():
    return {f: v[0] for f, v in DDL_FEATURES}


def ddl_neighbours(d):
    import itertools

    b0 = ddl_base()
    yield dict(b0)
    for k in range(1, d + 1):
        for idxs in itertools.combinations(range(len(DDL_FEATURES)), k):
            for combo in itertools.product(*[DDL_FEATURES[i][1][1:] for i in idxs]):
                f = dict(b0)
                for i, v in zip(idxs, combo):
                    f[DDL_FEATURES[i][0]] = v
                yield f


def ddl_sid(f):
    b0 = ddl_base()
    return "table[%s]" % ",".join("%s=%s" % (k, f[k]) for k, _ in DDL_FEATURES if f[k] != b0[k])


def ddl_parse(s):
    f = ddl_base()
    body = s[len("table["):-1]
    if body:
        for part in body.split(","):
            k, v = part.split("=", 1)
            f[k] = v
    return f


def _coltype(name):
    return {
        "Integer": lambda: Integer(), "BigInteger": lambda: BigInteger(), "SmallInteger": lambda: SmallInteger(),
        "String20": lambda: String(20), "String": lambda: String(), "Text": lambda: Text(), "Unicode": lambda: Unicode(30),
        "Boolean": lambda: Boolean(), "BooleanCk": lambda: Boolean(create_constraint=True, name="ck_bool"),
        "Enum": lambda: Enum("a", "b'c", name="en1"), "EnumCk": lambda: Enum("a", "b", name="en2", create_constraint=True),
        "EnumNonNative": lambda: Enum("a", "b", native_enum=False, length=5),
        "Numeric": lambda: Numeric(10, 2), "Float": lambda: Float(), "Float53": lambda: Float(53), "Double": lambda: Double(),
        "DateTimeTZ": lambda: DateTime(timezone=True), "Date": lambda: Date(), "Time": lambda: Time(), "Interval": lambda: Interval(),
        "LargeBinary": lambda: LargeBinary(), "JSON": lambda: JSON(), "Uuid": lambda: Uuid(), "UuidStr": lambda: Uuid(as_uuid=False, native_uuid=False),
        "ArrayInt": lambda: ARRAY(Integer), "Pickle": lambda: PickleType(),
    }[name]()


_NAMES = dict(
    plain=("t", "x"), reserved=("select", "order"), mixed=("MyTable", "MyCol"), space=("my table", "my col"),
    quotechar=('t"q', "x`y]z"), long=("t" * 70, "x" * 70), unicode=("té中", "xü"),
)


def ddl_table(f):
    """(MetaData, Table, extras) for one feature assignment"""
    m = MetaData()
    tname, xname = _NAMES[f["names"]]
    schema = {"none": None, "s1": "s1", "quoted": "My Schema"}[f["schema"]]
    other = Table("other", m, Column("id", Integer, primary_key=True), Column("k2", Integer), UniqueConstraint("id", "k2"), schema=schema)
    cols = []
    args = []
    kw = {}
    pk = f["pk"]
    if f["identity"] == "default":
        idargs = [Identity()]
    elif f["identity"] == "always":
        idargs = [Identity(always=True)]
    elif f["identity"] == "options":
        idargs = [Identity(start=5, increment=2, minvalue=1, maxvalue=1000, cycle=True, cache=3)]
    elif f["identity"] == "on_null":
        idargs = [Identity(always=False, on_null=True, start=1)]
    else:
        idargs = []
    if f["sequence"] == "plain":
        idargs = [Sequence("seq1")] + idargs
    elif f["sequence"] == "options":
        idargs = [Sequence("seq2", start=3, increment=2, minvalue=1, maxvalue=99, cycle=True, cache=2, metadata=m)] + idargs
    elif f["sequence"] == "schema":
        idargs = [Sequence("seq3", schema="s2", optional=True)] + idargs
    pktype = {"bigint": BigInteger, "string": lambda: String(10)}.get(pk, Integer)()
    if pk in ("single", "bigint", "string"):
        cols.append(Column("id", pktype, *idargs, primary_key=True))
    elif pk == "no_autoinc":
        cols.append(Column("id", pktype, *idargs, primary_key=True, autoincrement=False))
    elif pk == "composite":
        cols.append(Column("id", pktype, *idargs, primary_key=True))
        cols.append(Column("id2", Integer, primary_key=True, autoincrement=False))
    elif pk == "named":
        cols.append(Column("id", pktype, *idargs))
        args.append(PrimaryKeyConstraint("id", name="pk_named"))
    else:
        cols.append(Column("id", pktype, *idargs))
    xkw = {}
    xargs = []
    sd = f["server_default"]
    if sd == "text":
        xkw["server_default"] = text("0")
    elif sd == "func":
        xkw["server_default"] = func.now()
    elif sd == "literal":
        xkw["server_default"] = literal(5)
    elif sd == "string":
        xkw["server_default"] = "it's"
    elif sd == "true":
        xkw["server_default"] = true()
    elif sd == "expr":
        xkw["server_default"] = func.coalesce(literal(1), 2) + 1
    if f["computed"] == "plain":
        xargs.append(Computed("id + 1"))
    elif f["computed"] == "stored":
        xargs.append(Computed(Column("id", Integer) + 1, persisted=True))
    elif f["computed"] == "virtual":
        xargs.append(Computed("id * 2", persisted=False))
    if f["comment"] in ("column", "both"):
        xkw["comment"] = "col comment"
    elif f["comment"] == "quote":
        xkw["comment"] = "it's a \\ 'quoted' %s comment"
    if f["nullable"] == "not_null":
        xkw["nullable"] = False
    if f["unique"] == "column":
        xkw["unique"] = True
    if f["index"] == "column_flag":
        xkw["index"] = True
    if f["fk"] == "column":
        xargs.append(ForeignKey(other.c.id))
    elif f["fk"] == "named":
        xargs.append(ForeignKey(other.c.id, name="fk_named"))
    if f["check"] == "column_level":
        xargs.append(CheckConstraint("%s > 0" % "x"))
    xcol = Column(xname, _coltype(f["col_type"]), *xargs, **xkw)
    cols.append(xcol)
    cols.append(Column("y", Integer))
    u = f["unique"]
    if u == "constraint":
        args.append(UniqueConstraint(xname))
    elif u == "named_deferrable":
        args.append(UniqueConstraint(xname, name="uq_named", deferrable=True, initially="DEFERRED"))
    elif u == "composite":
        args.append(UniqueConstraint(xname, "y", name="uq_comp"))
    ck = f["check"]
    if ck == "text":
        args.append(CheckConstraint("y > 0"))
    elif ck == "expr":
        args.append(CheckConstraint(Column("y", Integer) > literal(5), name="ck_expr"))
    elif ck == "named":
        args.append(CheckConstraint("y > 0 AND y < 100", name="ck_named", comment="a check"))
    fk = f["fk"]
    if fk == "constraint":
        args.append(ForeignKeyConstraint(["y"], [other.c.id]))
    elif fk == "composite":
        args.append(ForeignKeyConstraint(["y", "id"], [other.c.id, other.c.k2], name="fk_comp"))
    elif fk == "ondelete":
        args.append(ForeignKeyConstraint(["y"], [other.c.id], ondelete="CASCADE", onupdate="SET NULL", name="fk_od"))
    elif fk == "deferrable":
        args.append(ForeignKeyConstraint(["y"], [other.c.id], deferrable=True, initially="IMMEDIATE", name="fk_def"))
    elif fk == "use_alter":
        args.append(ForeignKeyConstraint(["y"], [other.c.id], use_alter=True, name="fk_alter"))
    elif fk == "self":
        args.append(ForeignKeyConstraint(["y"], [("%s." % schema if schema else "") + tname + ".id"], name="fk_self"))
    elif fk == "match":
        args.append(ForeignKeyConstraint(["y"], [other.c.id], match="FULL", name="fk_match", comment="fk comment"))
    if f["comment"] in ("table", "both", "quote"):
        kw["comment"] = "table 'comment'"
    if f["prefix"] == "temporary":
        kw["prefixes"] = ["TEMPORARY"]
    kw.update({
        "none": {}, "mysql_engine": dict(mysql_engine="InnoDB"),
        "mysql_many": dict(mysql_engine="InnoDB", mysql_charset="utf8mb4", mysql_auto_increment="5", mysql_partition_by="HASH(id)", mysql_partitions="4",
                           mariadb_engine="Aria"),
        "sqlite_rowid": dict(sqlite_with_rowid=False), "sqlite_strict": dict(sqlite_strict=True, sqlite_autoincrement=True),
        "pg_partition": dict(postgresql_partition_by="RANGE (id)"), "pg_inherits": dict(postgresql_inherits=("other",)),
        "pg_with": dict(postgresql_with_oids=False, postgresql_on_commit="DROP", postgresql_using="heap"),
        "oracle_compress": dict(oracle_compress=6, oracle_on_commit="PRESERVE ROWS"), "mssql_none": {},
        "oracle_tablespace": dict(oracle_tablespace="ts1"), "pg_tablespace": dict(postgresql_tablespace="ts1"),
        "pg_unlogged": dict(prefixes=["UNLOGGED"]),
    }[f["table_opt"]])
    t = Table(tname, m, *(cols + args), schema=schema, **kw)
    ix = f["index"]
    index = None
    if ix == "plain":
        index = Index("ix_plain", t.c[xname])
    elif ix == "unique":
        index = Index("ix_unique", t.c[xname], t.c.y, unique=True)
    elif ix == "expr":
        index = Index("ix_expr", func.lower(t.c[xname]), t.c.y + 1)
    elif ix == "desc":
        index = Index("ix_desc", t.c[xname].desc(), t.c.y.asc().nulls_last())
    elif ix == "partial":
        index = Index("ix_partial", t.c.y, postgresql_where=t.c.y > 5, sqlite_where=t.c.y > 5, mssql_where=t.c.y > 5)
    elif ix == "mysql_length":
        index = Index("ix_len", t.c[xname], t.c.y, mysql_length={xname: 5}, mariadb_length=4)
    elif ix == "mssql_include":
        index = Index("ix_inc", t.c.y, mssql_include=[xname], postgresql_include=[xname])
    elif ix == "pg_using":
        index = Index("ix_using", t.c.y, postgresql_using="gin", postgresql_with={"fillfactor": 50}, mysql_using="hash", mariadb_using="btree")
    elif ix == "oracle_bitmap":
        index = Index("ix_bitmap", t.c.y, oracle_bitmap=True, oracle_compress=1)
    elif ix == "sqlite_where":
        index = Index("ix_sw", t.c.y, sqlite_where=text("y > 0"))
    elif ix == "pg_ops":
        index = Index("ix_ops", t.c[xname], func.lower(t.c[xname]).label("lx"), postgresql_ops={xname: "text_pattern_ops", "lx": "text_pattern_ops"})
    elif ix == "mysql_prefix":
        index = Index("ix_pre", t.c.y, mysql_prefix="FULLTEXT", mysql_with_parser="ngram", mariadb_prefix="FULLTEXT")
    elif ix == "mssql_clustered":
        index = Index("ix_cl", t.c.y, mssql_clustered=True, mssql_columnstore=False)
    elif ix == "pg_concurrently":
        index = Index("ix_conc", t.c.y, postgresql_concurrently=True, postgresql_tablespace="ts1")
    elif ix == "pg_nulls":
        index = Index("ix_nnd", t.c.y, unique=True, postgresql_nulls_not_distinct=True)
    elif ix == "column_flag":
        index = sorted(t.indexes, key=lambda i: i.name or "")[0] if t.indexes else None
    return m, t, index, xname


def ddl_constructs(f):
    """name -> DDL construct for every construct kind this table gives rise to"""
    m, t, index, xname = ddl_table(f)
    ie = f["if_exists"] == "yes"
    out = {}
    out["CreateTable"] = sa_schema.CreateTable(t, if_not_exists=ie)
    out["DropTable"] = sa_schema.DropTable(t, if_exists=ie)
    if index is not None:
        out["CreateIndex"] = sa_schema.CreateIndex(index, if_not_exists=ie)
        out["DropIndex"] = sa_schema.DropIndex(index, if_exists=ie)
    for con in sorted(t.constraints, key=lambda c_: (type(c_).__name__, str(c_.name))):
        kind = {"UniqueConstraint": "Unique", "CheckConstraint": "Check", "ForeignKeyConstraint": "FK", "PrimaryKeyConstraint": "PK"}.get(type(con).__name__)
        if kind is None or ("AddConstraint" + kind) in out:
            continue
        if kind == "PK" and not len(con.columns):
            continue
        out["AddConstraint" + kind] = sa_schema.AddConstraint(con)
        out["DropConstraint" + kind] = sa_schema.DropConstraint(con, cascade=ie, if_exists=ie) if con.name else sa_schema.DropConstraint(con)
        if getattr(con, "comment", None):
            out["SetConstraintComment"] = sa_schema.SetConstraintComment(con)
            out["DropConstraintComment"] = sa_schema.DropConstraintComment(con)
    seqs = sorted(m._sequences.values(), key=lambda s_: s_.name)
    for col in t.c:
        if isinstance(col.default, Sequence) and col.default not in seqs:
            seqs.append(col.default)
    if seqs:
        out["CreateSequence"] = sa_schema.CreateSequence(seqs[0], if_not_exists=ie)
        out["DropSequence"] = sa_schema.DropSequence(seqs[0], if_exists=ie)
    if t.comment is not None:
        out["SetTableComment"] = sa_schema.SetTableComment(t)
        out["DropTableComment"] = sa_schema.DropTableComment(t)
    if t.c[xname].comment is not None:
        out["SetColumnComment"] = sa_schema.SetColumnComment(t.c[xname])
        out["DropColumnComment"] = sa_schema.DropColumnComment(t.c[xname])
    if t.schema:
        out["CreateSchema"] = sa_schema.CreateSchema(t.schema, if_not_exists=ie)
        out["DropSchema"] = sa_schema.DropSchema(t.schema, cascade=True, if_exists=ie)
    out["CreateColumn"] = sa_schema.CreateColumn(t.c[xname])
    return out


# ------------------------------------------------------------------ enumeration


def all_cases(tier):
    """[(case, full)]: ``full`` = compiled on every dialect variant; the cases that only the thorough tier adds meet
    the default / driver / paramstyle / server-version variants (the capability-flag flips stay with the d<=1 cases)"""
    cases = []
    d1 = set(sg.sid(sh, f) for sh, f in sg.family(1))
    for sh, f in sg.family(1 if tier == "quick" else 2):
        i = sg.sid(sh, f)
        cases.append((("stmt", i), i in d1))
    bases = [sg.sid(sh, sg.base(sh)) for sh in sg.SHAPES]
    inners = bases if tier == "quick" else [sg.sid(sh, f) for sh, f in sg.family(1)]
    for o in bases:
        for mode in MODES:
            for i in inners:
                cases.append((("nest", o, mode, i), i in bases))
    t1 = set(ddl_sid(f) for f in ddl_neighbours(1))
    for f in ddl_neighbours(1 if tier == "quick" else 2):
        tid = ddl_sid(f)
        for cn in DDL_CONSTRUCTS:
            cases.append((("ddl", tid, cn), tid in t1))
    return cases


def compile_options(case, elem):
    opts = [("default", {}), ("schema_translate_map", dict(schema_translate_map={None: "tr", "s1": "tr1", "My Schema": None}))]
    if case[0] != "ddl" and not isinstance(elem, sa_schema.ExecutableDDLElement):
        opts.append(("literal_binds", dict(compile_kwargs={"literal_binds": True})))
        opts.append(("render_postcompile", dict(compile_kwargs={"render_postcompile": True})))
        if isinstance(elem, UpdateBase):
            opts.append(("for_executemany", dict(for_executemany=True, column_keys=["x", "s"])))
    return opts


def innermost_sa_frame(tb):
    frames = traceback.extract_tb(tb)
    for fr in reversed(frames):
        if fr.filename.startswith(SA_DIR):
            return "%s:%s" % (fr.filename[len(SA_DIR) + 1:], fr.name)
    return None


def classify(elem, dialect, kw):
    """('ok', sql) | ('documented', ExcName) | ('internal', ExcName, frame, message, traceback text)"""
    try:
        comp = elem.compile(dialect=dialect, **kw)
        return ("ok", str(comp))
    except ALLOWED as e:
        return ("documented", type(e).__name__)
    except NotImplementedError as e:
        # "NotImplementedError only where documented" (DESIGN C22): a deliberate refusal carries its explanation,
        # e.g. "This backend does not support multiple-table criteria within UPDATE"; a bare NotImplementedError()
        # is an abstract method that was reached by accident, i.e. an internal error
        if str(e).strip() and innermost_sa_frame(e.__traceback__):
            return ("documented", "NotImplementedError(with explanation)")
        fr = innermost_sa_frame(e.__traceback__)
        if fr is None:
            raise
        return ("internal", type(e).__name__, fr, sg.first_line(e), "".join(traceback.format_exception(type(e), e, e.__traceback__)[-6:]))
    except Exception as e:  # noqa
        fr = innermost_sa_frame(e.__traceback__)
        if fr is None:
            raise  # raised by the harness itself, not by SQLAlchemy
        return ("internal", type(e).__name__, fr, sg.first_line(e), "".join(traceback.format_exception(type(e), e, e.__traceback__)[-6:]))


def shards(tier, seed):
    n = 48 if tier == "quick" else 192
    return [("part", i, n) for i in range(n)]


def run_shard(shard, tier, rec):
    warnings.simplefilter("ignore")
    _, part, parts = shard
    vs = [(label, be, mk()) for label, be, mk in variants()]
    cases = all_cases(tier)
    for ci, (case, full) in enumerate(cases):
        if ci % parts != part:
            continue
        try:
            elem = build_case(case)
        except sg.NotConstructible:
            rec.count("not_constructible_or_mode_not_applicable")
            continue
        rec.count("constructs_%s" % case[0])
        default_out = {}
        for oname, kw in compile_options(case, elem):
            for label, be, dia in vs:
                is_default = label.endswith(" default")
                if oname != "default" and not is_default:
                    continue  # deviation-bounded product: a non-default option meets the default dialect of each backend
                if not full and label.endswith(" flipped"):
                    continue
                res = classify(elem, dia, kw)
                if is_default:
                    default_out[(be, oname)] = res[:2]
                nontriv = res[0] == "documented" or (not is_default and res[:2] != default_out.get((be, oname)))
                rec.case((case, label, oname), nontrivial=nontriv)
                rec.outcome((be, res[0], res[1] if res[0] != "ok" else None))
                if res[0] == "internal":
                    sig = "internal %s in %s" % (res[1], res[2])
                    rec.violation(sig, "construct %r on [%s] with %s: %s\n%s" % (list(case), label, oname, res[3], res[4]),
                                  dict(case=list(case), variant=label, options=oname), kind=sig)
                elif nontriv and res[0] == "ok" and (ci * 31 + len(label)) % 9973 == 7:
                    rec.sample(dict(case=list(case), variant=label, options=oname, sql=res[1].replace("\n", " ")[:160]))


def replay(case):
    warnings.simplefilter("ignore")
    elem = build_case(tuple(case["case"]))
    dia = [mk() for label, be, mk in variants() if label == case["variant"]][0]
    kw = dict(compile_options(tuple(case["case"]), elem))[case["options"]]
    res = classify(elem, dia, kw)
    if res[0] == "internal":
        return [("internal %s in %s" % (res[1], res[2]), "%s\n%s" % (res[3], res[4]))]
    return []
