"""C49 mutable column values (MutableDict / MutableList / MutableSet / MutableComposite) propagate in-place changes.

Engine H: explicit-state BFS by replay over operation histories on one
``Doc`` row (vf/worlds/collworld.py) with a reference model in lock-step.

Alphabet per attribute kind: every mutator method / operator of the wrapped
builtin with arguments from a small domain, plain-value and None assignment
(coercion), ``flush``, ``commit``, ``rollback``, ``expire``, ``refresh``,
pickle round trip of the parent (re-attached to a new Session) and ``merge``
into a new Session.

Model: three plain values ``mem`` (what the attribute must hold), ``db`` (what
the row must hold inside the current transaction), ``committed``.
Oracle after every transition (quotes the property):
  * the mutator returns / raises what the builtin does and the attribute value
    equals ``mem``;
  * the stored value (raw SQL on the session's connection, decoded) equals
    ``db``;
  * if ``mem != db`` the parent is in ``session.dirty`` (marked modified);
  * probe at every reached state: after ``flush`` the stored value equals the
    in-memory value, and after ``commit`` + reload in a new Session it still does.

Mutations caught (each in a private copy of lib/, ``VF_REPO=... ./check C49``; all gave new VIOLATION signatures):

* ``MutableDict.setdefault``: ``self.changed()`` dropped
* ``MutableList.__setitem__``: ``changed()`` only for non-slice indexes
* ``MutableSet.discard``: ``self.changed()`` dropped
* ``_listen_on_attribute.unpickle``: parents not re-established after unpickling
* ``_listen_on_attribute.set_``: ``value._parents[target] = key`` dropped (assigned / coerced values untracked)
* the ``refresh`` listener not registered (values re-loaded after expire / commit / rollback untracked)
* ``MutableComposite.changed``: only the first column attribute written back
* the ``_sa_event_merge_wo_load`` listener not registered (merge(load=False) onto a present instance)
* ``MutableDict.coerce``: an empty plain dict coerced to None
* ``MutableDict.pop``: ``changed()`` skipped when the result is (or equals) the passed default, or is None
  (needs a stored value that coincides with the default: ``{"gone": None}.pop("gone", None)``,
  ``d.pop(k, d.get(k))``, an equal-but-distinct list) -- three edits
* ``MutableDict.setdefault`` / ``popitem`` / ``MutableList.pop``: ``changed()`` skipped when the result (value) is None

Genuine defects found on the unchanged tree (reported; /verif/proposed_fixes/c49_*.diff): ``MutableDict |= other``
and ``MutableList *= n`` do not call ``changed()`` (change never flushed); after ``Session.merge()`` of an object
whose MutableComposite was mutated, the merged instance keeps the stale composite built at load time and the next
in-place mutation writes the stale column values back (lost update).
"""
from __future__ import annotations

import copy
import json
import pickle

import sqlalchemy as sa
from sqlalchemy.orm import Session

from .. import core
from ..engines import hist
from ..worlds import collworld as cw

ID = "C49"
LEVEL = "model_checking"
META = dict(
    engine="H",
    technique="explicit-state BFS over operation histories by replay on a real Session + SQLite database, reference "
    "model (plain value in memory / in transaction / committed) in lock-step, canonical-state dedupe",
    design_ref="DESIGN.md §5 C49",
    level_text="For MutableDict and MutableList on JSON columns, MutableSet on a PickleType column and a MutableComposite "
    "Point, all histories up to depth 3 (quick) / 4 (thorough) over every mutator method and in-place operator (small "
    "argument domain, including defaults that are the stored object itself, equal to it, or None stored as a value), plain/None assignment, flush, commit, rollback, expire, refresh, pickle round trip of the parent "
    "and merge into a new Session are executed on the real objects; after every transition the attribute value, the "
    "raw stored value and session.dirty are compared with the model, and from every reached state a flush (and a "
    "commit + reload) must leave stored == in-memory.",
    level_note="Trusted: the 60-line value/transaction model, raw SQL decoding (json / pickle). One row, one mutable "
    "attribute per history; values are ints/strs so JSON round trips exactly. State dedupe key = (model values, "
    "attribute loaded?, provenance of the value object, dirty flag), everything the implementation can consult.",
    rule="state = (kind, mem, db, committed, loaded flag, provenance, in dirty); transition = one op applied to a state "
    "rebuilt by replay; non-trivial = a mutator that changed the value, or a session op applied while mem != db",
    assumptions=[
        "the attribute is always re-read from the parent before a mutator is applied (stale references to replaced values are out of scope)",
        "single Session at a time, SQLite in-memory database per replay",
    ],
    bounds=dict(quick="history depth 3 from 2 initial values per kind", thorough="history depth 4 from 2 initial values per kind"),
)

KINDS = ("d", "l", "s", "pt")
COLS = dict(d="d", l="l", s="s")

# ------------------------------------------------------------------ alphabets

MUT = dict(
    d=[
        ["setitem", "a", 1],
        ["setitem", "a", 2],
        ["setitem", "b", 1],
        ["delitem", "a"],
        ["delitem", "zz"],
        ["update", {"b": 2}],
        ["update_kw", "a", 3],
        ["update_pairs", [["c", 4]]],
        ["setdefault", "c", 0],
        ["setdefault", "a", 9],
        ["pop", "a"],
        ["pop_default", "zz"],
        ["popitem"],
        ["clear"],
        ["ior", {"c": 5}],
        # defaults / sentinels that coincide with a stored value: the stored value is None, the default IS the
        # stored object, the default is equal to but not the same object as the stored value
        ["pop", "gone"],
        ["pop_default", "gone"],
        ["pop_ident", "a"],
        ["pop_ident", "lst"],
        ["pop_equal", "lst", [7]],
        ["setdefault", "gone", None],
        ["setdefault_ident", "lst"],
        ["setdefault", "lst", [7]],
        ["setdefault", "n", None],
    ],
    l=[
        ["append", 1],
        ["append", 2],
        ["extend", [3, 1]],
        ["insert", 0, 2],
        ["remove", 1],
        ["remove", 9],
        ["append", None],
        ["pop"],
        ["pop", 0],
        ["sort"],
        ["reverse"],
        ["iadd", [4]],
        ["imul", 2],
        ["imul", 0],
        ["setitem", 0, 5],
        ["setslice", [0, 1], [6, 7]],
        ["delitem", 0],
        ["delslice", [0, 2]],
        ["clear"],
    ],
    s=[
        ["add", 1],
        ["add", 2],
        ["discard", 1],
        ["discard", 9],
        ["discard", 1000],
        ["remove", 1],
        ["remove", 9],
        ["pop"],
        ["clear"],
        ["update", [2, 3]],
        ["ior", [3]],
        ["iand", [1, 3]],
        ["isub", [1]],
        ["ixor", [1, 4]],
        ["intersection_update", [1, 2]],
        ["difference_update", [2]],
        ["symmetric_difference_update", [1, 5]],
    ],
    pt=[["setx", 1], ["setx", 2], ["sety", 3]],
)
ASSIGN = dict(
    d=[["assign", {"k": 1}], ["assign", {}], ["assign_none"]],
    l=[["assign", [1]], ["assign", []], ["assign_none"]],
    s=[["assign", [2]], ["assign_none"]],
    pt=[["assign", [5, 6]], ["assign", [1, 2]]],
)
SESSION_OPS = [["flush"], ["commit"], ["rollback"], ["expire"], ["refresh"], ["pickle"], ["merge"], ["merge_new"], ["merge_noload"]]
INITS = dict(d=[{}, {"a": 1, "b": 2, "lst": [7], "gone": None}], l=[[], [1, 2, 1]], s=[[], [1, 2, 1000]], pt=[[1, 2], [3, None]])


def _freeze(kind, v):
    if v is None:
        return None
    if kind == "d":
        return tuple((k, tuple(x) if isinstance(x, list) else x) for k, x in sorted(v.items(), key=lambda kv: kv[0]))
    if kind == "s":
        return tuple(sorted(v))
    return tuple(v)


# ------------------------------------------------------------------ applying a mutator to a builtin or to the attribute


def apply_mut(kind, t, op, holder=None, attr=None):
    """t: the collection (Mutable* or builtin).  In-place operators are applied
    through the attribute when holder is given (doc.d |= ...)"""
    n = op[0]
    if kind == "d":
        if n == "setitem":
            t[op[1]] = op[2]
            return None
        if n == "delitem":
            del t[op[1]]
            return None
        if n == "update":
            return t.update(dict(op[1]))
        if n == "update_kw":
            return t.update(**{op[1]: op[2]})
        if n == "update_pairs":
            return t.update([tuple(p) for p in op[1]])
        if n == "setdefault":
            return t.setdefault(op[1], copy.deepcopy(op[2]))
        if n == "pop":
            return t.pop(op[1])
        if n == "pop_default":
            return t.pop(op[1], None)
        if n == "pop_ident":
            # the default is the very object stored under the key (None when the key is absent)
            return t.pop(op[1], t.get(op[1]))
        if n == "pop_equal":
            return t.pop(op[1], copy.deepcopy(op[2]))
        if n == "setdefault_ident":
            return t.setdefault(op[1], t.get(op[1]))
        if n == "popitem":
            return t.popitem()
        if n == "clear":
            return t.clear()
        if n == "ior":
            if holder is not None:
                setattr(holder, attr, getattr(holder, attr).__ior__(dict(op[1])))
                return None
            t |= dict(op[1])
            return None
    elif kind == "l":
        if n == "append":
            return t.append(op[1])
        if n == "extend":
            return t.extend(list(op[1]))
        if n == "insert":
            return t.insert(op[1], op[2])
        if n == "remove":
            return t.remove(op[1])
        if n == "pop":
            return t.pop(*op[1:])
        if n == "sort":
            return t.sort()
        if n == "reverse":
            return t.reverse()
        if n == "iadd":
            if holder is not None:
                setattr(holder, attr, getattr(holder, attr).__iadd__(list(op[1])))
                return None
            t += list(op[1])
            return None
        if n == "imul":
            if holder is not None:
                setattr(holder, attr, getattr(holder, attr).__imul__(op[1]))
                return None
            t *= op[1]
            return None
        if n == "setitem":
            t[op[1]] = op[2]
            return None
        if n == "setslice":
            t[slice(*op[1])] = list(op[2])
            return None
        if n == "delitem":
            del t[op[1]]
            return None
        if n == "delslice":
            del t[slice(*op[1])]
            return None
        if n == "clear":
            return t.clear()
    elif kind == "s":
        if n in ("add", "discard", "remove"):
            return getattr(t, n)(op[1])
        if n in ("pop", "clear"):
            return getattr(t, n)()
        if n in ("update", "intersection_update", "difference_update", "symmetric_difference_update"):
            return getattr(t, n)(list(op[1]))
        if n in ("ior", "iand", "isub", "ixor"):
            a = set(op[1])
            if holder is not None:
                setattr(holder, attr, getattr(getattr(holder, attr), "__%s__" % n)(a))
                return None
            getattr(t, "__%s__" % n)(a)
            return None
    raise AssertionError((kind, op))


# ------------------------------------------------------------------ the world: one Doc row in a fresh database


class Impl:
    def __init__(self, kind, init):
        w = cw.world()
        self.kind = kind
        self.Doc = w.Doc
        self.engine = sa.create_engine("sqlite://", connect_args={"autocommit": False}, poolclass=sa.pool.StaticPool)
        self.Doc.__table__.create(self.engine)
        self.sess = Session(self.engine)
        doc = self.Doc(id=1)
        self._assign(doc, init)
        self.sess.add(doc)
        self.sess.commit()
        self.doc = doc

    def _assign(self, doc, v):
        k = self.kind
        if k == "pt":
            doc.pt = None if v is None else cw.Point(v[0], v[1])
        elif k == "s":
            doc.s = None if v is None else set(v)
        elif v is None:
            setattr(doc, k, None)
        else:
            setattr(doc, k, copy.deepcopy(v))

    def value(self):
        """current attribute value as a plain builtin"""
        k = self.kind
        v = getattr(self.doc, k)
        if v is None:
            return None
        if k == "d":
            return dict(v)
        if k == "l":
            return list(v)
        if k == "s":
            return sorted(v)
        return [v.x, v.y]

    def stored(self):
        k = self.kind
        conn = self.sess.connection()
        if k == "pt":
            row = conn.exec_driver_sql("select x, y from doc where id = 1").first()
            if row is None:
                return "NOROW"
            return None if row[0] is None and row[1] is None else [row[0], row[1]]
        row = conn.exec_driver_sql("select %s from doc where id = 1" % k).first()
        if row is None:
            return "NOROW"
        raw = row[0]
        if raw is None:
            return None
        if k == "s":
            return sorted(pickle.loads(raw))
        v = json.loads(raw)
        return v

    def loaded(self):
        k = self.kind
        return (k if k != "pt" else "x") in self.doc.__dict__

    def in_dirty(self):
        return self.doc in self.sess.dirty or self.doc in self.sess.new

    def close(self):
        try:
            self.sess.close()
        finally:
            self.engine.dispose()

    # ---- ops
    def apply(self, op):
        """-> (return value, exception)"""
        n = op[0]
        k = self.kind
        try:
            if n == "flush":
                self.sess.flush()
            elif n == "commit":
                self.sess.commit()
            elif n == "rollback":
                self.sess.rollback()
            elif n == "expire":
                self.sess.expire(self.doc)
            elif n == "refresh":
                self.sess.refresh(self.doc)
            elif n == "pickle":
                # same Session / transaction: detach, round trip, re-attach
                self.sess.expunge(self.doc)
                self.doc = pickle.loads(pickle.dumps(self.doc))
                self.sess.add(self.doc)
            elif n == "merge":
                self.sess.expunge(self.doc)
                self.doc = self.sess.merge(self.doc)
            elif n == "merge_new":
                # flush + commit, then merge the detached object into a new Session
                self.sess.commit()
                self.sess.close()
                self.sess = Session(self.engine)
                self.doc = self.sess.merge(self.doc)
            elif n == "merge_noload":
                # commit without expiring, then merge(load=False) the loaded detached object into a new Session
                self.sess.expire_on_commit = False
                self.sess.commit()
                self.sess.close()
                self.sess = Session(self.engine)
                self._keep = self.sess.get(self.Doc, 1)  # already present (strongly referenced) in the target Session: merge copies onto it
                self.doc = self.sess.merge(self.doc, load=False)
            elif n == "assign":
                self._assign(self.doc, op[1])
            elif n == "assign_none":
                self._assign(self.doc, None)
            elif k == "pt":
                pt = self.doc.pt
                if n == "setx":
                    pt.x = op[1]
                else:
                    pt.y = op[1]
            else:
                t = getattr(self.doc, k)
                if n in ("ior", "iadd", "imul", "iand", "isub", "ixor") and op[-1] == "@attr":
                    return apply_mut(k, t, op[:-1], self.doc, k), None
                return apply_mut(k, t, op), None
            return None, None
        except Exception as e:  # noqa: BLE001
            return None, e


# ------------------------------------------------------------------ model


class Model:
    __slots__ = ("kind", "mem", "db", "committed", "prov")

    def __init__(self, kind, init):
        self.kind = kind
        self.mem = copy.deepcopy(init)
        self.db = copy.deepcopy(init)
        self.committed = copy.deepcopy(init)
        self.prov = "init"

    def clone(self):
        m = Model.__new__(Model)
        m.kind = self.kind
        m.mem, m.db, m.committed, m.prov = copy.deepcopy(self.mem), copy.deepcopy(self.db), copy.deepcopy(self.committed), self.prov
        return m

    def plain(self):
        k = self.kind
        if self.mem is None:
            return None
        if k == "s":
            return set(self.mem)
        return copy.deepcopy(self.mem)

    def apply(self, op):
        """-> (expected return, expected exception class or None, is_mutator)"""
        n = op[0]
        k = self.kind
        if n == "flush":
            self.db = copy.deepcopy(self.mem)
        elif n == "commit":
            self.db = copy.deepcopy(self.mem)
            self.committed = copy.deepcopy(self.db)
            self.prov = "loaded"
        elif n == "rollback":
            self.db = copy.deepcopy(self.committed)
            self.mem = copy.deepcopy(self.committed)
            self.prov = "loaded"
        elif n in ("expire", "refresh"):
            self.mem = copy.deepcopy(self.db)
            self.prov = "loaded"
        elif n in ("pickle", "merge"):
            self.prov = n
        elif n in ("merge_new", "merge_noload"):
            self.db = copy.deepcopy(self.mem)
            self.committed = copy.deepcopy(self.db)
            self.prov = n
        elif n == "assign":
            self.mem = sorted(op[1]) if k == "s" else copy.deepcopy(op[1])
            self.prov = "assign"
        elif n == "assign_none":
            self.mem = None
            self.prov = "assign"
        elif k == "pt":
            if n == "setx":
                self.mem = [op[1], self.mem[1]]
            else:
                self.mem = [self.mem[0], op[1]]
            return None, None, True
        else:
            t = self.plain()
            o = op[:-1] if op[-1] == "@attr" else op
            try:
                ret = apply_mut(k, t, o)
            except Exception as e:  # noqa: BLE001
                self.mem = sorted(t) if k == "s" else t
                return None, type(e), True
            if k == "s" and o[0] == "pop":
                return ("SETPOP", t), None, True
            self.mem = sorted(t) if k == "s" else t
            return ret, None, True
        return None, None, False

    def key(self, loaded, dirty):
        k = self.kind
        return (k, _freeze(k, self.mem), _freeze(k, self.db), _freeze(k, self.committed), self.prov, loaded, dirty)


def enabled(kind, ms):
    ops = []
    if ms.mem is not None:
        for m in MUT[kind]:
            if kind == "l" and m[0] == "sort" and any(x is None for x in ms.mem):
                # None is not orderable against ints: list.sort() raises after partially permuting the list
                # (an error path of the builtin itself, outside the alphabet)
                continue
            ops.append(m)
            if m[0] in ("ior", "iadd", "imul", "iand", "isub", "ixor"):
                ops.append(m + ["@attr"])
    ops += ASSIGN[kind]
    ops += SESSION_OPS
    return ops


# ------------------------------------------------------------------ one transition


def _sync_setpop(model, eret, ret, exc):
    """set.pop() may return any member: replay the implementation's choice on the model.
    -> (expected return, problem or None)"""
    if not (isinstance(eret, tuple) and eret and eret[0] == "SETPOP"):
        return eret, None
    if exc is not None:
        return None, None
    if ret not in model.mem:
        return ret, "pop() returned %r which is not a member of %r" % (ret, model.mem)
    model.mem = sorted(x for x in model.mem if x != ret)
    return ret, None


def build(kind, init, history):
    impl = Impl(kind, init)
    model = Model(kind, init)
    for op in history:
        ret, exc = impl.apply(op)
        eret, eexc, _ = model.apply(op)
        _sync_setpop(model, eret, ret, exc)
    return impl, model


def opstr(kind, op):
    n = op[0]
    tgt = "doc.%s" % kind
    args = [a for a in op[1:] if a != "@attr"]
    if op[-1] == "@attr":
        sym = dict(ior="|=", iadd="+=", imul="*=", iand="&=", isub="-=", ixor="^=")[n]
        return "%s %s %r" % (tgt, sym, args[0])
    if n in ("ior", "iadd", "imul", "iand", "isub", "ixor"):
        sym = dict(ior="|=", iadd="+=", imul="*=", iand="&=", isub="-=", ixor="^=")[n]
        return "v = %s; v %s %r" % (tgt, sym, args[0])
    if n in ("flush", "commit", "rollback"):
        return "session.%s()" % n
    if n in ("expire", "refresh"):
        return "session.%s(doc)" % n
    if n == "pickle":
        return "session.expunge(doc); doc = loads(dumps(doc)); session.add(doc)"
    if n == "merge":
        return "session.expunge(doc); doc = session.merge(doc)"
    if n == "merge_new":
        return "session.commit(); session.close(); doc = Session().merge(doc)"
    if n == "merge_noload":
        return "session.expire_on_commit = False; session.commit(); session.close(); s2 = Session(); s2.get(Doc, 1); doc = s2.merge(doc, load=False)"
    if n == "assign":
        return "%s = %r" % (tgt, args[0])
    if n == "assign_none":
        return "%s = None" % tgt
    if n == "setx":
        return "doc.pt.x = %r" % args[0]
    if n == "sety":
        return "doc.pt.y = %r" % args[0]
    if n == "pop_default":
        return "%s.pop(%r, None)" % (tgt, args[0])
    if n == "pop_ident":
        return "%s.pop(%r, %s.get(%r))" % (tgt, args[0], tgt, args[0])
    if n == "pop_equal":
        return "%s.pop(%r, %r)" % (tgt, args[0], args[1])
    if n == "setdefault_ident":
        return "%s.setdefault(%r, %s.get(%r))" % (tgt, args[0], tgt, args[0])
    if n == "update_kw":
        return "%s.update(%s=%r)" % (tgt, args[0], args[1])
    if n == "update_pairs":
        return "%s.update(%r)" % (tgt, [tuple(x) for x in args[0]])
    if n == "setslice":
        return "%s[%s:%s] = %r" % (tgt, args[0][0], args[0][1], args[1])
    if n == "delslice":
        return "del %s[%s:%s]" % (tgt, args[0][0], args[0][1])
    if n == "setitem":
        return "%s[%r] = %r" % (tgt, args[0], args[1])
    if n == "delitem":
        return "del %s[%r]" % (tgt, args[0])
    return "%s.%s(%s)" % (tgt, n, ", ".join(repr(a) for a in args))


def check_transition(kind, init, history, op, need_probe=None):
    """-> (problems [(aspect, text)], new model, key, info).  need_probe(key) -> bool lets the explorer run the
    flush / commit / reload probe once per distinct reached state instead of once per transition."""
    impl, model = build(kind, init, history)
    try:
        was_dirty_expected = model.mem != model.db
        ret, exc = impl.apply(op)
        eret, eexc, is_mut = model.apply(op)
        problems = []
        eret, pp = _sync_setpop(model, eret, ret, exc)
        if pp:
            problems.append(("op", pp))
        if (type(exc) if exc is not None else None) is not eexc:
            problems.append(("op", "%s raised %s, expected %s" % (opstr(kind, op), type(exc).__name__ if exc is not None else "nothing", eexc.__name__ if eexc else "nothing") + ((": %s" % str(exc)[:160]) if exc is not None else "")))
        elif exc is None and is_mut and ret != eret and not (eret is None and ret is None):
            problems.append(("op", "%s returned %r, builtin returns %r" % (opstr(kind, op), ret, eret)))
        if not problems:
            try:
                val = impl.value()
            except Exception as e:  # noqa: BLE001
                problems.append(("value", "reading the attribute raised %s: %s" % (type(e).__name__, str(e)[:160])))
                val = None
            exp_mem = model.mem
            if not problems and val != exp_mem:
                problems.append(("value", "attribute holds %r, expected %r" % (val, exp_mem)))
        if not problems:
            st = impl.stored()
            if st != model.db:
                problems.append(("stored", "row holds %r before any flush of this change, model %r" % (st, model.db)))
        dirty = impl.in_dirty()
        if not problems and model.mem != model.db and not dirty:
            problems.append(("dirty", "value %r differs from the row %r but the parent is not in session.dirty" % (model.mem, model.db)))
        loaded = impl.loaded()
        key = model.key(loaded, dirty)
        info = dict(nontrivial=bool((is_mut and model.mem != model.db) or (not is_mut and was_dirty_expected)), outcome=(kind, op[0], type(exc).__name__ if exc else "ok", dirty, loaded))
        # probe: flush (and commit + reload) from this state
        if not problems and (need_probe is None or need_probe(key)):
            info["probed"] = True
            try:
                impl.sess.flush()
                st = impl.stored()
                if st != model.mem:
                    problems.append(("flush", "after flush the row holds %r, in-memory value is %r" % (st, model.mem)))
                else:
                    impl.sess.commit()
                    impl.sess.close()
                    s2 = Session(impl.engine)
                    impl.sess = s2
                    impl.doc = s2.get(impl.Doc, 1)
                    v2 = impl.value()
                    if v2 != model.mem:
                        problems.append(("flush", "after commit a new Session loads %r, in-memory value was %r" % (v2, model.mem)))
            except Exception as e:  # noqa: BLE001
                problems.append(("flush", "flush/commit/reload raised %s: %s" % (type(e).__name__, str(e)[:200])))
        return problems, model, key, info
    finally:
        impl.close()


# ------------------------------------------------------------------ driver


PARTS = 10


def shards(tier, seed):
    return [[kind, i, part, PARTS] for kind in KINDS for i in range(len(INITS[kind])) for part in range(PARTS)]


def _sig(kind, init, history, op, aspect, text):
    return "%s: doc.%s = %r; commit; %s -> %s" % (aspect, kind, init, "; ".join(opstr(kind, o) for o in list(history) + [op]), text)


# generous watchdog: the box is shared; a shard is 2-40 s of CPU on an idle core
SHARD_TIMEOUT = dict(quick=1800, thorough=7200)

_MIN = {}


def minimal(kind, opname, trigger):
    """shortest failing history of the failure class (kind, op name), searched in a canonical
    order that does not depend on sharding: all histories of length <= 1 before the op"""
    key = (kind, opname)
    if key in _MIN:
        return _MIN[key]
    found = None
    for hlen in (0, 1):
        for init in INITS[kind]:
            root = Model(kind, init)
            prefixes = [()] if hlen == 0 else [(o,) for o in enabled(kind, root)]
            for pf in prefixes:
                m = root.clone()
                ok = True
                for o in pf:
                    try:
                        m.apply(o)
                    except Exception:  # noqa: BLE001
                        ok = False
                if not ok:
                    continue
                if kind == "s" and any(o[0] == "pop" for o in pf):
                    continue  # model needs the implementation's choice; covered by the trigger fallback
                for op in enabled(kind, m):
                    if op[0] != opname:
                        continue
                    problems, _nm, _k, _i = check_transition(kind, init, list(pf), op)
                    if problems:
                        found = (init, list(pf), op, problems[0][0], problems[0][1])
                        break
                if found:
                    break
            if found:
                break
        if found:
            break
    if found is None:
        found = trigger
    _MIN[key] = found
    return found


def run_shard(shard, tier, rec):
    kind, ii, part, parts = shard
    init = INITS[kind][ii]
    depth = 3 if tier == "quick" else 4
    cw.world()
    root_model = Model(kind, init)

    def step(history, ms, op, record=True):
        problems, nm, key, info = check_transition(kind, init, history, op, need_probe=lambda k: core.h64(k) not in rec.states)
        if record:
            if info.get("probed"):
                rec.count("flush_reload_probes")
            rec.case((kind, ii, repr(history), repr(op)), nontrivial=info["nontrivial"])
            rec.outcome(info["outcome"])
            rec.count("transitions_" + kind)
        if problems:
            if record:
                aspect, text = problems[0]
                minit, mhist, mop, maspect, mtext = minimal(kind, op[0], (init, [list(h) for h in history], op, aspect, text))
                rec.violation(
                    _sig(kind, minit, mhist, mop, maspect, mtext),
                    "first seen at: " + _sig(kind, init, history, op, aspect, text),
                    dict(kind=kind, init=minit, history=[list(h) for h in mhist], op=mop),
                )
            return None
        if record and info["nontrivial"]:
            rec.sample(dict(kind=kind, init=init, history=[opstr(kind, o) for o in list(history) + [op]], mem=nm.mem, db=nm.db), limit=4)
        return nm, key

    # level 1 is executed by every part (cheap), recorded by part 0 only; its distinct states
    # are dealt round-robin to the parts, which own the subtrees below them
    seen, level1 = set(), []
    for op in enabled(kind, root_model):
        if part == 0:
            rec.transition()
            rec.trace()
        out = step((), root_model, op, record=(part == 0))
        if out is None:
            continue
        nm, key = out
        if key in seen:
            continue
        seen.add(key)
        level1.append(((op,), nm, key))
    roots = [r for i, r in enumerate(level1) if i % parts == part]
    if part == 0:
        rec.state(("root", kind, ii))
        rec.count("level1_states_%s%d" % (kind, ii), len(level1))
    d = hist.explore(rec, roots, lambda ms: enabled(kind, ms), step, depth=depth - 1)


def replay(case):
    problems, _m, _k, _i = check_transition(case["kind"], case["init"], [list(h) for h in case["history"]], case["op"])
    return [(_sig(case["kind"], case["init"], case["history"], case["op"], a, t), t) for a, t in problems]
