"""C45 Session.merge copies state onto the session's single instance (engine H / I).

Property: merge(obj) returns the persistent instance for obj's identity
(loading or creating it as needed) whose attribute values and cascaded
relationships equal those loaded on obj; merging the same state again changes
nothing; with load=False no SQL is emitted and no change is flagged.

Enumerated (complete product, simplest first):
  source graph  a parent P (primary key of an existing row / of no row / none)
      that is transient, pending in another Session, or detached after a real
      load with every subset of {x, y, cs} expired and optionally modified
      after detaching; x in {unset, same as row, different}, y in {unset,
      different}; cs in {unset, [], and lists over: detached loaded child c1,
      transient child with c1's primary key, transient child without primary
      key} - children are reached through the ``merge`` cascade (and point
      back through the backref);
  target state  reached by a short history on a fresh Session(autoflush=False):
      empty; identity loaded; loaded with its collection; expired; modified
      (pending change on x); parent and child loaded;
  load in {True, False};  mappings one-to-many and many-to-many (U1 / U2);
  truth-value worlds  the one-to-many mapping again with classes P and C that
      define __len__ (quick + thorough) / __bool__ (thorough) computed from the
      column x (falsy iff x is unloaded, None or 0), rows p1 (truthy) / p2
      (falsy) with a truthy and a falsy child each, and source graphs in which
      truthy and falsy objects occur as root, as many-to-one target (transient
      with an existing / a new key, detached-loaded) and as collection member:
      transient child -> parent, detached child c1..c4 with the many-to-one
      loaded / not loaded (the load=False route), transient parent with
      falsy / truthy members, detached falsy parent p2 with partial expiry.
      The same oracle decides: objects go by identity, never by truth value.

Oracle (relations between source, result and the target's state before the
merge; SQL counted with before_cursor_execute):
 1. identity: the result is the instance the Session already held for that
    identity, else (load=True) the one it loaded for it, else a new pending
    instance (load=False: a new persistent one) - never the source; the same
    holds for every cascaded child, and the identity map keeps one object per
    key;
 2. every attribute loaded on the source equals on the result (collections:
    position by position the merge results of the members; backref agrees);
 3. attributes not loaded on the source keep what they had (pending value,
    loaded value, else the row's value);
 4. merging the same source again returns the same object and changes
    nothing: values, histories, Session.new unchanged, no DML at the next flush;
 5. load=False: zero SQL, Session.dirty empty, result not flagged modified;
    a transient / pending / modified source is refused with
    InvalidRequestError and the Session left unchanged;
 6. (load=True) after flush the rows equal 2 + 3.

Scope notes: a source object without primary key has no identity to be found
again, so the second-merge probe applies to sources whose every object has a
key (after the flush of the first merge); Session.dirty is documented as
optimistic, so "changes nothing" is read from values, histories, Session.new
and "no DML at the next flush"; a detached child moved under another parent
carries a stale foreign-key *column* next to the new relationship (source
contradicts itself): DML of its second merge is not judged.  load=False with a
transient / pending / dirty source is documented as unsupported: a refusal
must leave the Session unchanged, an acceptance is not judged.

Mutations caught (private copy, VF_REPO=/tmp/wt-orm3):
 M1 properties.py ColumnProperty.merge: value not copied when the held target
    has a pending change -> "P.x is 9 on the result, 5 on the source"
 M2 session.py _merge: a transient source with a primary key never loads the
    existing row -> "result is not the Session's persistent instance for the row"
 M4 relationships.py merge: collection truncated to its first member ->
    "P.cs has 1 members on the result, 2 on the source"
 M7 session.py _merge: load=False falls through to Session.get() ->
    "load=False emitted SQL: SELECT ..."
 M8 relationships.py merge: load=False collection filled with events ->
    "load=False left Session.dirty non-empty"
 M9 relationships.py merge (scalar branch): a None many-to-one is not copied ->
    "C.p is None on the source, <P p1> on the result"
 C45-b (seeded) relationships.py merge (scalar branch) tests ``if current:``
    instead of ``is not None`` -> "copy o2m/__len__: merge(detached c2 (p
    loaded), load=True/False) ... -> C.p is set on the source, None on the result"
 M10 relationships.py merge (collection branch) skips falsy members ->
    "P.cs has 0 members on the result, 1 on the source" (truth-value worlds only)
 M11 session.py _merge: ``if not merged:`` instead of ``if merged is None:``
    (a held / loaded falsy instance is replaced by a new one) -> "identity
    o2m/__len__: ... P 2: result is not the Session's persistent instance for the row"
 (not observable, equivalent here: load=False using impl.set / dropping the
 final _commit_all - the other one masks it)
"""
import gc
import itertools

from sqlalchemy import exc as sa_exc
from sqlalchemy import inspect as sa_inspect
from sqlalchemy.orm import Session

from ..worlds.ormworld3 import SqlLog
from ..worlds.ormworld3 import world
from ..worlds.ormworld3 import World

ID = "C45"
LEVEL = "model_checking"
META = dict(
    engine="H",
    technique="exhaustive product of source object graphs x target session states (reached by replayed histories) x load flag on real Sessions; relational oracle between source, result and pre-merge target state; second-merge idempotence probe at every case",
    design_ref="DESIGN.md §5 C45",
    level_text="All source graphs of a parent with up to two cascaded children in the states transient (with an existing row's "
    "key, with a fresh key, without key), pending elsewhere, detached-loaded with every subset of {x, y, cs} expired and "
    "optional post-detach modification, are merged into every target state (empty, loaded, loaded+collection, expired, "
    "modified, parent+child loaded) with load=True and load=False, for a one-to-many and a many-to-many mapping, and "
    "again for a one-to-many mapping whose classes define __len__ / __bool__ from a column value so that truthy and falsy "
    "instances occur as merge root, many-to-one target and collection member (the library must go by identity). Each "
    "case runs on a fresh SQLite database and fresh Sessions; the result is checked for identity, attribute equality on "
    "loaded source attributes, untouched unloaded ones, idempotence of a second merge (no DML, same histories, same "
    "Session.new/dirty), the load=False contract and the rows after flush.",
    level_note="Trusted: the ~80-line relational oracle in this file (no prediction of internals: it compares source, result "
    "and a snapshot of the target before the merge); the truth functions of the truth-value worlds read __dict__ only "
    "(never a lazy load). Scope: single-level cascade (parent -> children -> backref), integer "
    "columns, no version_id_col, no composite / synonym properties.",
    rule="case = (mapping, target state, source graph, load); non-trivial = the source carries at least one loaded attribute "
    "that differs from what the target held or would load (the merge has to copy something) or a cascaded child; "
    "outcomes = distinct (result kind, copied attributes, error class)",
    assumptions=["Session(autoflush=False) target", "sources are not concurrently used by another thread"],
    bounds=dict(
        quick="2 mappings x 6 target states x ~190 source graphs (parent- and child-rooted) x load True/False; plus "
        "truth-value world (__len__ from x) x 6 target states x 54 source graphs with truthy / falsy objects x load True/False",
        thorough="same plus collections of two children in both orders and y in {unset, same, different}; truth-value worlds "
        "__len__ and __bool__ x 6 target states x 141 source graphs x load True/False",
    ),
)

ROWS_SQL = (
    "insert into p (id, name, x, y) values (1, 'p1', 1, 1);\n"
    "insert into c (id, name, x, y{fk}) values (11, 'c1', 1, 1{one});\n"
    "insert into c (id, name, x, y{fk}) values (12, 'c2', 1, 1{null}){assoc}"
)
TARGETS = ("empty", "loaded", "loaded_cs", "expired", "modified", "with_child")
UNSET = "unset"


def rows_sql(kind, truth=None):
    if truth:
        return TRUTH_ROWS_SQL
    if kind == "m2m":
        return ROWS_SQL.format(fk="", one="", null="", assoc=";\ninsert into pc (p_id, c_id) values (1, 11)")
    return ROWS_SQL.format(fk=", p_id", one=", 1", null=", NULL", assoc="")


# ---- truth-value worlds: the mapped classes define __bool__ / __len__ from the
# column x (falsy iff x is not loaded, None or 0).  Rows: every combination of
# truthy / falsy child under truthy / falsy parent.
TRUTH_MODES = ("len", "bool")
TRUTH_ROWS_SQL = (
    "insert into p (id, name, x, y) values (1, 'p1', 1, 1);\n"
    "insert into p (id, name, x, y) values (2, 'p2', 0, 1);\n"
    "insert into c (id, name, x, y, p_id) values (11, 'c1', 1, 1, 1);\n"
    "insert into c (id, name, x, y, p_id) values (12, 'c2', 0, 1, 2);\n"
    "insert into c (id, name, x, y, p_id) values (13, 'c3', 1, 1, 2);\n"
    "insert into c (id, name, x, y, p_id) values (14, 'c4', 0, 1, 1)"
)
_TRUTH_WORLDS = {}


def _x_of(o):
    v = o.__dict__.get("x")  # never a lazy load: an unloaded x counts as 0
    return v if isinstance(v, int) and v > 0 else 0


def truth_world(mode):
    """U1 one-to-many (list, back_populates) whose classes P and C have a truth
    value: mode 'len' -> __len__ returns x (or 0), mode 'bool' -> __bool__
    returns x > 0.  A private World instance (not the shared cached one)."""
    w = _TRUTH_WORLDS.get(mode)
    if w is None:
        w = World("o2m", "list", "bp")
        w.key = w.key + ("truth-" + mode,)
        for cls in (w.P, w.C):
            if mode == "len":
                cls.__len__ = _x_of
            else:
                cls.__bool__ = lambda self: _x_of(self) > 0
        _TRUTH_WORLDS[mode] = w
    return w


def truth_sources(tier):
    """source graphs for the truth-value worlds (rows TRUTH_ROWS_SQL), simplest
    first; truthy and falsy objects occur as root, as scalar many-to-one
    target and as collection member, transient and detached-loaded"""
    out = []
    # transient child -> many-to-one (scalar branch of the cascade)
    pars = (UNSET, "none", "p1t", "p1t0", "p1d", "p2d", "pnew", "pnew0")
    for k in ("ct_pk", "ct_nopk"):
        for x in (UNSET, 5):
            for par in pars:
                out.append(dict(k=k, x=x, par=par))
    # detached loaded child c1..c4 with its many-to-one unloaded / loaded
    for cid in (11, 12, 13, 14):
        for par in (UNSET, "loaded"):
            for x in ("keep", 5) if tier == "thorough" else ("keep",):
                out.append(dict(k="cd", cid=cid, par=par, x=x))
    # transient parent with falsy / truthy collection members
    child_lists = [["c1t0"], ["cn0"], ["c2d"], ["c1d", "cn0"]]
    if tier == "thorough":
        child_lists += [UNSET, [], ["cn0", "c1d"], ["c1t0", "cn"], ["c2d", "c1d"]]
    for k in ("t_pk",) if tier == "quick" else ("t_pk", "t_nopk", "t_newpk"):
        for x in (0, 5) if tier == "quick" else (UNSET, 0, 5):
            for cs in child_lists:
                out.append(dict(k=k, x=x, y=UNSET, cs=cs))
    # detached falsy parent p2 with its collection [c2 (falsy), c3 (truthy)]
    attrs = ("x", "cs") if tier == "quick" else ("x", "y", "cs")
    for n in range(len(attrs) + 1):
        for exp in itertools.combinations(attrs, n):
            for cs in ("keep", "append_cn0"):
                if cs != "keep" and "cs" in exp:
                    continue
                out.append(dict(k="d", pid=2, exp=list(exp), x="keep", cs=cs))
    return out


def sources(tier):
    """JSON-able source specs, simplest first"""
    out = []
    child_lists = [UNSET, [], ["c1d"], ["c1t"], ["cn"], ["c1d", "cn"]]
    if tier == "thorough":
        child_lists += [["cn", "c1d"], ["c1t", "cn"], ["cn", "cn"]]
    ys = (UNSET, 5) if tier == "quick" else (UNSET, 1, 5)
    for k in ("t_pk", "t_nopk", "t_newpk", "p_other"):
        for x in (UNSET, 1, 5):
            for y in ys:
                for cs in child_lists:
                    out.append(dict(k=k, x=x, y=y, cs=cs))
    # child-rooted sources (scalar many-to-one branch of the merge cascade)
    for k in ("ct_pk", "ct_nopk"):
        for x in (UNSET, 5):
            for par in (UNSET, "none", "p1t", "p1d", "pnew"):
                out.append(dict(k=k, x=x, par=par))
    for n in range(4):
        for exp in itertools.combinations(("x", "y", "cs"), n):
            for x in ("keep", 5):
                if x == 5 and "x" in exp:
                    continue
                for cs in ("keep", "append_cn"):
                    if cs != "keep" and "cs" in exp:
                        continue
                    out.append(dict(k="d", exp=list(exp), x=x, cs=cs))
    return out


class Case:
    pass


def build(kind, target, spec, truth=None):
    cs = Case()
    w = cs.w = truth_world(truth) if truth else world(kind, "list", "bp")
    cs.kind = kind
    cs.falsy = 0
    cs.db = TRUTH_DB if truth else BASE_DB
    cs.engine = w.memory_engine(rows_sql(kind, truth))
    cs.log = _log(cs.engine)
    P, C = w.P, w.C
    # ---- the source graph (through a second Session B where it has to be loaded)
    B = cs.B = Session(cs.engine, autoflush=False)
    k = spec["k"]

    def child(cspec):
        if cspec == "c1d":
            c = B.get(C, 11)
            c.x, c.y, c.name  # loaded
            return c
        if cspec == "c2d":  # (truth worlds) falsy row c2, child of p2
            c = B.get(C, 12)
            c.x, c.y, c.name
            return c
        if cspec == "c1t":
            return C(id=11, name="c1", x=5)
        if cspec == "c1t0":
            return C(id=11, name="c1", x=0)
        if cspec == "cn0":
            return C(name="cn", x=0)
        return C(name="cn", x=5)

    if k.startswith("ct"):
        src = C(name="src")
        if k == "ct_pk":
            src.id = 11
        if spec["x"] != UNSET:
            src.x = spec["x"]
        par = spec["par"]
        if par == "none":
            src.p = None
        elif par == "p1t":
            src.p = P(id=1, name="p1", x=5)
        elif par == "pnew":
            src.p = P(id=3, name="pnew", x=5)
        elif par == "p1t0":
            src.p = P(id=1, name="p1", x=0)
        elif par == "pnew0":
            src.p = P(id=3, name="pnew", x=0)
        elif par in ("p1d", "p2d"):
            pd = B.get(P, int(par[1]))
            pd.x, pd.y, pd.name
            src.p = pd
    elif k == "cd":
        src = B.get(C, spec["cid"])
        src.name, src.x, src.y
        if spec["par"] == "loaded":
            src.p.name  # load the many-to-one and the parent's columns
    elif k == "d":
        src = B.get(P, spec.get("pid", 1))
        src.cs  # load the collection (and the child)
        for ch in src.cs:
            ch.name
        if spec["exp"]:
            B.expire(src, spec["exp"])
    else:
        src = P(name="src")
        if k == "t_pk":
            src.id = 1
        elif k in ("t_newpk", "p_other"):
            src.id = 3
        if spec["x"] != UNSET:
            src.x = spec["x"]
        if spec["y"] != UNSET:
            src.y = spec["y"]
        if spec["cs"] != UNSET:
            src.cs = [child(c) for c in spec["cs"]]
    if k == "p_other":
        B.add(src)
    else:
        B.expunge_all()
        B.close()
        if k == "cd" and spec["x"] == 5:
            src.x = 5
        if k == "d":
            if spec["x"] == 5:
                src.x = 5
            if spec["cs"] == "append_cn":
                src.cs.append(C(name="cn", x=5))
            elif spec["cs"] == "append_cn0":
                src.cs.append(C(name="cn", x=0))
    cs.src = src
    # ---- the target Session
    A = cs.A = Session(cs.engine, autoflush=False)
    cs.t = cs.tc = None
    if target != "empty":
        t = cs.t = A.get(P, 1)
        if target == "loaded_cs":
            t.cs
        elif target == "expired":
            A.expire(t)
        elif target == "modified":
            t.x = 9
        elif target == "with_child":
            cs.tc = A.get(C, 11)
            cs.tc.x
    return cs


_LOGS = {}


def _log(engine):
    if id(engine) not in _LOGS:
        _LOGS[id(engine)] = SqlLog(engine)
    return _LOGS[id(engine)]


DB = {
    "P": {1: dict(name="p1", x=1, y=1)},
    "C": {11: dict(name="c1", x=1, y=1), 12: dict(name="c2", x=1, y=1)},
}
DB_CHILDREN = {1: [11]}
DB_PARENT = {11: 1, 12: None}
BASE_DB = (DB, DB_CHILDREN, DB_PARENT)
TRUTH_DB = (
    {
        "P": {1: dict(name="p1", x=1, y=1), 2: dict(name="p2", x=0, y=1)},
        "C": {
            11: dict(name="c1", x=1, y=1),
            12: dict(name="c2", x=0, y=1),
            13: dict(name="c3", x=1, y=1),
            14: dict(name="c4", x=0, y=1),
        },
    },
    {1: [11, 14], 2: [12, 13]},
    {11: 1, 12: 2, 13: 2, 14: 1},
)
COLS = ("name", "x", "y")


def cls_name(o):
    return type(o).__name__


def snapshot_target(A):
    """what every object of the target Session holds before the merge"""
    snap = {}
    for o in list(A.identity_map.values()) + list(A.new):
        d = {a: v for a, v in o.__dict__.items() if a in COLS}
        rel = "cs" if cls_name(o) == "P" else None
        if rel and rel in o.__dict__:
            d[rel] = list(o.__dict__[rel])
        if cls_name(o) == "C" and "p" in o.__dict__:
            d["p"] = o.__dict__["p"]
        snap[id(o)] = (o, d)
    return snap


def graph_state(A, objs):
    """values + histories + session bookkeeping, for the idempotence probe"""
    out = []
    for o in objs:
        st = sa_inspect(o)
        vals = []
        for a in COLS + (("cs",) if cls_name(o) == "P" else ("p",) if "p" in st.attrs else ("ps",)):
            v = o.__dict__.get(a, "<unloaded>")
            if isinstance(v, list):
                v = [id(x) for x in v]
            elif hasattr(v, "_sa_instance_state"):
                v = id(v)
            h = st.attrs[a].history
            hh = tuple(tuple(id(x) if hasattr(x, "_sa_instance_state") else x for x in part) for part in h)
            vals.append((a, v, hh))
        out.append((id(o), tuple(vals), st.pending, st.persistent))
    # (Session.dirty is documented as optimistic - set by any attribute set
    # operation - so the net change is read from the histories instead)
    return (tuple(out), frozenset(id(x) for x in A.new), len(A.identity_map))


def is_dml(sql):
    return sql.lstrip().split()[0].upper() in ("INSERT", "UPDATE", "DELETE")


def source_graph(src):
    """source parent + cascaded children (loaded collection only)"""
    objs = [src]
    par = src.__dict__.get("p")
    if par is not None:
        objs.append(par)
    for o in list(objs):
        for c in o.__dict__.get("cs", ()) or ():
            if c not in objs:
                objs.append(c)
    return objs


def run_case(kind, target, spec, load, rec=None, truth=None):
    """returns list of (category, problem) - empty when the property holds"""
    cs = build(kind, target, spec, truth)
    DB, DB_CHILDREN, DB_PARENT = cs.db
    A, src, log = cs.A, cs.src, cs.log
    problems = []
    try:
        pre = snapshot_target(A)
        pre_new, pre_dirty = set(map(id, A.new)), set(map(id, A.dirty))
        pre_by_key = {(cls_name(o), sa_inspect(o).identity[0]): o for o in A.identity_map.values()}
        graph = source_graph(src)
        cs.falsy = sum(1 for o in graph if not o) if truth else 0
        misuse = any(sa_inspect(o).key is None or (sa_inspect(o).modified and (cls_name(o), sa_inspect(o).identity[0]) not in pre_by_key) for o in graph)
        mark = log.mark()
        try:
            T = A.merge(src, load=load)
        except sa_exc.InvalidRequestError as e:
            if not load and misuse:
                if set(map(id, A.new)) != pre_new or set(map(id, A.dirty)) != pre_dirty:
                    problems.append(("refusal", "merge(load=False) refused the source but changed the Session"))
                if rec is not None:
                    rec.outcome(("refused", spec["k"]))
                return problems
            problems.append(("raised", "InvalidRequestError: %s" % str(e)[:100]))
            return problems
        except (sa_exc.SQLAlchemyError, AssertionError, AttributeError, KeyError, TypeError) as e:
            problems.append(("raised", "%s: %s" % (type(e).__name__, str(e).split("\n")[0][:100])))
            return problems
        stmts = log.since(mark)
        if not load and misuse:
            # accepted although documented as unsupported: nothing claimed
            if rec is not None:
                rec.outcome(("accepted-misuse", spec["k"]))
            return problems
        merged_objs = []
        copied = []

        def check(s, m, depth=0):
            """s: source object, m: its merge result"""
            st_s = sa_inspect(s)
            cn = cls_name(s)
            pk = s.__dict__.get("id")
            key = (cn, pk) if pk is not None else None
            if m is s:
                problems.append(("identity", "%s: merge returned the source object itself" % cn))
                return
            if m in merged_objs:
                return
            merged_objs.append(m)
            held = pre_by_key.get(key) if key else None
            if held is not None:
                if m is not held:
                    problems.append(("identity", "%s %s: result is not the instance the Session already held" % (cn, pk)))
                    return
                kindr = "held"
            elif key and pk in DB[cn] and load:
                if A.identity_map.get(sa_inspect(m).key) is not m or not sa_inspect(m).persistent:
                    problems.append(("identity", "%s %s: result is not the Session's persistent instance for the row" % (cn, pk)))
                    return
                kindr = "loaded"
            elif not load:
                if not sa_inspect(m).persistent or A.identity_map.get(sa_inspect(m).key) is not m:
                    problems.append(("identity", "%s %s: load=False result is not a persistent instance of the Session" % (cn, pk)))
                    return
                kindr = "created-persistent"
            else:
                if m not in A.new:
                    problems.append(("identity", "%s %s: no row and not held, but the result is not pending in the Session" % (cn, pk)))
                    return
                kindr = "created"
            premap = pre.get(id(m), (None, {}))[1]
            rowvals = DB[cn].get(pk, {}) if kindr in ("held", "loaded", "created-persistent") else {}
            for a in COLS:
                if a in s.__dict__:
                    if getattr(m, a) != s.__dict__[a]:
                        problems.append(("copy", "%s.%s is %r on the result, %r on the source" % (cn, a, getattr(m, a), s.__dict__[a])))
                    if s.__dict__[a] != premap.get(a, rowvals.get(a)):
                        copied.append(a)
                else:
                    want = premap[a] if a in premap else rowvals.get(a)
                    if load and getattr(m, a) != want:
                        problems.append(("untouched", "%s.%s not loaded on the source but is %r on the result, was %r" % (cn, a, getattr(m, a), want)))
            if cn == "C" and cs.kind == "o2m" and depth == 0:
                if "p" in s.__dict__:
                    copied.append("p")
                    if s.p is None:
                        if m.p is not None:
                            problems.append(("copy", "C.p is None on the source, %r on the result" % (m.p,)))
                    elif m.p is None:
                        problems.append(("copy", "C.p is set on the source, None on the result"))
                    else:
                        check(s.p, m.p, depth + 1)
                        if m not in m.p.cs:
                            problems.append(("copy", "merged parent's collection lacks the merged child"))
                elif load:
                    want = premap.get("p", DB_PARENT.get(pk) if kindr in ("held", "loaded") else None)
                    got = m.p.id if m.p is not None else None
                    if got != (want.id if hasattr(want, "id") else want):
                        problems.append(("untouched", "C.p not loaded on the source but reads %r, was %r" % (got, want)))
            if cn == "P" and depth > 0:
                # reached through a child's many-to-one: the reverse side is
                # not merged (documented cycle rule); it must hold the child
                pass
            elif cn == "P":
                if "cs" in s.__dict__:
                    sl, ml = list(s.cs), list(m.cs)
                    if len(sl) != len(ml):
                        problems.append(("copy", "P.cs has %d members on the result, %d on the source" % (len(ml), len(sl))))
                    else:
                        copied.append("cs")
                        for sc, mc in zip(sl, ml):
                            check(sc, mc, depth + 1)
                            if cs.kind == "o2m" and "p" in mc.__dict__ and mc.p is not m:
                                problems.append(("copy", "merged child's parent is not the merged parent"))
                            if cs.kind == "m2m" and "ps" in mc.__dict__ and m not in mc.ps:
                                problems.append(("copy", "merged child's ps lacks the merged parent"))
                elif load and depth == 0:
                    # (a parent reached through a child's many-to-one gains that
                    # child through the backref: only judged for the root)
                    want = [id(x) for x in premap["cs"]] if "cs" in premap else None
                    if want is not None:
                        if [id(x) for x in m.cs] != want:
                            problems.append(("untouched", "P.cs not loaded on the source but changed on the result"))
                    else:
                        got = sorted(c.id for c in m.cs)
                        wantids = DB_CHILDREN.get(pk, []) if kindr in ("held", "loaded") else []
                        if got != wantids:
                            problems.append(("untouched", "P.cs not loaded on the source but reads %r, rows say %r" % (got, wantids)))
            return kindr

        kindr = check(src, T)
        # one object per identity
        keys = [sa_inspect(o).key for o in A.identity_map.values()]
        if len(keys) != len(set(keys)):
            problems.append(("identity", "identity map holds two objects for one key"))
        if problems:
            return problems
        if not load:
            if stmts:
                problems.append(("noload", "load=False emitted SQL: %s" % stmts[0][0].split("\n")[0][:60]))
            # (objects that are not results of this merge and carried a pending
            # change before it keep it)
            if [o for o in A.dirty if id(o) not in pre_dirty or any(o is m for m in merged_objs)]:
                problems.append(("noload", "load=False left Session.dirty non-empty"))
            if any(sa_inspect(o).modified for o in merged_objs):
                problems.append(("noload", "load=False flagged the result as modified"))
        if load:
            # ---- flush: the rows equal the copied + untouched values
            try:
                A.flush()
            except (sa_exc.SQLAlchemyError, AssertionError) as e:
                problems.append(("flush", "flush after merge raised %s: %s" % (type(e).__name__, str(e).split("\n")[0][:80])))
                return problems
            for m in merged_objs:
                cn = cls_name(m)
                tab = "p" if cn == "P" else "c"
                row = cs.w.raw_rows("select name, x, y from %s where id = %d" % (tab, m.id))
                want = tuple(getattr(m, a) for a in COLS)
                if not row or tuple(row[0]) != want:
                    problems.append(("flush", "%s row %r after flush, object holds %r" % (cn, row, want)))
            if cls_name(src) == "C" and "p" in src.__dict__ and cs.kind == "o2m":
                row = cs.w.raw_rows("select p_id from c where id = %d" % T.id)
                want = T.p.id if T.p is not None else None
                if not row or row[0][0] != want:
                    problems.append(("flush", "merged child's p_id is %r in the row, its parent is %r" % (row, want)))
            if "cs" in src.__dict__:
                ids = sorted(c.id for c in T.cs)
                if cs.kind == "o2m":
                    got = sorted(r[0] for r in cs.w.raw_rows("select id from c where p_id = %d" % T.id))
                else:
                    got = sorted(r[0] for r in cs.w.raw_rows("select c_id from pc where p_id = %d" % T.id))
                if got != ids:
                    problems.append(("flush", "children of the merged parent in the database %r, in memory %r" % (got, ids)))
            if problems:
                return problems
        # ---- second merge of the same source: nothing changes.  Only a source
        # whose every object has a primary key has an identity to be found
        # again (a key-less transient is a new row each time, by definition).
        if any(o.__dict__.get("id") is None for o in graph):
            if rec is not None:
                rec.count("second_merge_skipped_source_without_primary_key")
                rec.outcome((kindr, tuple(sorted(set(copied))), load))
            cs.copied = copied
            return problems
        objs2 = list(merged_objs)
        before = graph_state(A, objs2)
        mark = log.mark()
        try:
            T2 = A.merge(src, load=load)
            if load:
                A.flush()
        except (sa_exc.SQLAlchemyError, AssertionError) as e:
            problems.append(("again", "second merge raised %s" % type(e).__name__))
            return problems
        if T2 is not T:
            problems.append(("again", "second merge returned another object"))
        dml = [q for q, _ in log.since(mark) if is_dml(q)]
        # a detached child moved under another parent still carries the old
        # foreign key *column* value next to the new relationship: the source
        # contradicts itself, merge copies both and the flush re-synchronises
        stale_fk = cs.kind == "o2m" and any("p_id" in c.__dict__ and c.__dict__["p_id"] != src.__dict__.get("id") for c in graph[1:])
        if stale_fk:
            if rec is not None:
                rec.count("second_merge_dml_not_judged_source_fk_column_stale")
        elif dml:
            problems.append(("again", "second merge (+flush) emitted %s" % dml[0].split()[0]))
        after = graph_state(A, objs2)
        if after != before:
            what = "Session.new / identity map" if after[1:] != before[1:] else "values or histories"
            problems.append(("again", "second merge changed %s" % what))
        if rec is not None:
            rec.outcome((kindr, tuple(sorted(set(copied))), load))
        cs.copied = copied
        return problems
    finally:
        cs.nontrivial = bool(locals().get("copied"))
        try:
            A.close()
            cs.B.close()
        except Exception:
            pass
        run_case.last = cs


def spec_text(spec):
    if spec["k"].startswith("ct"):
        return "transient C(%s) x=%s p=%s" % ("id=11" if spec["k"] == "ct_pk" else "", spec["x"], spec["par"])
    if spec["k"] == "cd":
        return "detached c%d (p %s%s)" % (spec["cid"] - 10, "loaded" if spec["par"] == "loaded" else "not loaded", ", x=5 after detach" if spec["x"] == 5 else "")
    if spec["k"] == "d":
        return "detached p%d (expired %s%s%s)" % (
            spec.get("pid", 1),
            spec["exp"] or "nothing",
            ", x=5 after detach" if spec["x"] == 5 else "",
            ", new child appended" if spec["cs"] == "append_cn" else ", new falsy child appended" if spec["cs"] == "append_cn0" else "",
        )
    who = {"t_pk": "transient P(id=1)", "t_nopk": "transient P()", "t_newpk": "transient P(id=3)", "p_other": "P(id=3) pending in another Session"}[spec["k"]]
    return "%s x=%s y=%s cs=%s" % (who, spec["x"], spec["y"], spec["cs"])


def shards(tier, seed):
    out = [[kind, t, load] for kind in ("o2m", "m2m") for t in TARGETS for load in (True, False)]
    modes = TRUTH_MODES if tier == "thorough" else TRUTH_MODES[:1]
    out += [["o2m", t, load, mode] for mode in modes for t in TARGETS for load in (True, False)]
    return out


def run_shard(shard, tier, rec):
    kind, target, load = shard[:3]
    truth = shard[3] if len(shard) > 3 else None
    label = kind if not truth else "%s/__%s__" % (kind, truth)
    gc.disable()
    try:
        rec.state(("target", label, target))
        for spec in truth_sources(tier) if truth else sources(tier):
            if kind == "m2m" and spec["k"].startswith("ct"):
                continue
            rec.transition()
            rec.trace()
            problems = run_case(kind, target, spec, load, rec, truth)
            cs = run_case.last
            rec.case((label, target, repr(spec), load), nontrivial=cs.nontrivial)
            rec.state(("case", label, target, repr(spec)))
            if truth:
                rec.count("truth_world_cases_with_falsy_source_object" if cs.falsy else "truth_world_cases_all_truthy")
            if problems:
                cat, problem = problems[0]
                sig = "%s %s: merge(%s, load=%s) into a Session with p1 %s -> %s" % (cat, label, spec_text(spec), load, target, problem)
                case = dict(kind=kind, target=target, spec=spec, load=load)
                if truth:
                    case["truth"] = truth
                rec.violation(sig, "; ".join(p for _, p in problems), case, kind=(cat, problem.split(":")[0][:40], spec["k"]))
            elif cs.nontrivial:
                rec.sample(dict(mapping=label, target=target, source=spec_text(spec), load=load), limit=2)
    finally:
        gc.enable()
        gc.collect()


def replay(case):
    problems = run_case(case["kind"], case["target"], case["spec"], case["load"], truth=case.get("truth"))
    return [("%s %s" % (c, p), p) for c, p in problems]
