"""C08 LIKE-based string operators with autoescape match literal semantics (engine I).

Every (haystack, needle) pair with both strings of length <= 2 (quick) / needle <= 3, haystack <= 4 (thorough) over the alphabet
``% _ / \\ ' a A`` (wildcards, the usual escape characters, the quote, one letter in both cases):
the haystacks are the rows of a table (plus NULL), the needle is the Python string handed to
contains / startswith / endswith / icontains / istartswith / iendswith with ``autoescape=True`` and escape character
default ('/'), '\\', '#', and the quote (an escape character that also occurs in the data and needs quoting in the
ESCAPE clause), plain and negated with ``~``.
All 48 expressions of one needle are selected side by side on SQLite (``PRAGMA case_sensitive_like=ON``), bound and
-- for needles of length <= 2 -- rendered with ``literal_binds``.

Oracle: Python ``needle in hay`` / ``hay.startswith(needle)`` / ``hay.endswith(needle)`` (both sides ASCII-lowered for
the i-variants), NULL haystack -> NULL, negation -> NOT.

Other dialects (postgresql, mysql, mssql, oracle; not executable here): the emitted text is parsed by the reference
grammar (``vf.models.sqlparse_ref``) with the escaped bind value substituted and evaluated by the reference LIKE matcher
of ``vf.models.sql3vl`` (pattern structure, ESCAPE clause and escaped value must together implement the same literal
test) on every haystack of length <= 2.  The same parse+evaluate route is applied to the sqlite text and compared
with what SQLite returned (conformance of the matcher).

Mutations caught: (private copy of lib/, VF_REPO=/tmp/wt-sqlsem) escape char not escaping itself; '_' left unescaped;
ESCAPE clause dropped in visit_not_like_op_binary; visit_iendswith_op_binary lowering only the left side -- details in
MUTATIONS at the end of the module.
"""
from __future__ import annotations

import itertools
import warnings

import sqlalchemy as sa

from ..models import sql3vl
from ..models import sqlparse_ref

ID = "C08"
LEVEL = "exploration"
META = dict(
    engine="I",
    technique="exhaustive small-scope enumeration of (haystack, needle) string pairs over a wildcard/escape-rich alphabet, "
    "executed on SQLite; Python substring/prefix/suffix oracle; reference-grammar parse + reference LIKE matcher for the "
    "non-executable dialects",
    design_ref="DESIGN.md §5 C08",
    level_text="All pairs of strings of length <=2 (quick: 57x57) / needles <=3 x haystacks <=4 (thorough: 400x2801) over {% _ / \\ ' a A} x 6 operators x "
    "plain/negated x 4 escape characters are executed for real (bound; literal_binds for needles <=2) and compared "
    "with Python's in/startswith/endswith per row, NULL haystack included. Escaping is per character, so every "
    "escaping bug (escape char not escaping itself, a wildcard left active, a dropped ESCAPE clause, one-sided "
    "lowering) shows on a needle of length <=2 next to a haystack of length <=3.",
    level_note="Trusted: Python str methods; sql3vl.like_match for the parse-level dialects (validated against SQLite on every "
    "enumerated expression). PostgreSQL/MySQL/MSSQL/Oracle texts are not executed.",
    rule="case = (needle, operator, negated, escape char, mode), evaluated on every haystack row; non-trivial = the needle "
    "contains a wildcard, the escape character, a quote or an upper-case letter",
    assumptions=["SQLite PRAGMA case_sensitive_like=ON", "ASCII data"],
    bounds=dict(quick="haystacks and needles of length <=2 (57 x 57)", thorough="needles of length <=3 (400) x haystacks of length <=4 (2801); dialect grammars on haystacks <=2"),
)

ALPHABET = ("%", "_", "/", "\\", "'", "a", "A")
OPS = ("contains", "startswith", "endswith", "icontains", "istartswith", "iendswith")
ESCAPES = (None, "\\", "#", "'")  # None = autoescape with the default escape character; "'" also occurs in the data
DIALECTS = ("postgresql", "mysql", "mssql", "oracle")

_st = {}


def strings(n):
    out = []
    for k in range(n + 1):
        for tup in itertools.product(ALPHABET, repeat=k):
            out.append("".join(tup))
    return out


def bounds(tier):
    return dict(n=2, hay_n=2, lit_n=2) if tier == "quick" else dict(n=3, hay_n=4, lit_n=2)


md = sa.MetaData()
t = sa.Table("tl", md, sa.Column("id", sa.Integer, primary_key=True), sa.Column("h", sa.String), sa.Column("short", sa.Integer))


def _env(n):
    if _st.get("n") != n:
        eng = sa.create_engine("sqlite://")
        sa.event.listen(eng, "connect", lambda dbapi_con, rec: dbapi_con.execute("PRAGMA case_sensitive_like=ON"))
        md.create_all(eng)
        hay = [None] + strings(n)
        with eng.begin() as c:
            c.execute(t.insert(), [dict(id=i + 1, h=h, short=1 if h is None or len(h) <= 2 else 0) for i, h in enumerate(hay)])
        conn = eng.connect()
        _st.clear()
        _st.update(n=n, eng=eng, conn=conn.execution_options(compiled_cache=None), raw=conn.connection.driver_connection, hay=hay)
        for d in ("sqlite",) + DIALECTS:
            _st[d] = __import__("sqlalchemy.dialects." + d, fromlist=["dialect"]).dialect(paramstyle="named")
    return _st


def shards(tier, seed):
    b = bounds(tier)
    needles = strings(b["n"])
    parts = 16 if tier == "quick" else 80
    return [[p, parts] for p in range(parts)]


def variants():
    for op in OPS:
        for esc in ESCAPES:
            for neg in (False, True):
                yield op, esc, neg


VARIANTS = list(variants())


def build(op, esc, neg, needle):
    kw = dict(autoescape=True)
    if esc is not None:
        kw["escape"] = esc
    e = getattr(t.c.h, op)(needle, **kw)
    return ~e if neg else e


def oracle(op, neg, hay, needle):
    if hay is None:
        return None
    if op[0] == "i":
        hay, needle, op = sql3vl._ascii_lower(hay), sql3vl._ascii_lower(needle), op[1:]
    r = (needle in hay) if op == "contains" else hay.startswith(needle) if op == "startswith" else hay.endswith(needle)
    return int((not r) if neg else r)


def _nontrivial(needle, esc):
    return any(ch in needle for ch in ("%", "_", "/", "\\", "'", "A")) or (esc is not None and esc in needle)


def _exec(env, exprs, literal):
    stmt = sa.select(*[e.label("c%d" % i) for i, e in enumerate(exprs)]).select_from(t).order_by(t.c.id)
    with warnings.catch_warnings():
        warnings.simplefilter("ignore")
        if literal:
            sql = str(stmt.compile(dialect=env["eng"].dialect, compile_kwargs=dict(literal_binds=True)))
            return env["raw"].execute(sql).fetchall()
        res = env["conn"].execute(stmt)
        try:
            return res.cursor.fetchall()
        finally:
            res.close()


def _compile_many(env, exprs, d):
    with warnings.catch_warnings():
        warnings.simplefilter("ignore")
        c = sa.select(*[e.label("zzlbl_%d" % i) for i, e in enumerate(exprs)]).select_from(t).compile(dialect=env[d])
    text = str(c)
    import re

    parts = re.split(r" AS zzlbl_\d+(?:, | \nFROM tl$)", text[len("SELECT ") :])
    if not text.startswith("SELECT ") or len(parts) != len(exprs) + 1 or parts[-1] != "":
        raise RuntimeError("unexpected statement layout: %r" % text)
    return parts[:-1], c.params


def check_needle(env, needle, rec, want_literal, vsel=None, modes=None):
    """all 48 variants of one needle x every haystack row. returns list of (sig, detail, case, kind)"""
    out = []
    hay = env["hay"]
    vs = VARIANTS if vsel is None else [tuple(vsel)]
    exprs = [build(op, esc, neg, needle) for op, esc, neg in vs]
    results = {}
    for mode in ("bound", "literal_binds"):
        if mode == "literal_binds" and not want_literal:
            continue
        if modes is not None and mode not in modes:
            continue
        try:
            rows = _exec(env, exprs, mode == "literal_binds")
        except Exception as ex:
            if not (isinstance(ex, sa.exc.SQLAlchemyError) or type(ex).__module__.startswith("sqlite3")):
                raise
            # find the culprit variant(s)
            if len(vs) > 1:
                for v in vs:
                    out.extend(check_needle(env, needle, None, want_literal, v, (mode,)))
            else:
                op, esc, neg = vs[0]
                out.append(_viol(mode, op, esc, neg, needle, None, "raised %s: %s" % (type(ex).__name__, str(ex).splitlines()[0][:200]), None))
            continue
        cols = list(zip(*rows))
        results[mode] = cols
        for j, (op, esc, neg) in enumerate(vs):
            if rec is not None:
                rec.case((needle, op, esc, neg, mode), nontrivial=_nontrivial(needle, esc))
                rec.count("row_comparisons", len(hay))
                if mode == "bound":
                    rec.outcome(cols[j])
            for h, got in zip(hay, cols[j]):
                want = oracle(op, neg, h, needle)
                if got != want:
                    out.append(_viol(mode, op, esc, neg, needle, h, got, want))
                    break
    if modes is not None and "bound" not in modes and not any(m in DIALECTS + ("sqlite",) for m in modes):
        return out
    # reference grammar + reference LIKE matcher: sqlite (conformance) and the four non-executable dialects
    short = [(i, h) for i, h in enumerate(hay) if h is None or len(h) <= 2]
    for d in ("sqlite",) + DIALECTS:
        if modes is not None and d not in modes and not (d == "sqlite" and "bound" in modes):
            continue
        texts, params = _compile_many(env, exprs, d)
        for j, (op, esc, neg) in enumerate(vs):
            try:
                tree = sqlparse_ref.parse(texts[j], d, params)
            except sqlparse_ref.ParseError as ex:
                if d == "sqlite":
                    raise
                out.append(_viol(d, op, esc, neg, needle, None, "emitted %r rejected by the %s grammar: %s" % (texts[j], d, ex), None))
                continue
            f = sql3vl.compile_ast(tree)
            for i, h in short:
                got = sql3vl.to_backend(f({"h": h}))
                if rec is not None:
                    rec.count("grammar_model_evaluations")
                if d == "sqlite":
                    if "bound" in results and got != results["bound"][j][i]:
                        raise RuntimeError("LIKE matcher model disagrees with SQLite: %r needle %r hay %r: SQLite %r model %r" % (texts[j], needle, h, results["bound"][j][i], got))
                    continue
                want = oracle(op, neg, h, needle)
                if got != want:
                    out.append(_viol(d, op, esc, neg, needle, h, "%r with %r evaluates (reference LIKE semantics) to %r" % (texts[j], params, got), want))
                    break
    return out


def _viol(mode, op, esc, neg, needle, hay, got, want):
    form = ("~" if neg else "") + op
    escname = "default" if esc is None else repr(esc)
    sig = "%s %s autoescape escape=%s needle=%r haystack=%r" % (mode, form, escname, needle, hay)
    detail = "got %s, Python %s test says %r" % (got if isinstance(got, str) else repr(got), op, want)
    case = dict(mode=mode, op=op, esc=esc, neg=neg, needle=needle, n=max(2, len(hay or "")))
    return sig, detail, case, "%s/%s/%s/%s" % (mode, op, escname, neg)


def run_shard(shard, tier, rec):
    p, parts = shard
    b = bounds(tier)
    env = _env(b["hay_n"])
    needles = strings(b["n"])
    for k, needle in enumerate(needles):
        if k % parts != p:
            continue
        for sig, detail, case, kind in check_needle(env, needle, rec, len(needle) <= b["lit_n"]):
            rec.violation(sig, detail, case, kind=kind)
        if k % 11 == 3 and _nontrivial(needle, None):
            e = build("contains", None, False, needle)
            c = e.compile(dialect=env["sqlite"])
            rec.sample(dict(needle=needle, sql=str(c), bound_value=c.params, matches=[h for h in env["hay"] if h is not None and needle in h][:6]))


def replay(case):
    env = _env(case.get("n", 2))
    mode = case["mode"]
    res = check_needle(env, case["needle"], None, mode == "literal_binds", (case["op"], case["esc"], case["neg"]), (mode,))
    return [(sig, detail) for sig, detail, _, _ in res]


MUTATIONS = """
Mutations caught (each alone, on a private copy; every one produced VIOLATION lines):
 * operators.py _escaped_like_impl: the escape character no longer escapes itself (replace(escape, escape+escape) removed)
 * operators.py _escaped_like_impl: "_" left unescaped
 * compiler.py visit_not_like_op_binary: ESCAPE clause dropped for the negated forms only
 * compiler.py visit_iendswith_op_binary: only the left side lowered
"""
