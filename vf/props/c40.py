"""C40 loader strategies change how data is loaded, never what is loaded.

Engine I, differential oracle: for every (scenario, data set, query) the
object-graph snapshot obtained under a loader configuration must be identical
to the snapshot of the all-lazy baseline of the same query on the same data
(the baseline's related collections are themselves checked against the
generated rows).  Documented incompatibilities (yield_per with joined
collections / subqueryload, joined collections without unique()) must raise
InvalidRequestError.  Failing configurations are reduced greedily (strategies
-> lazy, deviations dropped, simplest query, first data sets) and reported
under a structural signature ``<kind> q=<query> (<strategy>:<direction>,...)+<deviations>``.

Mutations caught (private copy, VF_REPO=/tmp/wt-query):
  * orm/context.py _should_nest_selectable: LIMIT with multi-row eager loaders no longer wraps the statement in a
    subquery (``... and False`` on the limit branch)            -> related:children / primary-rows q=limit2 (joined:o2m,-)
  * orm/strategies.py _SubqueryLoader._setup_outermost_orderby: relationship order_by dropped -> related:children (-,subquery:o2m)
  * orm/strategies.py _JoinedLoader._create_eager_join: innerjoin chained below an outer join attached un-nested as a
    real INNER JOIN (childless parents dropped)                  -> primary-rows q=all (joined,joined_inner)
  * orm/strategies.py _SelectInLoader._load_for_path: relationship order_by dropped     -> related:children (selectin:o2m,-)
  * orm/strategies.py _LazyLoader._emit_lazyload: order_by dropped (the baseline route itself) -> baseline-vs-rows
Not caught, by design: selectin chunk loop skipping one parent per chunk (``our_states[chunksize + 1:]``): the
skipped parent's collection simply stays unloaded and is lazy-loaded on access, so WHAT is loaded does not change
(also not under raiseload('*'), which does not apply to an attribute that has its own loader option).
"""
from __future__ import annotations

import collections
import itertools
import os

from sqlalchemy import create_engine
from sqlalchemy import exc as sa_exc
from sqlalchemy import inspect
from sqlalchemy import select
from sqlalchemy.orm import aliased
from sqlalchemy.orm import defaultload
from sqlalchemy.orm import defer
from sqlalchemy.orm import immediateload
from sqlalchemy.orm import joinedload
from sqlalchemy.orm import lazyload
from sqlalchemy.orm import load_only
from sqlalchemy.orm import Query
from sqlalchemy.orm import raiseload
from sqlalchemy.orm import selectinload
from sqlalchemy.orm import Session
from sqlalchemy.orm import subqueryload
from sqlalchemy.orm import undefer
from sqlalchemy.orm import with_expression
from sqlalchemy.orm import with_polymorphic
from sqlalchemy.orm.interfaces import MANYTOONE
from sqlalchemy.pool import StaticPool

from ..worlds import queryworld as qw

ID = "C40"
LEVEL = "exploration"
META = dict(
    engine="I",
    technique="exhaustive small-scope enumeration of (data set x query x loader assignment x option deviation), "
    "differential against the all-lazy baseline on the real ORM + SQLite",
    design_ref="DESIGN.md §5 C40",
    level_text="Nine scenarios over four mappings (one-to-many chain, many-to-one chains, many-to-many, self-referential, "
    "joined/single inheritance with sub-class relationships). For every data set in the bound (every distribution of children "
    "over parents incl. childless parents and NULL FKs, every link subset, every forest, every type/company assignment), every "
    "query of the scenario (unordered, ORDER BY, filter, join+filter with duplicate rows, DISTINCT, any(), LIMIT, OFFSET+LIMIT, "
    "LIMIT ordered by a joined column, aliased / with_polymorphic / sub-class entity, multi-entity rows) and EVERY function from "
    "the two relationship-path positions to {lazy, joined, joined(innerjoin), subquery, selectin, immediate} is executed and its "
    "object graph (primary rows in order, column attributes, related collections in order, two levels deep) compared with the "
    "all-lazy baseline. Around each assignment one deviation at a time: column options at both entity "
    "levels (defer, load_only, undefer, with_expression), yield_per 1/2, pre-populated session with and without "
    "populate_existing, mapper-level lazy= configuration instead of options, legacy Query API, selectin chunksize 1, "
    "innerjoin='unnested', defaultload, raiseload (nothing triggered), raiseload('*') behind full eager loading. Documented "
    "incompatibilities (yield_per with joined collections / subqueryload, joined collections without unique()) must raise "
    "InvalidRequestError instead of mis-loading.",
    level_note="Trusted: SQLite executing the emitted SQL, the 60-line snapshot function, the all-lazy route as reference (itself "
    "checked against the generated rows for every related collection). innerjoin=True is only applied where its documented "
    "precondition holds on the data set (every source row has a related row). Results without ORDER BY are compared as "
    "multisets; LIMIT only with a total ORDER BY. One chunk-boundary data set with 501 parents exercises the real selectin "
    "chunk size.",
    rule="case = (scenario, data set, query, loader assignment, deviation); non-trivial = at least one eager strategy in the "
    "assignment AND the baseline graph has a non-empty related collection / non-NULL reference at an eagerly loaded position",
    assumptions=[
        "SQLite 3.40 executes the emitted SQL correctly",
        "relationship order_by is total (v DESC, id DESC); unordered collections/results are compared as multisets",
        "innerjoin=True only where every source row has a related row (its documented contract)",
    ],
    bounds=dict(
        quick="U1: <=2 parents x <=3 children (all distributions) x 3-4 grandchild patterns; U2 <=2x2 all link subsets; U3 all "
        "forests <=3 nodes; U4 <=2 companies x <=2 persons all type/company vectors; 36 assignments x all queries, "
        "deviations d=1 on 2 queries",
        thorough="U1: <=3 parents x <=4 children (all distributions; 3-4 grandchild patterns up to 2x3, one beyond); U2 <=3x2; U3 all "
        "parent functions <=3 nodes incl. cycles + forests of 4; U4 <=2 companies x <=3 persons x <=1 machine (sorted type vectors); "
        "core + middle data sets: extras + deviations d=1 on one query; all data sets: 36 assignments x all queries",
    ),
)
SHARD_TIMEOUT = dict(quick=600, thorough=3000)

STRATS = ("lazy", "joined", "joined_inner", "subquery", "selectin", "immediate")
EXTRA_STRATS = ("default", "selectin_c1", "joined_unnested", "raise")
JOINED = ("joined", "joined_inner", "joined_unnested")
MAPPER_LAZY = dict(
    lazy=("select", False),
    joined=("joined", False),
    joined_inner=("joined", True),
    subquery=("subquery", False),
    selectin=("selectin", False),
    immediate=("immediate", False),
)

# ------------------------------------------------------------------ ground truth for relationships


def _desc_key(r):
    return (r["v"] is None, -(r["v"] or 0), -r["id"])


def _o2m(table, fk, key=_desc_key):
    def f(data, pk):
        return [r["id"] for r in sorted((r for r in data.get(table, ()) if r[fk] == pk), key=key)]

    return f


def _m2o(table, fk):
    def f(data, pk):
        for r in data.get(table, ()):
            if r["id"] == pk:
                return r[fk]
        return None

    return f


REL_TRUTH = {
    ("U1", "children"): ("parent", _o2m("child", "parent_id")),
    ("U1", "grandchildren"): ("child", _o2m("grandchild", "child_id")),
    ("U1", "parent"): ("child", _m2o("child", "parent_id")),
    ("U1", "child"): ("grandchild", _m2o("grandchild", "child_id")),
    ("U2", "tags"): ("item", lambda d, pk: sorted(r["tag_id"] for r in d.get("item_tag", ()) if r["item_id"] == pk)),
    ("U2", "items"): ("tag", lambda d, pk: sorted(r["item_id"] for r in d.get("item_tag", ()) if r["tag_id"] == pk)),
    ("U3", "children"): ("node", _o2m("node", "parent_id")),
    ("U3", "parent"): ("node", _m2o("node", "parent_id")),
    ("U4", "employees"): ("company", _o2m("person", "company_id")),
    ("U4", "company"): ("person", _m2o("person", "company_id")),
    ("U4", "machines"): ("engineer", _o2m("machine", "engineer_id", key=lambda r: -r["id"])),
    ("U4", "owner"): ("machine", _m2o("machine", "engineer_id")),
}


def rel_truth(U, rel, data, pk):
    return REL_TRUTH[(U, rel)][1](data, pk)


def innerjoin_ok(U, rel, data):
    """documented precondition of innerjoin=True: every row of the source
    table has at least one related row"""
    src, f = REL_TRUTH[(U, rel)]
    rows = data.get(src, ())
    if rel == "machines":
        # joined from the (polymorphic) Person entity: every person row must be an engineer with a machine
        if len(rows) != len(data.get("person", ())):
            return False
    for r in rows:
        t = f(data, r["id"])
        if t is None or t == []:
            return False
    return True


# ------------------------------------------------------------------ scenarios


class Scenario:
    def __init__(self, name, U, path, build, queries, datasets, dev_queries):
        self.name, self.U, self.path, self._build, self.queries, self.datasets, self.dev_queries = (
            name, U, path, build, queries, datasets, dev_queries,
        )
        self._worlds = {}

    def world(self, route=None):
        """route None -> plain all-lazy mapping; (s1, s2) -> mapper-level lazy= configuration"""
        if route not in self._worlds:
            self._worlds[route] = self._build(route)
        return self._worlds[route]


def _ml(s):
    return MAPPER_LAZY[s or "lazy"]


def _b_u1a(route):
    s1, s2 = route or (None, None)
    return qw.build_u1(lazy1=_ml(s1)[0], innerjoin1=_ml(s1)[1], lazy2=_ml(s2)[0], innerjoin2=_ml(s2)[1])


def _b_u1b(route):
    s1, s2 = route or (None, None)
    return qw.build_u1(lazy_back=_ml(s1)[0], innerjoin_back=_ml(s1)[1], lazy1=_ml(s2)[0], innerjoin1=_ml(s2)[1])


def _b_u1c(route):
    return qw.build_u1()


def _b_u2a(route):
    s1, s2 = route or (None, None)
    return qw.build_u2(lazy1=_ml(s1)[0], lazy2=_ml(s2)[0])


def _b_u3a(route):
    s1, s2 = route or (None, None)
    return qw.build_u3(lazy1=_ml(s1)[0], join_depth=2 if route else None)


def _b_u3b(route):
    s1, s2 = route or (None, None)
    return qw.build_u3(lazy_back=_ml(s1)[0], lazy1=_ml(s2)[0], join_depth=2 if route else None)


def _b_u4a(route):
    s1, s2 = route or (None, None)
    return qw.build_u4(lazy1=_ml(s1)[0], lazy_m=_ml(s2)[0])


def _b_u4b(route):
    s1, s2 = route or (None, None)
    return qw.build_u4(lazy_back=_ml(s1)[0], lazy1=_ml(s2)[0])


def _b_u4c(route):
    s1, s2 = route or (None, None)
    return qw.build_u4(lazy_m=_ml(s1)[0])


# A query is fn(world, root) -> (statement-or-Query, attr1) where root(*entities)
# is ``select`` or ``Query`` and attr1 the relationship attribute of path
# position 1 bound to the query's primary entity.  flags: o=ordered (total
# ORDER BY), d=may return duplicate primary entities.


def _q_u1a():
    def all_unordered(w, root):
        return root(w.Parent), w.Parent.children

    def all_(w, root):
        return root(w.Parent).order_by(w.Parent.id), w.Parent.children

    def desc(w, root):
        return root(w.Parent).order_by(w.Parent.name.desc(), w.Parent.id.desc()), w.Parent.children

    def filt(w, root):
        return root(w.Parent).where(w.Parent.x > 0).order_by(w.Parent.id), w.Parent.children

    def join(w, root):
        return (
            root(w.Parent).join(w.Parent.children).where(w.Child.v >= 1).order_by(w.Parent.id, w.Child.id),
            w.Parent.children,
        )

    def join_distinct(w, root):
        return (
            root(w.Parent).join(w.Parent.children).where(w.Child.v >= 1).distinct().order_by(w.Parent.id.desc()),
            w.Parent.children,
        )

    def any_(w, root):
        return root(w.Parent).where(w.Parent.children.any(w.Child.v == 1)).order_by(w.Parent.id), w.Parent.children

    def limit2(w, root):
        return root(w.Parent).order_by(w.Parent.name.desc(), w.Parent.id.desc()).limit(2), w.Parent.children

    def off1lim2(w, root):
        return root(w.Parent).order_by(w.Parent.id.desc()).offset(1).limit(2), w.Parent.children

    def join_limit(w, root):
        return (
            root(w.Parent).join(w.Parent.children).order_by(w.Child.v.desc(), w.Child.id).limit(2),
            w.Parent.children,
        )

    def aliased_limit(w, root):
        pa = aliased(w.Parent)
        return root(pa).order_by(pa.id.desc()).limit(2), pa.children

    def multi(w, root):
        return root(w.Parent, w.Child).join(w.Parent.children).order_by(w.Parent.id, w.Child.id), w.Parent.children

    def ent_col(w, root):
        return (
            root(w.Parent, w.Child.v).join(w.Parent.children, isouter=True).order_by(w.Parent.id.desc(), w.Child.id).limit(3),
            w.Parent.children,
        )

    return dict(
        all=(all_, "o"), limit2=(limit2, "o"), all_unordered=(all_unordered, ""), desc=(desc, "o"), filt=(filt, "o"),
        join=(join, "od"), join_distinct=(join_distinct, "o"), any=(any_, "o"), off1lim2=(off1lim2, "o"),
        join_limit=(join_limit, "od"), aliased_limit=(aliased_limit, "o"), multi=(multi, "od"), ent_col=(ent_col, "od"),
    )


def _q_u1b():
    def all_(w, root):
        return root(w.Child).order_by(w.Child.id), w.Child.parent

    def all_unordered(w, root):
        return root(w.Child), w.Child.parent

    def desc(w, root):
        return root(w.Child).order_by(w.Child.name.desc(), w.Child.id.desc()), w.Child.parent

    def filt(w, root):
        return root(w.Child).where(w.Child.v >= 1).order_by(w.Child.id), w.Child.parent

    def join(w, root):
        return root(w.Child).join(w.Child.parent).where(w.Parent.x == 1).order_by(w.Child.id.desc()), w.Child.parent

    def has(w, root):
        return root(w.Child).where(w.Child.parent.has(w.Parent.name == "b")).order_by(w.Child.id), w.Child.parent

    def limit2(w, root):
        return root(w.Child).order_by(w.Child.v.desc(), w.Child.id.desc()).limit(2), w.Child.parent

    def off1lim2(w, root):
        return root(w.Child).order_by(w.Child.id).offset(1).limit(2), w.Child.parent

    return dict(all=(all_, "o"), limit2=(limit2, "o"), all_unordered=(all_unordered, ""), desc=(desc, "o"), filt=(filt, "o"),
                join=(join, "o"), has=(has, "o"), off1lim2=(off1lim2, "o"))


def _q_u1c():
    def all_(w, root):
        return root(w.Grandchild).order_by(w.Grandchild.id), w.Grandchild.child

    def limit2(w, root):
        return root(w.Grandchild).order_by(w.Grandchild.v.desc(), w.Grandchild.id.desc()).limit(2), w.Grandchild.child

    def filt(w, root):
        return root(w.Grandchild).where(w.Grandchild.name == "z").order_by(w.Grandchild.id.desc()), w.Grandchild.child

    return dict(all=(all_, "o"), limit2=(limit2, "o"), filt=(filt, "o"))


def _q_u2a():
    def all_(w, root):
        return root(w.Item).order_by(w.Item.id), w.Item.tags

    def all_unordered(w, root):
        return root(w.Item), w.Item.tags

    def desc(w, root):
        return root(w.Item).order_by(w.Item.name.desc(), w.Item.id.desc()), w.Item.tags

    def join(w, root):
        return root(w.Item).join(w.Item.tags).where(w.Tag.name == "k").order_by(w.Item.id, w.Tag.id), w.Item.tags

    def join_distinct(w, root):
        return root(w.Item).join(w.Item.tags).distinct().order_by(w.Item.id.desc()), w.Item.tags

    def any_(w, root):
        return root(w.Item).where(w.Item.tags.any(w.Tag.v == 1)).order_by(w.Item.id), w.Item.tags

    def limit2(w, root):
        return root(w.Item).order_by(w.Item.name.desc(), w.Item.id.desc()).limit(2), w.Item.tags

    def off1lim2(w, root):
        return root(w.Item).order_by(w.Item.id.desc()).offset(1).limit(2), w.Item.tags

    return dict(all=(all_, "o"), limit2=(limit2, "o"), all_unordered=(all_unordered, ""), desc=(desc, "o"), join=(join, "od"),
                join_distinct=(join_distinct, "o"), any=(any_, "o"), off1lim2=(off1lim2, "o"))


def _q_u3(first):
    def all_(w, root):
        return root(w.Node).order_by(w.Node.id), getattr(w.Node, first)

    def desc(w, root):
        return root(w.Node).order_by(w.Node.v.desc(), w.Node.id.desc()), getattr(w.Node, first)

    def roots(w, root):
        return root(w.Node).where(w.Node.parent_id.is_(None)).order_by(w.Node.id.desc()), getattr(w.Node, first)

    def join(w, root):
        na = aliased(w.Node)
        return (
            root(w.Node).join(w.Node.children.of_type(na)).where(na.v >= 1).order_by(w.Node.id, na.id),
            getattr(w.Node, first),
        )

    def limit2(w, root):
        return root(w.Node).order_by(w.Node.v.desc(), w.Node.id.desc()).limit(2), getattr(w.Node, first)

    def off1lim2(w, root):
        return root(w.Node).order_by(w.Node.id.desc()).offset(1).limit(2), getattr(w.Node, first)

    def all_unordered(w, root):
        return root(w.Node), getattr(w.Node, first)

    return dict(all=(all_, "o"), limit2=(limit2, "o"), desc=(desc, "o"), roots=(roots, "o"), join=(join, "od"),
                off1lim2=(off1lim2, "o"), all_unordered=(all_unordered, ""))


def _q_u4a():
    # a sub-class relationship can only be chained from Company.employees through of_type(); of_type(Engineer)
    # would restrict WHAT is loaded (by design), so the path goes through with_polymorphic(Person, "*")
    def _wp(w):
        wp = with_polymorphic(w.Person, "*", flat=True)
        return w.Company.employees.of_type(wp), wp.Engineer.machines

    def all_(w, root):
        return (root(w.Company).order_by(w.Company.id),) + _wp(w)

    def desc_limit(w, root):
        return (root(w.Company).order_by(w.Company.name.desc(), w.Company.id.desc()).limit(1),) + _wp(w)

    def join(w, root):
        return (
            root(w.Company).join(w.Company.employees).where(w.Person.v >= 1).order_by(w.Company.id, w.Person.id),
        ) + _wp(w)

    def join_eng(w, root):
        return (
            root(w.Company).join(w.Company.employees.of_type(w.Engineer)).where(w.Engineer.lang == "py").distinct()
            .order_by(w.Company.id.desc()),
        ) + _wp(w)

    def any_(w, root):
        return (root(w.Company).where(w.Company.employees.any(w.Person.type == "engineer")).order_by(w.Company.id),) + _wp(w)

    def off1(w, root):
        return (root(w.Company).order_by(w.Company.id.desc()).offset(1).limit(2),) + _wp(w)

    return dict(all=(all_, "o"), desc_limit=(desc_limit, "o"), join=(join, "od"), join_eng=(join_eng, "o"), any=(any_, "o"),
                off1=(off1, "o"))


def _q_u4b():
    def all_(w, root):
        return root(w.Person).order_by(w.Person.id), w.Person.company

    def limit2(w, root):
        return root(w.Person).order_by(w.Person.v.desc(), w.Person.id.desc()).limit(2), w.Person.company

    def filt(w, root):
        return root(w.Person).where(w.Person.type != "person").order_by(w.Person.id.desc()), w.Person.company

    def wp_all(w, root):
        wp = with_polymorphic(w.Person, "*")
        return root(wp).order_by(wp.id), wp.company

    def wp_limit(w, root):
        wp = with_polymorphic(w.Person, [w.Engineer, w.Manager])
        return root(wp).order_by(wp.id.desc()).limit(2), wp.company

    def eng(w, root):
        return root(w.Engineer).order_by(w.Engineer.id), w.Engineer.company

    def mgr_limit(w, root):
        return root(w.Manager).order_by(w.Manager.id.desc()).limit(1), w.Manager.company

    def boss(w, root):
        return root(w.Boss).order_by(w.Boss.id), w.Boss.company

    return dict(all=(all_, "o"), limit2=(limit2, "o"), filt=(filt, "o"), wp_all=(wp_all, "o"), wp_limit=(wp_limit, "o"),
                eng=(eng, "o"), mgr_limit=(mgr_limit, "o"), boss=(boss, "o"))


def _q_u4c():
    def all_(w, root):
        return root(w.Person).order_by(w.Person.id), w.Engineer.machines

    def limit2(w, root):
        return root(w.Person).order_by(w.Person.id.desc()).limit(2), w.Engineer.machines

    def wp_all(w, root):
        wp = with_polymorphic(w.Person, [w.Engineer])
        return root(wp).order_by(wp.id), wp.Engineer.machines

    def eng(w, root):
        return root(w.Engineer).order_by(w.Engineer.id.desc()), w.Engineer.machines

    def eng_limit(w, root):
        return root(w.Engineer).order_by(w.Engineer.v.desc(), w.Engineer.id.desc()).limit(1), w.Engineer.machines

    return dict(all=(all_, "os"), limit2=(limit2, "os"), wp_all=(wp_all, "os"), eng=(eng, "o"), eng_limit=(eng_limit, "o"))


# data sets carry a level: 0 = core (all deviations), 1 = middle, 2 = outer (assignment x query product only)


def _ds_u1(tier, small=False):
    out = []
    if tier == "quick":
        for k, d in qw.u1_datasets(2, 2 if small else 3, 3, "cover2"):
            np_, nc = k[1], len(k[2])
            if nc == 3 and k[3] != (3, 2, 1):
                continue  # three children: only the pattern in which every child has a grandchild
            out.append((k, d, 0 if nc <= 2 and not small else (0 if small and nc <= 1 else 2)))
        return out
    for k, d in qw.u1_datasets(2 if small else 3, 3 if small else 4, 3, "cover"):
        np_, nc = k[1], len(k[2])
        lvl = 0 if (np_ <= 2 and nc <= 2) else (1 if (np_ <= 2 and nc <= 3) else 2)
        if lvl == 2 and k[3] != (tuple(range(nc, 0, -1)) if nc <= 3 else (nc, nc, None)):
            continue  # outer data sets: one grandchild pattern (every child has one / skewed for four children)
        out.append((k, d, lvl))
    return out


def _ds_u2(tier):
    out = []
    for k, d in (qw.u2_datasets(2, 2) if tier == "quick" else qw.u2_datasets(3, 2)):
        ni, nt = k[1], k[2]
        out.append((k, d, 0 if (ni <= 2 and nt <= 2) else 1))
    return out


def _ds_u3(tier, small=False):
    out = []
    if tier == "quick":
        for k, d in qw.u3_datasets(3 if small else 4):
            out.append((k, d, 0 if k[1] <= 3 else 2))
        return out
    for k, d in qw.u3_datasets(3, cycles=True):
        forest = all(fk is None or fk < i + 1 for i, fk in enumerate(k[2]))
        out.append((k, d, 0 if forest else 1))
    if not small:
        for k, d in qw.u3_datasets(4):
            if k[1] == 4:
                out.append((k, d, 1))
    return out


def _ds_u4(tier, small=False):
    out = []
    if tier == "quick":
        for k, d in qw.u4_datasets(2, 2, 1, "sorted"):
            nc, persons, ms = k[1], k[2], k[3]
            if len(persons) == 2 and nc == 1:
                continue  # contained (up to an empty second company) in the two-company assignments
            out.append((k, d, 0 if len(persons) <= 1 else 2))
        return out
    for k, d in qw.u4_datasets(2, 3 if not small else 2, 1, "sorted"):
        nc, persons, ms = k[1], k[2], k[3]
        if len(persons) == 3 and nc == 1:
            continue  # contained (up to an empty second company) in the two-company assignments
        lvl = 0 if (nc == 1 and len(persons) <= 2) else (1 if len(persons) <= 2 else 2)
        out.append((k, d, lvl))
    return out


SCENARIOS = {}


def _scen(name, U, path, build, queries, datasets, dev_queries):
    SCENARIOS[name] = Scenario(name, U, path, build, queries, datasets, dev_queries)


_scen("U1a", "U1", (("Parent", "children"), ("Child", "grandchildren")), _b_u1a, _q_u1a(), _ds_u1, ("all", "limit2"))
_scen("U1b", "U1", (("Child", "parent"), ("Parent", "children")), _b_u1b, _q_u1b(), _ds_u1, ("all", "limit2"))
_scen("U1c", "U1", (("Grandchild", "child"), ("Child", "parent")), _b_u1c, _q_u1c(), lambda t: _ds_u1(t, True), ("limit2",))
_scen("U2a", "U2", (("Item", "tags"), ("Tag", "items")), _b_u2a, _q_u2a(), _ds_u2, ("all", "limit2"))
_scen("U3a", "U3", (("Node", "children"), ("Node", "children")), _b_u3a, _q_u3("children"), _ds_u3, ("all", "limit2"))
_scen("U3b", "U3", (("Node", "parent"), ("Node", "children")), _b_u3b, _q_u3("parent"), lambda t: _ds_u3(t, True), ("limit2",))
_scen("U4a", "U4", (("Company", "employees"), ("Engineer", "machines")), _b_u4a, _q_u4a(), _ds_u4, ("all", "desc_limit"))
_scen("U4b", "U4", (("Person", "company"), ("Company", "employees")), _b_u4b, _q_u4b(), lambda t: _ds_u4(t, True), ("all", "wp_limit"))
_scen("U4c", "U4", (("Engineer", "machines"), ("Machine", "owner")), _b_u4c, _q_u4c(), lambda t: _ds_u4(t, True), ("all", "eng_limit"))


# ------------------------------------------------------------------ configurations
#
# cfg = (s1, s2, dev) ; dev = tuple of deviation items, each a tuple:
#   ("col", pos, kind)   kind in defer|load_only|undefer|expr
#   ("yield", n)
#   ("pre", "loaded")    session already holds the primary entities, first one's path loaded
#   ("popex",)           populate_existing
#   ("route",)           mapper-level lazy= configuration instead of options
#   ("legacy",)          legacy Query API
#   ("raiseall",)        raiseload('*') appended (only with both positions eager)
#   ("nounique",)        do not call unique() although a joined collection is loaded -> must raise

COLKINDS = ("defer", "load_only", "undefer", "expr")


def deviations1():
    out = []
    for pos in (0, 1):
        for k in COLKINDS:
            out.append((("col", pos, k),))
    out += [(("yield", 1),), (("yield", 2),), (("pre", "loaded"),), (("pre", "loaded"), ("popex",)), (("popex",),),
            (("route",),), (("legacy",),), (("raiseall",),), (("nounique",),)]
    return out


def deviations2():
    """pairs of independent deviations (thorough)"""
    singles = [d for d in deviations1() if d[0][0] not in ("nounique", "raiseall")]
    out = []
    for a, b in itertools.combinations(singles, 2):
        kinds = [x[0] for x in a + b]
        if len(set(kinds)) != len(kinds):
            continue  # same dimension twice (col+col allowed only at different positions, below)
        out.append(a + b)
    for ka in COLKINDS:
        for kb in COLKINDS:
            out.append((("col", 0, ka), ("col", 1, kb)))
    return out


def assignments(extra=True):
    base = [(a, b) for a in STRATS for b in STRATS]
    if not extra:
        return base
    ex = []
    for e in EXTRA_STRATS:
        if e != "raise":
            for b in ("lazy", "joined", "selectin", "subquery"):
                ex.append((e, b))
        for a in ("lazy", "joined", "selectin", "subquery", "immediate"):
            ex.append((a, e))
    return base + ex


def is_collection(world, scen, pos):
    cls, rel = scen.path[pos]
    return inspect(world.classes[cls]).relationships[rel].uselist


def dev_has(dev, name):
    for d in dev:
        if d[0] == name:
            return d
    return None


def needs_unique(world, scen, cfg):
    """joined eager chain from the root reaches a collection -> documented: unique() required"""
    s1, s2, dev = cfg
    if s1 in JOINED:
        if is_collection(world, scen, 0):
            return True
        if s2 in JOINED and is_collection(world, scen, 1):
            return True
    if scen.name == "U3b" and dev_has(dev, "route") and s2 in JOINED:
        return True  # mapper-level lazy="joined" on Node.children applies to the primary Node entity itself
    return False


def yield_expect(world, scen, cfg):
    """'raise' | 'ok' | 'either' for yield_per with this assignment"""
    s1, s2, dev = cfg
    if needs_unique(world, scen, cfg):
        return "raise"
    if s1 == "subquery":
        return "raise"
    if s1 in JOINED and s2 == "subquery":
        return "raise"
    if scen.name == "U3b" and dev_has(dev, "route"):
        return "raise" if s2 == "subquery" else "either"
    if s1 in ("lazy", "default", "raise"):
        return "ok"
    # nested below selectin / immediate
    if s2 == "subquery" or (s2 in JOINED and is_collection(world, scen, 1)):
        return "either"
    return "ok"


def applicable(scen, cfg, data, qname, flags):
    s1, s2, dev = cfg
    w = scen.world()
    if s1 == "joined_inner" and not innerjoin_ok(scen.U, scen.path[0][1], data):
        return False
    if s2 == "joined_inner" and not innerjoin_ok(scen.U, scen.path[1][1], data):
        return False
    if s1 == "joined_unnested" and not innerjoin_ok(scen.U, scen.path[0][1], data):
        return False
    if s2 == "joined_unnested" and not innerjoin_ok(scen.U, scen.path[1][1], data):
        return False
    return True


def cfg_valid(scen, cfg):
    """static validity of a configuration for a scenario"""
    s1, s2, dev = cfg
    if s1 == "raise":
        return False
    if scen.U == "U3":
        # the same rows are reached at several path depths: options that attach per-path state to an
        # instance (raiseload, with_expression) have no path-independent meaning there
        if s2 == "raise" or dev_has(dev, "raiseall") or any(d[0] == "col" and d[2] == "expr" for d in dev):
            return False
    if dev_has(dev, "route"):
        if s1 not in STRATS or s2 not in STRATS:
            return False
        if scen.name == "U1c":
            return False
        if scen.name == "U3a" and s1 != s2:
            return False  # one relationship, one mapper-level setting
        if scen.name == "U4c" and s2 != "lazy":
            return False
        if scen.U in ("U2",) and "joined_inner" in (s1, s2):
            return False
        if scen.U in ("U3", "U4") and "joined_inner" in (s1, s2):
            return False  # build_* has no innerjoin switch there
        if dev_has(dev, "legacy") or dev_has(dev, "raiseall") or dev_has(dev, "nounique"):
            return False
    if dev_has(dev, "raiseall"):
        if s1 in ("lazy", "default", "raise") or s2 in ("lazy", "default", "raise"):
            return False
        if len(dev) > 1:
            return False
    nu = dev_has(dev, "nounique")
    if nu:
        if len(dev) > 1:
            return False
        if not needs_unique(scen.world(), scen, cfg):
            return False
    c = [d for d in dev if d[0] == "col"]
    for d in c:
        if d[2] == "expr" and dev_has(dev, "pre") and not dev_has(dev, "popex"):
            return False  # documented: with_expression does not apply to already loaded objects
        if d[1] == 1 and s1 == "raise":
            return False
    if dev_has(dev, "yield") and dev_has(dev, "legacy") and False:
        return False
    return True


# ------------------------------------------------------------------ building statements


def _apply(load_or_none, strat, attr):
    """returns a Load: either unbound strat(attr) or load.strat(attr)"""
    kw = {}
    if strat == "lazy":
        name = "lazyload"
    elif strat == "joined":
        name = "joinedload"
    elif strat == "joined_inner":
        name, kw = "joinedload", dict(innerjoin=True)
    elif strat == "joined_unnested":
        name, kw = "joinedload", dict(innerjoin="unnested")
    elif strat == "subquery":
        name = "subqueryload"
    elif strat == "selectin":
        name = "selectinload"
    elif strat == "selectin_c1":
        name, kw = "selectinload", dict(chunksize=1)
    elif strat == "immediate":
        name = "immediateload"
    elif strat == "default":
        name = "defaultload"
    elif strat == "raise":
        name = "raiseload"
    else:
        raise AssertionError(strat)
    if load_or_none is None:
        fn = dict(lazyload=lazyload, joinedload=joinedload, subqueryload=subqueryload, selectinload=selectinload,
                  immediateload=immediateload, defaultload=defaultload, raiseload=raiseload)[name]
        return fn(attr, **kw)
    return getattr(load_or_none, name)(attr, **kw)


def _colopt(kind, ent):
    """column option on entity class/alias ``ent`` (has name / v|x / notes / expr)"""
    num = getattr(ent, "x", None) if hasattr(ent, "x") else getattr(ent, "v")
    if kind == "defer":
        return defer(ent.name)
    if kind == "load_only":
        return load_only(num)
    if kind == "undefer":
        return undefer(ent.notes)
    if kind == "expr":
        return with_expression(ent.expr, num * 2 + 1)
    raise AssertionError(kind)


def col_supported(world, scen, pos, kind):
    cls = world.classes[scen.path[0][0]] if pos == 0 else inspect(world.classes[scen.path[0][0]]).relationships[scen.path[0][1]].mapper.class_
    if kind == "expr":
        return hasattr(cls, "expr")
    if kind == "undefer":
        return hasattr(cls, "notes")
    return hasattr(cls, "name") and (hasattr(cls, "x") or hasattr(cls, "v"))


def build_stmt(scen, world, qname, cfg, baseline=False):
    """returns (stmt_or_query, legacy?)"""
    s1, s2, dev = cfg
    qfn, flags = scen.queries[qname]
    legacy = bool(dev_has(dev, "legacy"))
    root = (lambda *e: Query(list(e))) if legacy else select
    built = qfn(world, root)
    stmt, attr1 = built[0], built[1]
    route = bool(dev_has(dev, "route"))
    attr2 = built[2] if len(built) > 2 else getattr(world.classes[scen.path[1][0]], scen.path[1][1])
    opts = []
    cols = [d for d in dev if d[0] == "col"]
    col0 = [d for d in cols if d[1] == 0]
    col1 = [d for d in cols if d[1] == 1]
    # primary entity for column options at position 0
    insp0 = attr1.parent
    ent0 = insp0.entity if insp0.is_aliased_class else insp0.class_
    for d in col0:
        opts.append(_colopt(d[2], ent0))
    # target entity of position 1
    tgt1 = attr1.property.mapper.class_
    if getattr(attr1, "_of_type", None) is not None:
        oi = inspect(attr1._of_type)
        tgt1 = oi.entity if oi.is_aliased_class else oi.class_
    if baseline or route:
        b1, b2 = ("lazy", "lazy") if baseline else (None, None)
        if col1 or (baseline and getattr(attr1, "_of_type", None) is not None):
            ld = defaultload(attr1)
            if col1:
                ld = ld.options(*[_colopt(d[2], tgt1) for d in col1])
            opts.append(ld)
    else:
        ld = _apply(None, s1, attr1)
        if col1:
            sub = [_apply(None, s2, attr2)] + [_colopt(d[2], tgt1) for d in col1]
            ld = ld.options(*sub)
        else:
            ld = _apply(ld, s2, attr2)
        opts.append(ld)
        if dev_has(dev, "raiseall"):
            opts.append(raiseload("*"))
    if opts:
        stmt = stmt.options(*opts)
    eo = {}
    y = dev_has(dev, "yield")
    if y:
        eo["yield_per"] = y[1]
    if dev_has(dev, "popex"):
        eo["populate_existing"] = True
    if eo:
        stmt = stmt.execution_options(**eo)
    return stmt, legacy


# ------------------------------------------------------------------ snapshot

E = collections.namedtuple("E", "cls pk cols rels")  # entity: rels = ((relname, tuple-of-E | E | None | "n/a"),)
S = collections.namedtuple("S", "v")  # plain column value in a multi-element row


class Snap:
    """collects the graph snapshot of one result; also checks that one
    (class, pk) is represented by one object (identity map invariant)"""

    def __init__(self, scen, world, deep, max_depth=2):
        self.scen, self.world, self.deep, self.max_depth = scen, world, deep, max_depth
        self.ident = {}
        self.problems = []
        self.eager_hits = 0  # related values found already loaded (by an eager loader) and non-empty
        self._colkeys = {}

    def colkeys(self, mapper):
        k = self._colkeys.get(mapper)
        if k is None:
            k = sorted(a.key for a in mapper.column_attrs if self.deep or a.key != "notes")
            self._colkeys[mapper] = k
        return k

    def entity(self, obj, depth):
        st = inspect(obj)
        mapper = st.mapper
        pk = st.identity[0] if st.identity is not None else None
        k = (mapper.base_mapper.class_.__name__, pk)
        other = self.ident.setdefault(k, obj)
        if other is not obj:
            self.problems.append("two objects for identity %r" % (k,))
        cols = tuple((key, getattr(obj, key)) for key in self.colkeys(mapper))
        rels = ()
        if depth < self.max_depth:
            cls, rel = self.scen.path[depth]
            if rel in mapper.relationships:
                prop = mapper.relationships[rel]
                loaded = rel in st.dict
                val = getattr(obj, rel)
                if prop.uselist:
                    if loaded and len(val):
                        self.eager_hits += 1
                    items = [self.entity(o, depth + 1) for o in val]
                    if not prop.order_by:
                        items.sort(key=lambda e: (e.pk is None, e.pk))
                    rels = ((rel, tuple(items)),)
                else:
                    if loaded and val is not None:
                        self.eager_hits += 1
                    rels = ((rel, None if val is None else self.entity(val, depth + 1)),)
            else:
                rels = ((rel, "n/a"),)
        return E(type(obj).__name__, pk, cols, rels)

    def row(self, row, single):
        if single:
            return self.entity(row, 0)
        out = []
        for v in row:
            if v is not None and hasattr(v, "_sa_instance_state"):
                out.append(self.entity(v, 0))
            else:
                out.append(S(v))
        return tuple(out)


def _row_entities(r):
    if isinstance(r, E):
        return [r]
    return [x for x in r if isinstance(x, E)]


def depth1(snap_rows):
    """prune a snapshot to path depth 1 (used for raiseload at position 2)"""

    def ent(e, d):
        if not isinstance(e, E):
            return e
        if d >= 1:
            return E(e.cls, e.pk, e.cols, ())
        nr = []
        for rel, val in e.rels:
            if isinstance(val, E):
                nr.append((rel, ent(val, d + 1)))
            elif isinstance(val, tuple):
                nr.append((rel, tuple(ent(x, d + 1) for x in val)))
            else:
                nr.append((rel, val))
        return E(e.cls, e.pk, e.cols, tuple(nr))

    return [ent(r, 0) if isinstance(r, E) else tuple(ent(x, 0) for x in r) for r in snap_rows]


# ------------------------------------------------------------------ execution

_ENG = {}
_STMT_CACHE = {}


def engine_for(U, world):
    key = (os.getpid(), U)
    e = _ENG.get(key)
    if e is None:
        e = create_engine("sqlite://", poolclass=StaticPool, query_cache_size=4000)
        world.metadata.create_all(e)
        _ENG[key] = e
    return e


def run_query(scen, qname, cfg, eng, baseline=False, max_depth=2):
    """execute one configuration; returns ('ok', rows_snapshot, eager_hits, problems) or ('err', excname, msg)"""
    s1, s2, dev = cfg
    route = None
    if dev_has(dev, "route") and not baseline:
        route = (s1, s2)
    world = scen.world(route)
    ck = (scen.name, qname, cfg, baseline)
    built = _STMT_CACHE.get(ck)
    if built is None:
        built = build_stmt(scen, world, qname, cfg, baseline)
        _STMT_CACHE[ck] = built
    stmt, legacy = built
    qfn, flags = scen.queries[qname]
    deep = any(d[0] == "col" and d[2] == "undefer" for d in dev)
    unique = needs_unique(world, scen, cfg) and not dev_has(dev, "nounique") and not baseline
    if dev_has(dev, "unique"):
        unique = True
    sess = Session(eng)
    try:
        if dev_has(dev, "pre"):
            pcls = world.classes[scen.path[0][0]]
            pre = sess.execute(select(pcls).order_by(inspect(pcls).primary_key[0])).scalars().all()
            if pre:
                r1 = scen.path[0][1]
                v = getattr(pre[0], r1, None)
                if isinstance(v, list) and v:
                    getattr(v[0], scen.path[1][1], None)
        try:
            if legacy:
                q = stmt.with_session(sess)
                rows = q.all()
                single = len(q.column_descriptions) == 1
            else:
                res = sess.execute(stmt)
                if unique:
                    res = res.unique()
                single = len(stmt.column_descriptions) == 1
                if single:
                    rows = res.scalars().all()
                else:
                    rows = res.all()
        except Exception as e:  # the implementation call: any exception is an outcome, judged by the oracle
            return ("err", type(e).__name__, str(e)[:300])
        sn = Snap(scen, world, deep, 1 if s2 == "raise" else 2)
        try:
            out = [sn.row(r, single) for r in rows]
        except Exception as e:
            # attribute access on the loaded objects failed (e.g. raiseload triggered, failing lazy load)
            return ("err", type(e).__name__, "while reading the loaded graph: " + str(e)[:300])
        if "o" not in flags:
            out.sort(key=repr)
        return ("ok", out, sn.eager_hits, sn.problems)
    finally:
        sess.close()


def baseline_cfg(cfg):
    """the all-lazy configuration a cfg is compared with: same API, same
    with_expression/undefer-independent content, no strategy, no yield/pre/popex"""
    s1, s2, dev = cfg
    keep = []
    for d in dev:
        if d[0] == "col" and d[2] in ("expr", "undefer"):
            keep.append(d)  # expr: changes what is asked for; undefer: baseline snapshot taken in deep mode
        elif d[0] == "legacy":
            keep.append(d)
    if needs_unique_static(cfg) and not dev_has(dev, "legacy"):
        keep.append(("unique",))
    return ("lazy", "lazy", tuple(keep))


_NU = {}


def needs_unique_static(cfg):
    return _NU.get(cfg, False)


def _ids(v):
    if isinstance(v, E):
        return "%s(%r)" % (v.cls, v.pk)
    if isinstance(v, S):
        return repr(v.v)
    if isinstance(v, (tuple, list)):
        return "[" + ", ".join(_ids(x) for x in v) + "]"
    return repr(v)


def first_diff(a, b, path="result"):
    """(kind, human-readable location) of the first difference between a snapshot and the baseline's"""
    if isinstance(a, E) and isinstance(b, E):
        if (a.cls, a.pk) != (b.cls, b.pk):
            return "entity", "%s: %s vs baseline %s" % (path, _ids(a), _ids(b))
        p = "%s/%s" % (path, _ids(a))
        if a.cols != b.cols:
            da, db = dict(a.cols), dict(b.cols)
            for k in sorted(set(da) | set(db)):
                if da.get(k, "<absent>") != db.get(k, "<absent>"):
                    return "attribute:%s" % k, "%s.%s: %r vs baseline %r" % (p, k, da.get(k, "<absent>"), db.get(k, "<absent>"))
        for (rel, va), (_, vb) in zip(a.rels, b.rels):
            if va != vb:
                if _ids(va) != _ids(vb):
                    return "related:%s" % rel, "%s.%s: %s vs baseline %s" % (p, rel, _ids(va), _ids(vb))
                return first_diff(va, vb, "%s.%s" % (p, rel))
        return "graph", "%s differs" % p
    if isinstance(a, (list, tuple)) and isinstance(b, (list, tuple)) and not isinstance(a, S) and not isinstance(b, S):
        if _ids(a) != _ids(b):
            return ("primary-rows" if path == "result" else "related"), "%s: %s vs baseline %s" % (path, _ids(a), _ids(b))
        for i, (x, y) in enumerate(zip(a, b)):
            if x != y:
                return first_diff(x, y, "%s[%d]" % (path, i))
    return ("primary-rows" if path.startswith("result[") and "/" not in path else "graph"), "%s: %s vs baseline %s" % (path, _ids(a), _ids(b))


def check_truth(scen, snap_rows, data):
    """baseline collections vs the generated rows (ids in relationship order)"""

    def ent(e):
        for rel, val in e.rels:
            if val == "n/a":
                continue
            exp = rel_truth(scen.U, rel, data, e.pk)
            if isinstance(exp, list):
                got = [x.pk for x in val]
                if got != exp:
                    return "%s(%r).%s = %r, rows say %r" % (e.cls, e.pk, rel, got, exp)
                for x in val:
                    p = ent(x)
                    if p:
                        return p
            else:
                got = None if val is None else val.pk
                if got != exp:
                    return "%s(%r).%s = %r, rows say %r" % (e.cls, e.pk, rel, got, exp)
                if val is not None:
                    p = ent(val)
                    if p:
                        return p
        return None

    for r in snap_rows:
        for e in _row_entities(r):
            p = ent(e)
            if p:
                return p
    return None


def has_related(snap_rows, pos):
    """baseline graph has a non-empty related value at path position pos"""

    def ent(e, d):
        for rel, val in e.rels:
            if val is None or val == "n/a" or val == ():
                continue
            if d == pos:
                return True
            vals = [val] if isinstance(val, E) else val
            if any(ent(x, d + 1) for x in vals):
                return True
        return False

    return any(ent(e, 0) for r in snap_rows for e in _row_entities(r))


def cfg_str(cfg):
    s1, s2, dev = cfg
    return "(%s,%s)%s" % (s1, s2, "" if not dev else "+" + "+".join("/".join(str(x) for x in d) for d in dev))


def evaluate(scen, qname, cfg, data, eng, base_cache):
    """returns (problems [(kind, msg)], nontrivial, outcome)"""
    s1, s2, dev = cfg
    world = scen.world()
    _NU[cfg] = needs_unique(world, scen, cfg)
    bc = baseline_cfg(cfg)
    base = base_cache.get(bc)
    problems = []
    if base is None:
        base = run_query(scen, qname, bc, eng, baseline=True)
        base_cache[bc] = base
        if base[0] != "ok":
            return [("baseline-error", "all-lazy baseline raised %s: %s" % (base[1], base[2]))], False, "base-err"
        t = check_truth(scen, base[1], data)
        if t:
            problems.append(("baseline-vs-rows", "all-lazy load disagrees with the generated rows: " + t))
        for p in base[3]:
            problems.append(("identity", "baseline: " + p))
    if base[0] != "ok":
        return [], False, "base-err"
    got = run_query(scen, qname, cfg, eng)
    eager = [s not in ("lazy", "default", "raise") for s in (s1, s2)]
    nontrivial = any(eager[i] and has_related(base[1], i) for i in (0, 1)) or (dev_has(dev, "route") is not None and has_related(base[1], 0))
    y = dev_has(dev, "yield")
    expect_raise = None
    # "must" only when rows are produced and the eager loader certainly takes part in the primary statement
    # (a sub-class relationship named from a base-class query, flag "s", may or may not)
    certain = bool(base[1]) and "s" not in scen.queries[qname][1]
    if dev_has(dev, "nounique"):
        # documented: joined eager load of a collection requires unique()
        expect_raise = "must" if certain else "either"
    elif y:
        ye = yield_expect(world, scen, cfg)
        if ye == "raise":
            expect_raise = "must" if certain else "either"
        elif ye == "either":
            expect_raise = "either"
    if got[0] == "err":
        if expect_raise and got[1] == "InvalidRequestError" and ("yield_per" in got[2] or "unique()" in got[2]):
            return problems, nontrivial, "raised-documented"
        if got[1] == "AssertionError" and "_only_load_props" in got[2]:
            # one root cause, many minimal configurations: named by cause, not by configuration
            problems.append((K_QEXPR, "%s: %s" % (got[1], got[2])))
        else:
            problems.append(("raised " + got[1], "%s: %s" % (got[1], got[2])))
        return problems, nontrivial, "raised"
    if expect_raise == "must":
        problems.append(("no-raise", "documented incompatibility (%s) did not raise InvalidRequestError" % ("yield_per" if y else "unique() not called")))
    exp_rows = base[1]
    got_rows = got[1]
    if s2 == "raise":
        exp_rows = depth1(exp_rows)
    if got_rows != exp_rows:
        problems.append(first_diff(got_rows, exp_rows))
    for p in got[3]:
        problems.append(("identity", p))
    return problems, nontrivial, ("ok", repr(got_rows))


# ------------------------------------------------------------------ minimal signatures


def _dir(scen, pos):
    cls, rel = scen.path[pos]
    w = scen.world()
    prop = inspect(w.classes[cls]).relationships[rel]
    d = {"ONETOMANY": "o2m", "MANYTOONE": "m2o", "MANYTOMANY": "m2m"}[prop.direction.name]
    return d


def struct_sig(scen, qname, cfg, kind):
    s1, s2, dev = cfg
    parts = []
    for i, s_ in enumerate((s1, s2)):
        parts.append("-" if s_ == "lazy" else "%s:%s" % (s_, _dir(scen, i)))
    d = "".join("+" + "/".join(str(x) for x in it) for it in dev)
    return "%s q=%s (%s)%s" % (kind, qname, ",".join(parts), d)


_MINI = {}
K_QEXPR = ("unreadable query_expression attribute: instance loaded under load_only() and loaded again by the same "
           "statement through another path raises AssertionError('no columns were included in _only_load_props') on access")


def minimize(scen, tier, qname, cfg, data, eng, kind):
    """greedy reduction of a failing configuration: strategies -> plain joined -> lazy, deviations dropped,
    query -> the scenario's simplest; a step is kept if a problem of the same kind still shows on this data set
    or on one of the scenario's first 40 data sets.  returns (qname, cfg, data, dkey-or-None)"""
    key = (scen.name, qname, cfg, kind)
    if key in _MINI:
        return _MINI[key]
    world = scen.world()
    # canonical pool first (result independent of where the failure was first seen), the triggering data set last
    pool = [(k, d) for k, d, _ in scen.datasets(tier)[:40]] + [(None, data)]

    def fails(q, c):
        if not cfg_valid(scen, c):
            return None
        for k, d in pool:
            if not applicable(scen, c, d, q, ""):
                continue
            with eng.begin() as conn:
                qw.load(conn, world, d)
            try:
                probs, _, _ = evaluate(scen, q, c, d, eng, {})
            except Exception:
                continue
            if any(k2 == kind for k2, _ in probs):
                return (k, d)
        return None

    cur_q, cur, cur_d = qname, cfg, (None, data)
    changed = True
    while changed:
        changed = False
        s1, s2, dev = cur
        cands = []
        if s2 != "lazy":
            cands.append((s1, "lazy", dev))
        if s1 != "lazy":
            cands.append(("lazy", s2, dev))
        if s2 in ("joined_inner", "joined_unnested"):
            cands.append((s1, "joined", dev))
        if s1 in ("joined_inner", "joined_unnested"):
            cands.append(("joined", s2, dev))
        if s2 == "selectin_c1":
            cands.append((s1, "selectin", dev))
        if s1 == "selectin_c1":
            cands.append(("selectin", s2, dev))
        for i in range(len(dev)):
            cands.append((s1, s2, dev[:i] + dev[i + 1:]))
        for c in cands:
            f = fails(cur_q, c)
            if f:
                cur, cur_d, changed = c, f, True
                break
    for q in scen.queries:
        if q == cur_q:
            break
        f = fails(q, cur)
        if f:
            cur_q, cur_d = q, f
            break
    with eng.begin() as conn:
        qw.load(conn, world, data)
    _MINI[key] = (cur_q, cur, cur_d[1], cur_d[0])
    return _MINI[key]


# ------------------------------------------------------------------ driver


def configs_for(scen, qname, tier, level):
    """ordered simplest-first: the 36 base assignments, extras, single deviations, pairs.
    What a data set of a given level receives depends on the tier (see META bounds)."""
    key = (scen.name, qname, tier, level)
    if key in _CFGS:
        return _CFGS[key]
    out = [(a[0], a[1], ()) for a in assignments(extra=False)]
    devq = scen.dev_queries
    if tier == "quick":
        want_extra = want_d1 = level == 0 and qname == devq[0]
        want_d2 = False
    else:
        # thorough: the same configuration space as quick (validated silent), on the larger data bounds: core and
        # middle data sets get extras + single deviations on the scenario's deviation query, outer ones the
        # 36 assignments x all queries.  (Pairs of deviations were tried and dropped: they mostly combine
        # documented incompatibilities -- legacy Query + yield_per, raiseload('*') on multi-entity rows -- that
        # the oracle does not model.)
        want_extra = want_d1 = level <= 1 and qname == devq[0]
        want_d2 = False
    if want_extra:
        out += [(a[0], a[1], ()) for a in assignments(extra=True)[36:]]
    if want_d1:
        for d in deviations1():
            for a in assignments(extra=False):
                out.append((a[0], a[1], d))
    if want_d2:
        for d in deviations2():
            for a in assignments(extra=False):
                out.append((a[0], a[1], d))
    res = []
    w = scen.world()
    for c in out:
        if not cfg_valid(scen, c):
            continue
        if all(col_supported(w, scen, d[1], d[2]) for d in c[2] if d[0] == "col"):
            res.append(c)
    _CFGS[key] = res
    return res


_CFGS = {}
TARGET = dict(quick=5000, thorough=25000)  # evaluations per shard (balance over 16 processes)


def shards(tier, seed):
    out = []
    for sname, scen in SCENARIOS.items():
        ds = scen.datasets(tier)
        for qname in scen.queries:
            load = sum(len(configs_for(scen, qname, tier, lvl)) for _, _, lvl in ds)
            parts = max(1, -(-load // TARGET[tier]))
            for p in range(parts):
                out.append([sname, qname, p, parts])
    out.append(["BIG", "chunk", 0, 1])
    return out


def run_shard(shard, tier, rec):
    sname, qname, part, parts = shard
    if sname == "BIG":
        return run_big(tier, rec)
    scen = SCENARIOS[sname]
    eng = engine_for(scen.U, scen.world())
    flags = scen.queries[qname][1]
    world = scen.world()
    maxds = int(os.environ.get("VF_C40_MAXDS", "0"))
    for di, (dkey, data, level) in enumerate(scen.datasets(tier)):
        if maxds and di >= maxds:
            rec.cap("VF_C40_MAXDS debug cap")
            break
        cfgs = [c for i, c in enumerate(configs_for(scen, qname, tier, level)) if i % parts == part]
        if not cfgs:
            continue
        with eng.begin() as conn:
            qw.load(conn, world, data)
        base_cache = {}
        for cfg in cfgs:
            if not applicable(scen, cfg, data, qname, flags):
                rec.count("skipped_innerjoin_precondition")
                continue
            problems, nontrivial, outcome = evaluate(scen, qname, cfg, data, eng, base_cache)
            rec.case((sname, qname, cfg, dkey), nontrivial=nontrivial)
            rec.outcome((sname, qname, outcome))
            if outcome == "raised-documented":
                rec.count("documented_incompatibility_raised")
            if cfg[2]:
                rec.count("dev:" + "+".join(d[0] for d in cfg[2]))
            if nontrivial and outcome[0] == "ok" and (di * 31 + rec.evaluations) % 197 == 3:
                rec.sample(dict(scenario=sname, query=qname, config=cfg_str(cfg), data=repr(dkey), graph=outcome[1][:400]))
            for kind, msg in problems:
                report(rec, scen, tier, qname, cfg, data, dkey, eng, kind, msg)


def report(rec, scen, tier, qname, cfg, data, dkey, eng, kind, msg):
    if kind == K_QEXPR:
        rec.violation(kind, "%s\nfirst seen: scenario %s query %s config %s data set %r" % (msg, scen.name, qname, cfg_str(cfg), dkey),
                      dict(scenario=scen.name, query=qname, cfg=_cfg_json(cfg), data=data, dkey=repr(dkey), kind=kind), kind=kind)
        return
    if kind.startswith("baseline"):
        mq, mc, md, mk = qname, ("lazy", "lazy", ()), data, dkey
    else:
        mq, mc, md, mk = minimize(scen, tier, qname, cfg, data, eng, kind)
        mk = dkey if mk is None else mk
    sig = struct_sig(scen, mq, mc, kind)
    detail = "%s\nminimal failing configuration: scenario %s query %s config %s on data set %r (first seen with query %s config %s on %r)" % (
        msg, scen.name, mq, cfg_str(mc), mk, qname, cfg_str(cfg), dkey)
    rec.violation(sig, detail, dict(scenario=scen.name, query=mq, cfg=_cfg_json(mc), data=md, dkey=repr(mk), kind=kind), kind=sig)


def _cfg_json(cfg):
    return [cfg[0], cfg[1], [list(d) for d in cfg[2]]]


def _cfg_from_json(j):
    return (j[0], j[1], tuple(tuple(d) for d in j[2]))


# one data set that crosses the real selectin chunk size (500)


def big_data():
    n = 501
    return dict(
        parent=[dict(id=i + 1, name="p%d" % (i % 7), x=i % 3, notes="n") for i in range(n)],
        child=[dict(id=i + 1, parent_id=(i * 7) % n + 1 if i % 11 else None, name="c", v=i % 5, notes="n") for i in range(2 * n)],
        grandchild=[dict(id=i + 1, child_id=(i * 13) % (2 * n) + 1, name="g", v=i % 4) for i in range(n)],
    )


def run_big(tier, rec):
    scen = SCENARIOS["U1a"]
    eng = engine_for(scen.U, scen.world())
    data = big_data()
    with eng.begin() as conn:
        qw.load(conn, scen.world(), data)
    strs = ("selectin", "subquery", "joined", "immediate") if tier == "thorough" else ("selectin", "subquery", "joined")
    for qname in ("all", "desc"):
        base_cache = {}
        for s1 in strs:
            for s2 in ("selectin", "lazy") if tier == "quick" else ("selectin", "lazy", "joined", "subquery"):
                for dev in ((), (("raiseall",),)):
                    cfg = (s1, s2, dev)
                    if dev and "lazy" in (s1, s2):
                        continue  # raiseload('*') only behind full eager loading: nothing may be left to a lazy load
                    problems, nontrivial, outcome = evaluate(scen, qname, cfg, data, eng, base_cache)
                    rec.case(("BIG", qname, cfg), nontrivial=nontrivial)
                    rec.count("big_dataset_runs")
                    for kind, msg in problems:
                        rec.violation("BIG(501 parents) q=%s %s: %s" % (qname, cfg_str(cfg), kind), msg,
                                      dict(scenario="BIG", query=qname, cfg=_cfg_json(cfg)), kind=("BIG", qname, kind, s1, s2, dev))
    with eng.begin() as conn:
        qw.load(conn, scen.world(), {})


def replay(case):
    if case["scenario"] == "BIG":
        scen = SCENARIOS["U1a"]
        data = big_data()
    else:
        scen = SCENARIOS[case["scenario"]]
        data = case["data"]
    cfg = _cfg_from_json(case["cfg"])
    world = scen.world()
    eng = create_engine("sqlite://", poolclass=StaticPool)
    world.metadata.create_all(eng)
    with eng.begin() as conn:
        qw.load(conn, world, data)
    problems, _, _ = evaluate(scen, case["query"], cfg, data, eng, {})
    eng.dispose()
    if case["scenario"] == "BIG":
        return [("BIG(501 parents) q=%s %s: %s" % (case["query"], cfg_str(cfg), k), m) for k, m in problems]
    return [(k if k == K_QEXPR else struct_sig(scen, case["query"], cfg, k), m) for k, m in problems]
