"""C29 the asyncio API matches the sync API and is safe under cancellation (engine A).

Two oracles, both quoting the property:

*equivalence* -- every program of the family (scope x pool pre-state x op
sequence, see ``vf.worlds.asyncworld``) is executed through the synchronous
API on ``sqlite3`` and through ``AsyncEngine`` / ``AsyncConnection`` /
``AsyncSession`` on the virtual loop with the fake aiosqlite-shaped driver
(``vf.engines.aloop``); per-step results, raised exception classes, the final
database and the result of a following program must be identical.  The fake
driver's conformance is established on the same programs by a third run on
the real, thread backed ``aiosqlite`` with a stock event loop.

*result accessor family* (part of the equivalence oracle) -- ``conn.stream`` / ``conn.stream_scalars`` /
``session.stream`` / ``session.stream_scalars`` against ``execute`` / ``scalars`` with ``stream_results`` through the
same program text: 20 filter chains (unique, mappings, scalars, scalars(1), columns(1), yield_per(1), tuples and their
pairs) x 17 terminal accessors (all, fetchall, first, one, one_or_none, scalar, scalar_one, scalar_one_or_none,
fetchone, fetchmany(1|2|None), partitions(2), iteration, two next() calls, keys, freeze) x Core / ORM columns / ORM
entity statements x result sizes 0, 1, 2 (distinct and duplicate), 3 (with a duplicate row); every (route, chain) group
is explored by one shard, simplest case first.  (ORM + unique() + sized fetch is left out: the ORM refuses it on a
server-side cursor, which pysqlite -- the synchronous side -- does not have.)

*cancellation / timeout* -- the program is run once to count the loop-step
boundaries at which the driving task is still pending (a superset of the await
points at which it is suspended: ~40 per 3-op program, 17 of them distinct
suspensions); for every boundary j it is re-run on a fresh loop / engine / database
with ``task.cancel()`` at j (thorough also: ``asyncio.wait_for`` whose
virtual-clock deadline passes at j; cancellation of either of two tasks that
share the ``AsyncAdaptedQueuePool(1, 0)``).  After the unwinding and loop
quiescence:

  - the task ended cancelled (timed out) and no program step started after the
    request (CancelledError is not swallowed),
  - ``pool.checkedout() == 0`` as soon as the task has unwound and the loop is
    quiescent (read *before* ``gc.collect()``: a slot that only the cyclic
    garbage collector gives back blocks later operations on a small pool);
    every connection record was checked in exactly once per checkout (pool
    events); no driver connection is open outside the pool,
  - no transaction is left open anywhere: an observer connection with
    ``timeout=0`` can ``BEGIN IMMEDIATE``, write and ``COMMIT``,
  - no partial commit: the rows an observer sees equal the committed rows of
    the synchronous run either just before or just after the step that was
    interrupted,
  - a following program (connect, insert, commit, select) succeeds on the same
    engine,
  - the loop's exception handler saw nothing ('Task exception was never
    retrieved', 'Task was destroyed but it is pending') after ``gc.collect()``
    and no SQLAlchemy warning (e.g. the garbage collector cleaning up a
    non-checked-in connection) was emitted.

DESIGN.md §6 C29 item ("one of the 17 cancellation points of the probe left a
write lock"): examined -- it is an artefact of the *probe's* fake driver, not
of SQLAlchemy.  The probe woke its harness future with an unguarded
``call_soon(f.set_result, None)``; when the awaiting task had been cancelled
the callback raised InvalidStateError, and the exception context stored by the
probe's loop exception handler kept (through its traceback) the sqlite3 cursor
of the interrupted SELECT alive; ``sqlite3.Connection.close()`` then leaves a
zombie connection (sqlite3_close_v2) that still holds the write lock.  With
the guarded wake-up (``aloop._wake``) all boundaries of that program are
clean.  SQLAlchemy itself terminates (closes) the connection whose reset was
interrupted, which rolls the transaction back.

Findings:
  F1 (open; patch in /verif/proposed_fixes/c29_connect_event_cancel_leak.diff)
     ``cancel [pool new-connection-init] -> 1 driver connection(s) open but only 0 idle in the pool``: a cancellation that
     arrives while the pool runs the connect / first_connect handlers of a *new* connection (dialect on_connect, dialect
     initialisation) drops the driver connection without close()/terminate() (`_ConnectionRecord.__connect`); an asyncio
     driver connection cannot be cleaned up by gc (aiosqlite: worker thread + sqlite handle stay behind).
  F2 (found here on e26212a..c263b58, repaired in /repo by 053d3d7 "an exit exception during reset-on-return still checks
     the record back in"): ``cancel [pool checked-out, <scope> scope, program in step|exit] -> pool.checkedout()=1 after
     unwinding; the pool slot is given back only when the cyclic garbage collector runs`` -- when the reset-on-return of a
     connection was interrupted by CancelledError in a release that is not shielded (``await conn.close()``,
     ``session.commit()/rollback()/close()``, leaving ``async with session.begin()``), `_finalize_fairy` invalidated the
     record and re-raised *before* ``connection_record.checkin()``.  The check is silent on this since 053d3d7.
  F3 (open; one root cause -- filters established on an AsyncResult live on the wrapper, ``scalars()`` / ``mappings()``
     hand only the underlying Result on; patch in /verif/proposed_fixes/c29_asyncresult_filters_and_freeze.diff):
     ``equiv result accessor conn.stream(stmt).unique().scalars().all() with rows v=[10, 10] -> sync [10], async(virtual loop) [10, 10]``
     and the same for ``.unique().mappings()``, ``.unique().scalars(1)``, ``.columns(1).scalars()``, ``.columns(1).mappings()``.
  F4 (open, same patch): ``equiv result accessor conn.stream(stmt)[...].freeze() with rows v=[] -> sync [[], []],
     async(virtual loop) '!TypeError'`` -- ``AsyncResult.freeze()`` builds ``FrozenResult(self)``, whose constructor
     calls the coroutine method ``fetchall()`` without awaiting it.
  Observation (not a violation of the statement): cancelling ``await session.close()`` inside ``async with
  session.begin()`` makes the block's exit raise AssertionError (``assert stx is not None`` in Session.rollback) instead of
  CancelledError; connections and transactions are still cleaned up.

Mutations caught (each a VIOLATION with a signature other than F1's; verified on /repo at 053d3d7):
  M2 util/concurrency.py greenlet_spawn: ``except BaseException`` -> ``except Exception`` (CancelledError not thrown into the
     greenlet) -> open transaction / checkedout()=1 / leaked driver connection
  M3 pool/base.py _finalize_fairy: no ``connection_record.invalidate(e=e)`` on an interrupted reset -> the half-reset
     connection goes back to the pool, the following program fails
  M4 ext/asyncio/session.py AsyncSession.get: ``populate_existing`` no longer passed on (proxy drops an argument) ->
     ``equiv session scope, op get -> sync (1, 111), async (1, 11)``
  M7 ext/asyncio/engine.py AsyncTransaction.rollback proxies to commit -> final database differs
  A1 ext/asyncio/result.py AsyncScalarResult.one_or_none passes first()'s flags (no second-row check) ->
     ``conn.stream_scalars(stmt).one_or_none() with rows v=[10, 10] -> sync '!MultipleResultsFound', async 10``
  A2 ext/asyncio/result.py AsyncResult.scalar_one no longer raises for no row; A3 AsyncScalarResult.fetchmany ignores its size
  M1 / M6 (``asyncio.shield`` removed from AsyncConnection.__aexit__ / AsyncSession.__aexit__) were caught through the F2
  reading before 053d3d7; with that repair an interrupted, unshielded close invalidates and checks in the connection, the
  property holds, and they are (correctly) no longer reported.
  Not reachable by a single injection: AsyncAdapt_terminate.terminate swallowing the CancelledError of a *second*
  cancellation during the graceful close.
"""
import gc
import itertools

ID = "C29"
LEVEL = "fault_enumeration"
META = dict(
    engine="A",
    technique="virtual asyncio event loop on the real asyncio stack with a fake aiosqlite-shaped driver: differential sync vs async "
    "execution of every program, and cancellation / timeout injected at every loop-step boundary of every program",
    design_ref="DESIGN.md §2.4, §5 C29",
    level_text="All operation programs up to the bound are executed through the sync API and the async API (same program text) and "
    "compared step by step; for every program of the cancellation family a cancellation is injected at every loop-step boundary at "
    "which the task is pending (each on a fresh loop, engine and database), followed by the post-conditions of the property. The "
    "whole SQLAlchemy asyncio stack runs for real, single-threaded and deterministic.",
    level_note="Trusted: the virtual loop (asyncio.BaseEventLoop with hand-popped queues), the fake driver (conformance-checked "
    "against the real aiosqlite on every cancellation-free program) and the post-condition probes. Scope limit: asyncpg, "
    "psycopg-async and aiomysql need servers and are not reached; real aiosqlite is used for cancellation-free conformance only.",
    rule="case = (program, injection kind, boundary j) or (program, equivalence); non-trivial = the injection hit while a connection "
    "was checked out (after the first program step started) resp. the program has >= 2 ops; distinct by program and boundary",
    assumptions=[
        "the driver executes a queued call even if the awaiting task is cancelled (true for aiosqlite's worker thread)",
        "sqlite3 autocommit=False transaction control on both sides; pool AsyncAdaptedQueuePool(1, 0) / QueuePool(1, 0)",
    ],
    bounds=dict(
        quick="equivalence: all programs <=2 ops over 16 core / 16 session ops x 4 scopes (+ <=3 over 8 ops, + cold pool <=1); result "
        "accessors: 20 filter chains x 17 accessors x {Core, ORM entity} x 4 result sizes; "
        "cancellation: every step boundary of all programs <=2 ops over 10 ops x 4 scopes (warm), <=1 (cold), 27 scenario programs of 3-5 ops",
        thorough="equivalence: <=3 over all ops, <=4 over 6 ops; result accessors: + ORM column statements, 5 result sizes, every case also on "
        "the real aiosqlite; cancellation: + all programs <=3 over 8 ops; wait_for timeouts at every "
        "boundary of programs <=2; two tasks sharing the pool, either one cancelled at every boundary",
    ),
)
SHARD_TIMEOUT = dict(quick=900, thorough=3000)

CORE_ALL = ("ins", "insmany", "sel", "scalar", "stream", "begin", "nested", "sp_rollback", "sp_commit", "commit", "rollback", "bad", "run_sync",
            "close", "exec_opts", "upd")
SESS_ALL = ("add", "flush", "commit", "rollback", "get", "refresh", "exec", "scalars", "stream_scalars", "merge", "delete", "nested", "sp_rollback",
            "close", "addbad", "upd")
CORE_10 = ("ins", "sel", "stream", "nested", "sp_rollback", "commit", "rollback", "bad", "run_sync", "close")
SESS_10 = ("add", "flush", "commit", "rollback", "get", "scalars", "stream_scalars", "merge", "nested", "close")
CORE_8 = ("ins", "sel", "stream", "nested", "commit", "rollback", "bad", "close")
SESS_8 = ("add", "flush", "commit", "rollback", "get", "stream_scalars", "merge", "nested")
CORE_6 = ("ins", "sel", "nested", "sp_rollback", "commit", "rollback")
SESS_6 = ("add", "flush", "commit", "rollback", "get", "nested")
SCOPES = ("connect", "begin", "session", "sbegin")

SCENARIOS = (
    ("connect", ("ins", "sel", "commit")),
    ("connect", ("ins", "nested", "ins", "sp_rollback", "commit")),
    ("connect", ("ins", "nested", "ins", "sp_commit", "commit")),
    ("connect", ("ins", "commit", "ins", "rollback")),
    ("connect", ("insmany", "stream", "commit")),
    ("connect", ("ins", "bad", "commit")),
    ("connect", ("ins", "commit", "upd", "sel")),
    ("connect", ("begin", "ins", "commit", "sel")),
    ("connect", ("ins", "run_sync", "commit")),
    ("connect", ("ins", "close", "sel")),
    ("begin", ("ins", "sel", "upd")),
    ("begin", ("ins", "nested", "ins", "sp_rollback")),
    ("begin", ("ins", "bad", "ins")),
    ("begin", ("insmany", "stream", "scalar")),
    ("session", ("add", "flush", "commit")),
    ("session", ("add", "commit", "get", "refresh")),
    ("session", ("add", "add", "commit", "delete", "commit")),
    ("session", ("add", "nested", "add", "sp_rollback", "commit")),
    ("session", ("add", "commit", "merge", "commit", "scalars")),
    ("session", ("add", "commit", "upd", "get")),
    ("session", ("add", "addbad", "commit", "exec")),
    ("session", ("add", "flush", "stream_scalars", "rollback")),
    ("session", ("add", "flush", "upd", "get")),
    ("session", ("add", "flush", "upd", "scalars")),
    ("session", ("add", "flush", "upd", "refresh")),
    ("sbegin", ("add", "flush", "get")),
    ("sbegin", ("add", "nested", "add", "sp_rollback")),
)


def _alpha(scope, core, sess):
    return core if scope in ("connect", "begin") else sess


def _programs(maxlen, core, sess, pre="warm", minlen=0):
    for n in range(minlen, maxlen + 1):
        for scope in SCOPES:
            for ops in itertools.product(_alpha(scope, core, sess), repeat=n):
                yield (scope, pre, ops)


def equiv_family(tier):
    seen = set()

    def add(it):
        for p in it:
            if p not in seen:
                seen.add(p)
                yield p

    if tier == "quick":
        yield from add(_programs(2, CORE_ALL, SESS_ALL))
        yield from add(_programs(1, CORE_ALL, SESS_ALL, pre="cold"))
        yield from add((s, "warm", o) for s, o in SCENARIOS)
        yield from add(_programs(3, CORE_8, SESS_8, minlen=3))
    else:
        yield from add(_programs(2, CORE_ALL, SESS_ALL))
        yield from add(_programs(2, CORE_ALL, SESS_ALL, pre="cold"))
        yield from add((s, "warm", o) for s, o in SCENARIOS)
        yield from add(_programs(3, CORE_ALL, SESS_ALL, minlen=3))
        yield from add(_programs(4, CORE_6, SESS_6, minlen=4))


def cancel_family(tier):
    seen = set()

    def add(it, kind="cancel"):
        for p in it:
            if (kind, p) not in seen:
                seen.add((kind, p))
                yield (kind,) + p

    yield from add(_programs(2, CORE_10, SESS_10))
    yield from add(_programs(1, CORE_10, SESS_10, pre="cold"))
    yield from add((s, "warm", o) for s, o in SCENARIOS)
    if tier == "thorough":
        yield from add(_programs(3, CORE_8, SESS_8, minlen=3))
        yield from add((s, "cold", o) for s, o in SCENARIOS)
        yield from add(_programs(2, CORE_10, SESS_10), kind="timeout")
        yield from add(((s, "warm", o) for s, o in SCENARIOS), kind="timeout")
        yield from add(_programs(1, CORE_10, SESS_10), kind="twoA")
        yield from add(((s, "warm", o) for s, o in SCENARIOS), kind="twoA")
        yield from add(_programs(1, CORE_10, SESS_10), kind="twoB")
        yield from add(((s, "warm", o) for s, o in SCENARIOS[:6]), kind="twoB")


N_SHARDS = dict(quick=(16, 48), thorough=(48, 144))


def accessor_groups():
    """groups of the result-accessor family: (route, chain); every group is explored by one shard so that the first
    (minimal) failing case of a group is the same whatever the sharding"""
    from ..worlds import asyncworld as W

    return [("stream", c) for c in W.ACC_CHAINS_RESULT] + [("stream_scalars", c) for c in W.ACC_CHAINS_SCALAR]


def accessor_cases(group, tier):
    """simplest first: accessor, api, then result size"""
    from ..worlds import asyncworld as W

    route, chain = group
    apis = ("core", "orment") if tier == "quick" else W.ACC_APIS
    sizes = tuple(z for z in W.ACC_SIZES if tier != "quick" or z != (10, 20))
    for acc in W.ACC_ACCESSORS:
        for api in apis:
            if api != "core" and "unique" in chain and acc[0] in ("fetchmany", "partitions"):
                # ORM + unique() + fetchmany / partitions (fetchmany(None) re-fetches a sized remainder after uniquing): with a server-side cursor the ORM refuses ("Can't use the ORM yield_per feature in
                # conjunction with unique()"); pysqlite has no server-side cursors, so the synchronous side cannot reproduce it
                continue
            for size in sizes:
                yield (api, route, chain, acc), size


def shards(tier, seed):
    ne, nc = N_SHARDS[tier]
    na = len(accessor_groups())
    return [("equiv", i, ne) for i in range(ne)] + [("inject", i, nc) for i in range(nc)] + [("acc", i, na) for i in range(na)]


# ------------------------------------------------------------------ checks


def _prog_txt(scope, pre, ops):
    if scope == "acc":
        from ..worlds import asyncworld as W

        return W.acc_text(ops)
    return "%s/%s[%s]" % (scope, pre, " ".join(ops))


def check_equiv(W, world, scope, pre, ops, real=True):
    """returns (problems, info); problem = (kind, sig, detail)"""
    from ..engines import aloop

    problems = []
    txt = _prog_txt(scope, pre, ops)
    s = W.run_sync_api(world, scope, pre, ops)
    cnt = aloop.Counter()
    try:
        a = W.run_async_api(world, scope, pre, ops, count=cnt)
    except (aloop.Deadlock, aloop.Horizon) as e:
        return [("equiv-hang", "equiv %s -> async execution does not terminate (%s)" % (txt, type(e).__name__), str(e))], None
    runs = [("async(virtual loop)", a.run.steps, a.result if a.result != "ok" else None, a.visible, a.follow)]
    if real:
        r = W.run_real_aiosqlite(world, scope, pre, ops)
        runs.append(("async(real aiosqlite)", r.steps, r.error, r.final, r.follow))
    for who, steps, err, final, follow in runs:
        for k, (x, y) in enumerate(itertools.zip_longest(s.steps, steps)):
            if x != y:
                if scope == "acc":
                    shown = txt
                    if ops[3][0] == "freeze":  # one signature whatever filters precede freeze()
                        shown = txt.split("(stmt)")[0] + "(stmt)[...].freeze()"
                    sig = "equiv result accessor %s with rows v=%r -> sync %r, %s %r" % (shown, [r[1] for r in world.seed], x and x[1], who, y and y[1])
                else:
                    sig = "equiv %s scope, op %s -> sync %r, %s %r" % (scope, (x or y)[0], x and x[1], who, y and y[1])
                problems.append(("equiv-step", sig, "program %s step %d\nsync steps %r\n%s steps %r" % (txt, k, s.steps, who, steps)))
                break
        else:
            if s.error != err:
                problems.append(("equiv-exit", "equiv %s scope -> leaving the scope: sync %r, %s %r" % (scope, s.error, who, err), "program " + txt))
            elif s.final != final:
                problems.append(("equiv-db", "equiv %s scope -> final database differs between sync and %s" % (scope, who),
                                 "program %s: sync %r, %s %r" % (txt, s.final, who, final)))
            elif s.follow != follow:
                problems.append(("equiv-follow", "equiv %s scope -> following program: sync %r, %s %r" % (scope, s.follow, who, follow), "program " + txt))
    differs = bool(problems)
    for kind, msg in _post(a, s.warnings):
        if kind == "warning" and differs:
            continue  # a consequence of the difference already reported
        problems.append(("clean-" + kind, "no injection, %s scope -> %s" % (scope, msg), "program " + txt))
    if s.warnings != a.warnings and not differs:
        problems.append(("equiv-warnings", "equiv %s scope -> warnings differ: sync %r, async %r" % (scope, s.warnings, a.warnings), "program " + txt))
    if s.checkedout != 0:
        problems.append(("sync-checkedout", "equiv %s -> sync pool.checkedout()=%d after the program" % (txt, s.checkedout), ""))
    return problems, dict(sync=s, a=a, counter=cnt)


def _noaddr(txt):
    import re

    return re.sub(r"<.*>", "<obj>", txt)


def _post(a, baseline_warnings):
    """post-conditions that do not depend on the reference run"""
    out = []
    if a.checkedout != 0:
        out.append(("checkedout", "pool.checkedout()=%d after unwinding" % a.checkedout))
    elif getattr(a, "checkedout_pre_gc", 0) != 0:
        out.append(("checkedout-until-gc", "pool.checkedout()=%d after unwinding; the pool slot is given back only when the cyclic "
                    "garbage collector runs" % a.checkedout_pre_gc))
    if a.open_conns > a.checkedin:
        out.append(("leaked-connection", "%d driver connection(s) open but only %d idle in the pool" % (a.open_conns, a.checkedin)))
    if a.lock is not None:
        out.append(("open-transaction", "a transaction is left open: observer BEGIN IMMEDIATE/COMMIT fails with %r" % (a.lock,)))
    if a.follow != [(777,)]:
        out.append(("follow-up", "the following program did not succeed: %s" % (str(a.follow).splitlines()[0][:140],)))
    if a.pool_problems:
        out.append(("pool-accounting", a.pool_problems[0]))
    if a.loop_exc:
        out.append(("loop-exception", "loop exception handler: %s" % (a.loop_exc[0],)))
    extra = [w for w in a.warnings if w not in (baseline_warnings or ())]
    if extra:
        out.append(("warning", "warning emitted: %s" % (_noaddr(extra[0])[:110],)))
    return out


def check_inject(W, world, kind, scope, pre, ops, j, sync=None, info=None):
    """one injection; j is relative to the start of the program. returns (problems, nontrivial)"""
    if info is None:
        info = {}
    from ..engines import aloop

    txt = _prog_txt(scope, pre, ops)
    if sync is None:
        sync = W.run_sync_api(world, scope, pre, ops)
    state = {}

    def factory(offset, out):
        base = aloop.cancel_at(offset + j) if kind == "cancel" else aloop.timeout_at(offset + j)

        def hook(loop, task):
            base(loop, task)
            # the request reaches the task when cancel() is called on it: at once for a cancellation, when the
            # timer handle runs for a timeout
            if "progress" not in state and getattr(base, "fired", False) and task.cancelling() > 0:
                state["progress"] = list(out.run.progress)
                state["phase"] = out.plog.phase(out.driver.ledger)

        return hook

    where = "%s %s at boundary %d" % (kind, txt, j)
    try:
        a = W.run_async_api(world, scope, pre, ops, hook_factory=factory, wrap_timeout=1000.0 if kind == "timeout" else None)
    except aloop.Deadlock as e:
        return [("hang", "%s -> deadlock: the loop has nothing to run while the task is pending" % kind, where + ": " + str(e))], True
    except aloop.Horizon as e:
        return [("hang", "%s -> step horizon reached (livelock)" % kind, where + ": " + str(e))], True
    if "progress" not in state:
        if kind == "timeout":
            info["skipped"] = "no live timer at this boundary"
            return [], False
        # the program finished before boundary j was reached (cannot happen: j comes from the counting run)
        return [("harness", "%s -> boundary not reached" % where, "")], False
    before = state["progress"]
    during = before[-1] if before else "not started"
    mark_class = "step" if during.startswith(("start", "done")) else during
    # canonical (program independent) place of the injection: pool phase + program phase
    # canonical place: the pool phase (the program phase is reported in the detail only)
    if state["phase"] == "new-connection-init":
        label = "cancel [pool new-connection-init]"  # scope and program phase are irrelevant while the pool sets up a connection
    else:
        # a timeout reaches the task as a cancellation: one signature for both injection kinds (the kind is in the detail)
        label = "cancel [pool %s, %s scope, program in %s]" % (state["phase"], scope, mark_class)
    problems = []
    want = "cancelled" if kind == "cancel" else "!TimeoutError"
    if a.result == "ok":
        problems.append(("swallowed", "%s -> the request was swallowed: the task finished normally" % label))
    elif a.result != want:
        info["other_exception"] = a.result
    extra = a.run.progress[len(before):]
    if extra:
        problems.append(("continued", "%s -> the program kept running after the request (%d more marks)" % (label, len(extra))))
    for k, msg in _post(a, sync.warnings):
        problems.append((k, "%s -> %s" % (label, msg)))
    # no partial commit: committed rows are those of the reference run just before or just after the interrupted step
    marks = sync.progress
    if not before:
        allowed = [[]]
    else:
        i = marks.index(before[-1]) if before[-1] in marks else None
        if i is None:
            allowed = [sync.final]
        else:
            nxt = marks[i + 1] if i + 1 < len(marks) else "final"
            allowed = [sync.snaps[marks[i]], sync.snaps[nxt]]
            if before[-1] == "exit":
                allowed.append(sync.snaps["final"])
    if a.visible not in allowed:
        problems.append(("partial-commit", "%s -> observer sees rows the reference run does not have committed there" % label))
        where += " observer %r allowed %r" % (a.visible, allowed)
    info["phase"] = state["phase"]
    return [(k, s, "%s (during %r)\nresult=%s progress=%r\ndriver ledger=%r" % (where, during, a.result, a.run.progress, a.driver.ledger[-12:]))
            for k, s in problems], bool(before) and before[-1] != "enter"


# ------------------------------------------------------------------ two tasks


def run_two(W, world, scope, ops, who, j):
    """tasks A (the program) and B (connect; insert 500; commit) share the pool of size 1; `who` is cancelled at boundary j.
    returns (outcome dict | problem) ; j=None -> counting run"""
    import asyncio
    import warnings

    import sqlalchemy as sa
    from sqlalchemy import pool as sa_pool
    from sqlalchemy.ext.asyncio import create_async_engine

    from ..engines import aloop

    world.fresh()
    loop = aloop.VLoop()
    driver = aloop.FakeDriver(world.path)
    eng = create_async_engine("sqlite+aiosqlite://", async_creator=driver.creator, poolclass=sa_pool.AsyncAdaptedQueuePool, pool_size=1, max_overflow=0)
    plog = W.PoolLog(eng.sync_engine.pool)
    run = W.Run(True)
    out = W.AsyncOutcome()
    out.run, out.driver = run, driver

    async def prog_b():
        async with eng.connect() as conn:
            await conn.execute(W.T.insert().values(id=500, v=500))
            await conn.commit()
        return "b-done"

    gc.disable()
    try:
        with warnings.catch_warnings(record=True) as caught:
            warnings.simplefilter("always")
            loop.drive(loop.spawn(W.warm_up(eng)))
            loop.settle()
            off = loop.steps
            ta = loop.spawn(W.program(run, eng, scope, ops))
            tb = loop.spawn(prog_b())
            both = loop.spawn(asyncio.wait([ta, tb]))
            victim = ta if who == "A" else tb
            boundaries = []

            def hook(lp, task):
                if victim.done():
                    return
                boundaries.append(lp.steps - off)
                if j is not None and lp.steps - off == j and not hook.fired:
                    hook.fired = True
                    victim.cancel()

            hook.fired = False
            loop.drive(both, hook)
            loop.settle()
            out.boundaries = boundaries
            out.fired = hook.fired

            def res(t):
                if t.cancelled():
                    return "cancelled"
                if t.exception() is not None:
                    return "!" + type(t.exception()).__name__ + ": " + str(t.exception())[:100]
                return "ok"

            out.res_a, out.res_b = res(ta), res(tb)
            del run.sps[:]
            run.first = None
            del ta, tb, both, victim
            loop.settle()
            out.checkedout_pre_gc = eng.sync_engine.pool.checkedout()
            gc.collect()
            loop.settle()
            p = eng.sync_engine.pool
            out.checkedout, out.checkedin = p.checkedout(), p.checkedin()
            out.open_conns = len(driver.open_conns())
            out.lock = world.probe_locks()
            out.visible = world.observe()
            t2 = loop.spawn(W.follow_up(run, eng))
            try:
                loop.drive(t2)
                loop.settle()
                out.follow = ("!" + type(t2.exception()).__name__ + ": " + str(t2.exception())[:120]) if t2.exception() is not None else t2.result()
            except aloop.Deadlock:
                out.follow = "!deadlock"
            del t2
            gc.collect()
            loop.settle()
            out.pool_problems = plog.problems()
            out.loop_exc = [str(c.get("message")) + (": " + type(c["exception"]).__name__ if c.get("exception") is not None else "") for c in loop.exc]
            t3 = loop.spawn(eng.dispose())
            try:
                loop.drive(t3)
                loop.settle()
            except Exception:  # noqa
                pass
        out.warnings = sorted({"%s: %s" % (w.category.__name__, _noaddr(str(w.message))[:160]) for w in caught
                               if not issubclass(w.category, (DeprecationWarning, ResourceWarning))})
    finally:
        driver.close_all()
        loop.dispose()
    return out


def check_two_case(W, world, who, scope, ops, j, baseline_warnings=None):
    from ..engines import aloop

    where = "two tasks: A=%s B=[connect ins(500) commit], cancel %s at boundary %d" % (_prog_txt(scope, "warm", ops), who, j)
    label = "two tasks sharing the pool, cancel %s (%s)" % (who, "the %s-scope program" % scope if who == "A" else "the task waiting for / using the pool")
    try:
        o = run_two(W, world, scope, ops, who, j)
    except aloop.Deadlock:
        return [("two-hang", "%s -> deadlock: a task waits for the pool forever" % label, where)], True
    except aloop.Horizon:
        return [("two-hang", "%s -> step horizon reached" % label, where)], True
    problems = []
    if not o.fired:
        return [], False
    survivor = o.res_b if who == "A" else o.res_a
    if survivor != "ok":
        problems.append(("two-survivor", "%s -> the other task finished %s" % (label, survivor.split(":")[0])))
    if who == "A" and (500, 500) not in o.visible:
        problems.append(("two-survivor-data", "%s -> the other task's committed row is missing" % label))
    if baseline_warnings is None:
        baseline_warnings = run_two(W, world, scope, ops, who, None).warnings
    for k, msg in _post(o, baseline_warnings):
        if k == "checkedout-until-gc":
            continue  # the single-task enumeration owns that reading (finding F2); here only what two tasks add
        problems.append(("two-" + k, "%s -> %s" % (label, msg)))
    return [(k, s, "%s\nA=%s B=%s visible=%r ledger tail %r" % (where, o.res_a, o.res_b, o.visible, o.driver.ledger[-8:])) for k, s in problems], True


# ------------------------------------------------------------------ driver


def _world(tag):
    from ..worlds import asyncworld as W

    return W, W.World(tag)


def _warm(W, world):
    # warm caches (statement compilation, mapper configuration) then freeze the heap so gc.collect() stays cheap
    W.run_sync_api(world, "session", "warm", ("add", "commit"))
    W.run_async_api(world, "connect", "warm", ("ins", "commit"))
    gc.collect()
    gc.freeze()


def run_shard(shard, tier, rec):
    from ..engines import aloop

    part, idx, n = shard
    W, world = _world("%s%d" % (part, idx))
    try:
        _warm(W, world)
        if part == "equiv":
            for k, (scope, pre, ops) in enumerate(equiv_family(tier)):
                if k % n != idx:
                    continue
                real = len(ops) <= (2 if tier == "quick" else 3) or k % 7 == 0
                problems, info = check_equiv(W, world, scope, pre, ops, real=real)
                rec.case(("equiv", scope, pre, ops), nontrivial=len(ops) >= 2)
                rec.count("equiv_programs")
                if real:
                    rec.count("real_aiosqlite_conformance_runs")
                if info is not None:
                    rec.outcome(("equiv", repr(info["sync"].steps), repr(info["sync"].final)))
                    rec.count("await_points_total", info["counter"].suspensions)
                    if len(ops) >= 3 and k % 97 == 5:
                        rec.sample(dict(kind="equivalence", program=_prog_txt(scope, pre, ops), steps=repr(info["sync"].steps)[:300],
                                        suspensions_of_async_task=info["counter"].suspensions))
                for kind, sig, detail in problems:
                    rec.violation(sig, detail, dict(kind="equiv", scope=scope, pre=pre, ops=list(ops)), kind=sig)
        elif part == "acc":
            group = accessor_groups()[idx]
            for k, (spec, size) in enumerate(accessor_cases(group, tier)):
                world.seed = [(i + 1, v) for i, v in enumerate(size)]
                try:
                    real = tier != "quick" or k % 8 == 0
                    problems, info = check_equiv(W, world, "acc", "warm", spec, real=real)
                finally:
                    pass
                rec.case(("acc", spec, size), nontrivial=len(size) >= 2)
                rec.count("accessor_cases")
                if real:
                    rec.count("real_aiosqlite_conformance_runs")
                if info is not None:
                    rec.outcome(("acc", repr(info["sync"].steps)))
                    if len(size) == 3 and k % 37 == 5:
                        rec.sample(dict(kind="result accessor equivalence", program=_prog_txt("acc", "warm", spec), rows=list(size),
                                        outcome=repr(info["sync"].steps[0][1])[:200]))
                for kind, sig, detail in problems:
                    fam = "freeze" if spec[3][0] == "freeze" else "fetch"
                    rec.violation(sig, detail, dict(kind="acc", spec=[spec[0], spec[1], list(spec[2]), list(spec[3])], size=list(size)),
                                  kind=("acc", kind if kind != "equiv-step" else "", group, fam) if kind == "equiv-step" else sig)
            world.seed = ()
        else:
            for k, (kind, scope, pre, ops) in enumerate(cancel_family(tier)):
                if k % n != idx:
                    continue
                rec.count("%s_programs" % kind)
                if kind in ("cancel", "timeout"):
                    sync = W.run_sync_api(world, scope, pre, ops)
                    cnt = aloop.Counter()
                    a0 = W.run_async_api(world, scope, pre, ops, count=cnt, wrap_timeout=1000.0 if kind == "timeout" else None)
                    bounds = [b - a0.offset for b in cnt.boundaries]
                    rec.count("%s_boundaries" % kind, len(bounds))
                    rec.count("await_points_of_injected_programs", cnt.suspensions)
                    for j in bounds:
                        info = {}
                        problems, nt = check_inject(W, world, kind, scope, pre, ops, j, sync=sync, info=info)
                        if info.get("skipped"):
                            rec.count("timeout_boundaries_without_a_live_timer")
                            continue
                        rec.case((kind, scope, pre, ops, j), nontrivial=nt)
                        rec.outcome((kind, info.get("phase"), info.get("other_exception"), repr([p[1] for p in problems])))
                        rec.count("injections_in_pool_phase_%s" % info.get("phase"))
                        if info.get("other_exception"):
                            rec.count("injections_where_the_task_ended_with_another_exception")
                        for pk, sig, detail in problems:
                            rec.violation(sig, detail, dict(kind=kind, scope=scope, pre=pre, ops=list(ops), j=j), kind=sig)
                    if len(ops) >= 2 and k % 41 == 3:
                        rec.sample(dict(kind=kind, program=_prog_txt(scope, pre, ops), boundaries=len(bounds), await_points=cnt.suspensions,
                                        all_postconditions_held=True))
                else:
                    who = kind[-1]
                    o = run_two(W, world, scope, ops, who, None)
                    rec.count("two_task_boundaries", len(o.boundaries))
                    for j in o.boundaries:
                        problems, nt = check_two_case(W, world, who, scope, ops, j, baseline_warnings=o.warnings)
                        rec.case((kind, scope, ops, j), nontrivial=nt)
                        for pk, sig, detail in problems:
                            rec.violation(sig, detail, dict(kind=kind, scope=scope, pre=pre, ops=list(ops), j=j), kind=sig)
    finally:
        gc.unfreeze()
        world.cleanup()


def replay(case):
    W, world = _world("replay")
    try:
        kind = case["kind"]
        ops = tuple(case.get("ops", ()))
        if kind == "acc":
            sp = case["spec"]
            world.seed = [(i + 1, v) for i, v in enumerate(case["size"])]
            problems, _ = check_equiv(W, world, "acc", "warm", (sp[0], sp[1], tuple(sp[2]), tuple(sp[3])), real=True)
        elif kind == "equiv":
            problems, _ = check_equiv(W, world, case["scope"], case["pre"], ops, real=True)
        elif kind in ("cancel", "timeout"):
            problems, _ = check_inject(W, world, kind, case["scope"], case["pre"], ops, case["j"])
        else:
            problems, _ = check_two_case(W, world, kind[-1], case["scope"], ops, case["j"])
        return [(sig, detail) for _, sig, detail in problems]
    finally:
        world.cleanup()
