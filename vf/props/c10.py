"""C10 Result objects deliver exactly the underlying rows under any access pattern.

Engine H: for every (source, view prefix, row set) the consumption-op alphabet is
explored breadth-first by replay on fresh real Result objects, in lock-step with
the plain-list reference model ``vf.models.result_ref``; states are de-duplicated
on (model state, implementation fingerprint) and the search runs to fixpoint.

Mutations caught: (filled in at the end of the build, see bottom of this docstring)
"""
import warnings
from collections.abc import Sequence

from sqlalchemy.engine.result import FrozenResult
from sqlalchemy.engine.row import Row
from sqlalchemy.engine.row import RowMapping

from ..engines import hist
from ..models import result_ref as ref
from ..worlds import resultworld as rw

ID = "C10"
LEVEL = "model_checking"
META = dict(
    engine="H",
    technique="explicit-state BFS over consumption histories of real Result objects, plain-list reference model in lock-step, canonical-state dedupe to fixpoint",
    design_ref="DESIGN.md §5 C10",
    level_text="placeholder",
    level_note="placeholder",
    rule="placeholder",
    assumptions=[],
    bounds=dict(quick="placeholder", thorough="placeholder"),
)

# ------------------------------------------------------------------ views

VIEWS = {
    "-": [],
    "unique": [("unique",)],
    "unique_s": [("unique_s",)],
    "scalars": [("scalars", 0)],
    "scalars1": [("scalars", 1)],
    "scalars.unique": [("scalars", 0), ("unique",)],
    "unique.scalars": [("unique",), ("scalars", 0)],
    "mappings": [("mappings",)],
    "mappings.unique": [("mappings",), ("unique",)],
    "unique.mappings": [("unique",), ("mappings",)],
    "columns10": [("columns", (1, 0))],
    "columns1": [("columns", (1,))],
    "columns1.unique": [("columns", (1,)), ("unique",)],
    "unique.columns1": [("unique",), ("columns", (1,))],
    "columns10.scalars": [("columns", (1, 0)), ("scalars", 0)],
    "mappings.columns1": [("mappings",), ("columns", (1,))],
    "tuples": [("tuples",)],
    "yield_per2": [("yield_per", 2)],
    "yield_per1": [("yield_per", 1)],
    "unique.yield_per2": [("unique",), ("yield_per", 2)],
    "scalars.yield_per2": [("scalars", 0), ("yield_per", 2)],
    "scalars.unique.yield_per2": [("scalars", 0), ("unique",), ("yield_per", 2)],
    # one-column (scalar) sources
    "columns0": [("columns", (0,))],
}
VIEWS_1COL = ("-", "unique", "scalars", "scalars.unique", "unique.scalars", "mappings", "columns0", "yield_per2", "unique.yield_per2")


def _is_unique_view(vname):
    return "unique" in vname


# ------------------------------------------------------------------ alphabet

SINGLE = ("next", "iter1", "fetchone", "hold_next")
MANY = ("fetchmany", "part1", "partall")


def alphabet(cfg, tier, long_=False):
    """[(target, name, arg)] simplest first; availability by facet kind"""
    V = cfg.view
    ops = []
    sizes = (1, 2) if tier == "quick" else (1, 2, 3)
    if long_:
        sizes = (1, 2, 5)
    ops.append(("v", "next", None))
    if V.kind != "scalar":
        ops.append(("v", "fetchone", None))
    ops.append(("v", "iter1", None))
    for k in sizes:
        ops.append(("v", "fetchmany", k))
    open_many_ok = not (cfg.two_facets and V.uniq is not None and cfg.yield_per is None)
    if open_many_ok:
        ops.append(("v", "fetchmany", None))
    ops += [("v", "fetchall", None), ("v", "all", None), ("v", "list", None)]
    ops.append(("v", "part1", 2))
    if open_many_ok:
        ops.append(("v", "part1", None))
    ops.append(("v", "partall", 2))
    if open_many_ok and not long_:
        ops.append(("v", "partall", None))
    ops += [("v", "first", None), ("v", "one", None), ("v", "one_or_none", None)]
    if V.kind == "row":
        ops += [("v", "scalar", None), ("v", "scalar_one", None), ("v", "scalar_one_or_none", None)]
    ops.append(("v", "close", None))
    if V.is_base:
        ops.append(("v", "freeze", None))
    ops += [("v", "hold_new", None), ("v", "hold_next", None)]
    if cfg.two_facets and not long_:
        B = cfg.base
        ops += [("b", "fetchone", None), ("b", "fetchmany", 1), ("b", "fetchmany", 2), ("b", "all", None),
                ("b", "first", None), ("b", "one", None), ("b", "scalar_one_or_none", None), ("b", "close", None), ("b", "freeze", None)]
        if not (B.uniq is not None and cfg.yield_per is None):
            ops.append(("b", "fetchmany", None))
    return ops


# ------------------------------------------------------------------ implementation side


class Env:
    __slots__ = ("base", "view", "held")


def build(src, variant, idxs, steps):
    env = Env()
    env.base = src.build(variant, idxs)
    env.view = rw.apply_view(env.base, steps, variant)
    env.held = None
    return env


def _item(kind, x, rows_out):
    if kind == "row":
        if not isinstance(x, Row):
            return ("?", type(x).__name__, repr(x))
        rows_out.append(x)
        return ("R", tuple(x))
    if kind == "mapping":
        if not isinstance(x, RowMapping):
            return ("?", type(x).__name__, repr(x))
        return ("M", tuple(x.items()))
    return ("S", x)


def _seq(kind, xs, rows_out):
    if not isinstance(xs, Sequence) or isinstance(xs, (str, bytes, Row)):
        return ("?", type(xs).__name__, repr(xs))
    return ("L", [_item(kind, x, rows_out) for x in xs])


def observe(cfg, env, op):
    """apply op to the implementation; -> (normal form, [Row objects delivered])"""
    target, name, arg = op
    r = env.view if target == "v" else env.base
    F = cfg.facet(target)
    kind = F.kind
    rows_out = []
    try:
        if name == "next":
            return _item(kind, next(r), rows_out), rows_out
        if name == "iter1":
            return _item(kind, next(iter(r)), rows_out), rows_out
        if name == "hold_next":
            return _item(kind, next(env.held), rows_out), rows_out
        if name == "hold_new":
            env.held = iter(r)
            return ("0",), rows_out
        if name in ("fetchone", "first", "one", "one_or_none"):
            x = getattr(r, name)()
            if x is None:
                return cfg.none_form(F), rows_out
            return _item(kind, x, rows_out), rows_out
        if name == "fetchmany":
            return _seq(kind, r.fetchmany(arg) if arg is not None else r.fetchmany(), rows_out), rows_out
        if name in ("fetchall", "all"):
            return _seq(kind, getattr(r, name)(), rows_out), rows_out
        if name == "list":
            return _seq(kind, list(r), rows_out), rows_out
        if name == "part1":
            it = r.partitions(arg) if arg is not None else r.partitions()
            return _seq(kind, next(it), rows_out), rows_out
        if name == "partall":
            it = r.partitions(arg) if arg is not None else r.partitions()
            return ("P", [_seq(kind, p, rows_out)[1] for p in it]), rows_out
        if name in ("scalar", "scalar_one", "scalar_one_or_none"):
            return ("S", getattr(r, name)()), rows_out
        if name == "close":
            x = r.close()
            return (("0",) if x is None else ("?", repr(x))), rows_out
        if name == "freeze":
            fr = r.freeze()
            if not isinstance(fr, FrozenResult):
                return ("?", type(fr).__name__), rows_out
            a = _seq("row", fr().all(), rows_out)
            b = _seq("row", fr().all(), [])
            if a != b:
                return ("?", "two re-hydrations differ", a, b), rows_out
            return ("F", a[1]), rows_out
    except Exception as e:  # noqa: BLE001 - the class is the observation
        return ("X", type(e).__name__), rows_out
    raise AssertionError(name)


def replay_ops(cfg, env, ops):
    with warnings.catch_warnings():
        warnings.simplefilter("ignore")
        for op in ops:
            observe(cfg, env, op)


# ------------------------------------------------------------------ known root causes (constant signatures)

F1 = ("unique(): first()/one()/one_or_none()/scalar*() ignore the rows already delivered by earlier fetches "
      "(rows [A, A]: unique().fetchone() -> A, then first() -> A again)")
F2 = ("MergedResult.close()/first() do not close the merged result: later fetches return rows or None "
      "instead of raising ResourceClosedError (MergedResult._soft_close does not call IteratorResult._soft_close)")
F3 = ("ChunkedIteratorResult(dynamic_yield_per=True): fetchmany()/partitions() after a single-row fetch drop the "
      "rest of the chunk buffered in self.iterator (ORM result on a server side cursor loses rows)")
F4 = ("unique().scalar_one()/scalar_one_or_none() de-duplicate on the whole row, not on the scalar "
      "(documented as equivalent to scalars().one()/one_or_none())")
F5 = ("CursorResult: an iterator obtained before the result was exhausted by another fetch method raises "
      "AttributeError ('NoneType' object has no attribute 'fetchone') instead of StopIteration")


def _flat_items(form):
    if form[0] == "L":
        return list(form[1])
    if form[0] == "P":
        return [x for p in form[1] for x in p]
    return None


def _is_subseq(small, big):
    it = iter(big)
    return all(any(x == y for y in it) for x in small)


def diagnose(cfg, src, st, hist_, op, obs):
    target, name, arg = op
    F = cfg.facet(target)
    if F.uniq is not None and name in ref.ONE_FAMILY:
        for ign, rowu, sig in ((True, False, F1), (False, True, F4), (True, True, F1)):
            if ign and not any(st.seens[F.uniq]):
                continue
            if rowu and name not in ("scalar_one", "scalar_one_or_none"):
                continue
            alt = ref.apply(cfg, st, target, name, arg, ignore_seen=ign, scalar_row_unique=rowu)
            if ref.match(cfg, alt, obs) is not None:
                return sig
    if src.merged and st.closed in ("hard", "any") and obs != ref.RCE and obs[0] != "?":
        return F2
    if src.dynamic:
        # a single-row fetch left part of a chunk in self.iterator and a later fetchmany()/partitions()
        # replaced that iterator: rows are lost (possibly noticed only by a later op when rows are equal)
        seq = [h[1] for h in hist_] + [name]
        first_single = next((i for i, x in enumerate(seq) if x in SINGLE), None)
        if first_single is not None and any(x in MANY for x in seq[first_single + 1:]):
            return F3
    if src.cursor and name == "hold_next" and obs == ("X", "AttributeError") and st.pos >= cfg.n:
        return F5
    return None


# ------------------------------------------------------------------ lock-step


def opstr(op):
    t, name, arg = op
    s = name if arg is None and name not in MANY else "%s(%s)" % (name, arg)
    return s if t == "v" else "base." + s


def lockstep(cfg, src, env, st, hist_, op):
    """-> (new_state | None, obs, problem | None, known_sig | None)"""
    target, name, arg = op
    outcome = ref.apply(cfg, st, target, name, arg)
    with warnings.catch_warnings():
        warnings.simplefilter("ignore")
        obs, rows_out = observe(cfg, env, op)
    ns = ref.match(cfg, outcome, obs)
    if ns is None:
        return None, obs, "got %r, reference %s" % (obs, ref.describe(outcome)), diagnose(cfg, src, st, hist_, op, obs)
    # delivered Row objects carry the projected keys
    want_fields = cfg.fields(cfg.base if name == "freeze" else cfg.facet(target))
    for row in rows_out:
        if tuple(row._fields) != want_fields:
            return None, obs, "delivered Row has _fields %r, expected %r" % (tuple(row._fields), want_fields), None
    # closure flag as documented
    if ns.closed != "any":
        want_closed = ns.closed == "hard"
        for who, r in (("view", env.view), ("result", env.base)):
            if bool(r.closed) != want_closed:
                known = F2 if (src.merged and name != "close") else None
                return None, obs, "%s.closed is %r after the op, expected %r" % (who, r.closed, want_closed), known
    return ns, obs, None, None


INCOMPAT_OPS = ("next", "iter1", "fetchone", "fetchmany", "fetchall", "all", "list", "part1", "partall")


class Explorer:
    def __init__(self, rec, src, vname, variant, idxs, tier, long_=False):
        self.rec, self.src, self.vname, self.variant, self.idxs = rec, src, vname, variant, tuple(idxs)
        self.steps = VIEWS[vname]
        self.cfg = ref.Config(src.model_rows(variant, idxs), src.keys, self.steps, yield_per=src.yield_per, scalar_source=src.scalar_source)
        self.ops = alphabet(self.cfg, tier, long_)
        self.cfgkey = (src.name, vname, variant, self.idxs)
        self.long_ = long_
        # documented: "Can't use the ORM yield_per feature in conjunction with unique()" (the ORM's own
        # uniquing strategy; an explicit strategy= is not affected)
        self.incompat = bool(src.orm and self.cfg.yield_per and variant == "h" and any(s[0] == "unique" for s in self.steps))

    def case_dict(self, hist_, op):
        return dict(source=self.src.name, view=self.vname, variant=self.variant, rows=list(self.idxs),
                    history=[list(h) for h in hist_], op=list(op), long=self.long_)

    def key(self, env, ms, tag):
        return (self.cfgkey, ref.canon(self.cfg, ms[0]), rw.fingerprint(env.base), tag)

    def root(self):
        env = build(self.src, self.variant, self.idxs, self.steps)
        st = self.cfg.initial()
        problem = None
        # keys() of the freshly built view
        for who, obj, F in (("result", env.base, self.cfg.base), ("view", env.view, self.cfg.view)):
            if hasattr(obj, "keys") and F.kind != "scalar":
                got = tuple(obj.keys())
                if got != self.cfg.fields(F):
                    problem = "%s.keys() is %r, expected %r" % (who, got, self.cfg.fields(F))
        if problem:
            self.rec.violation("%s view=%s: %s" % (self.src.name, self.vname, problem), problem, self.case_dict((), ("v", "close", None)), kind=("keys", self.vname))
            return []
        ms = (st, ())
        return [((), ms, self.key(env, ms, ()))]

    def enabled(self, ms):
        if self.incompat:
            return [op for op in self.ops if op[1] in INCOMPAT_OPS and self.cfg.facet(op[0]).uniq is not None]
        return ref.enabled(self.cfg, ms[0], self.ops)

    def step(self, hist_, ms, op):
        rec, cfg, src = self.rec, self.cfg, self.src
        st, tag = ms
        env = build(src, self.variant, self.idxs, self.steps)
        replay_ops(cfg, env, hist_)
        if self.incompat:
            with warnings.catch_warnings():
                warnings.simplefilter("ignore")
                obs, _ = observe(cfg, env, op)
            rec.case((self.cfgkey, "incompat", op), nontrivial=False)
            rec.outcome(("incompat", op[1], repr(obs)))
            if obs != ("X", "InvalidRequestError"):
                rec.violation("%s view=%s: ORM yield_per with unique(): %s -> got %r, documented InvalidRequestError" % (src.name, self.vname, opstr(op), obs),
                              repr(obs), self.case_dict(hist_, op), kind=("incompat", op[1]))
            return None
        ns, obs, problem, known = lockstep(cfg, src, env, st, hist_, op)
        mid = 0 < st.pos < cfg.n
        rec.case((self.cfgkey, ref.canon(cfg, st), op), nontrivial=mid and cfg.n >= 2)
        rec.outcome((cfg.view.kind, op[1], repr(obs)))
        if problem is not None:
            desc = "%s view=%s rows=%s: %s" % (src.name, self.vname, [rw.UNIVERSE[self.variant][i] for i in self.idxs],
                                               " ; ".join(opstr(h) for h in tuple(hist_) + (op,)))
            if known is not None:
                rec.violation(known, "minimal case in this shard: %s -> %s" % (desc, problem), self.case_dict(hist_, op), kind=known)
            else:
                rec.violation("%s -> %s" % (desc, problem), problem, self.case_dict(hist_, op), kind=(op[1], obs[0], obs[1] if obs[0] == "X" else None))
            return None
        if mid and len(hist_) >= 2 and (cfg.view.uniq is not None or src.cursor):
            rec.sample(dict(source=src.name, view=self.vname, rows=[list(rw.UNIVERSE[self.variant][i]) for i in self.idxs],
                            ops=[opstr(h) for h in tuple(hist_) + (op,)], last=repr(obs)), limit=3)
        if src.dynamic and st.pos < cfg.n and st.closed == "open":
            # hidden state of the dynamic chunk iterator: size of the chain in use and how many
            # single-row fetches went through it
            if op[1] in MANY:
                tag = (op[2] if op[2] is not None else cfg.yield_per, 0)
            elif op[1] in SINGLE:
                tag = ((tag[0] if tag else cfg.yield_per), (tag[1] if tag else 0) + 1)
        nms = (ns, tag)
        return nms, self.key(env, nms, tag)


# ------------------------------------------------------------------ driver

CORE_SOURCES_Q = ["iter", "iter_s", "chunk", "chunk_dyn", "cur", "cur_sr1", "cur_sr2", "cur_yp2", "cur_full",
                  "frozen", "frozen_cur", "frozen_c10", "merged", "merged0", "orm", "orm_ss_sr", "orm_ss_yp2"]
EXTRA_SOURCES_T = ["chunk_s", "cur_sr3", "cur_ss", "frozen_uniq", "merged_n", "merged3", "merged_cur", "orm_yp2"]
U_SOURCES = ["iter", "cur", "cur_sr1", "frozen_cur", "merged", "orm"]
U_VIEWS = ["-", "unique", "scalars.unique", "mappings.unique", "columns10", "unique.yield_per2"]
LONG_SOURCES = ["cur", "cur_sr", "cur_sr2", "cur_sr7", "cur_yp2", "cur_full", "orm_yp2", "orm_ss_yp2", "iter"]
LONG_VIEWS = ["-", "unique", "scalars"]


ORM_VIEWS = ("-", "unique", "unique_s", "scalars", "scalars.unique", "mappings", "columns10", "yield_per2", "unique.yield_per2")


def views_for(src, tier):
    if len(src.keys) == 1:
        return list(VIEWS_1COL)
    if src.orm:
        return list(ORM_VIEWS)
    names = [v for v in VIEWS if v != "columns0"]
    if tier == "quick":
        names = [v for v in names if v not in ("yield_per1", "scalars.unique.yield_per2", "scalars1")]
    return names


def shards(tier, seed):
    out = []
    srcs = CORE_SOURCES_Q + (EXTRA_SOURCES_T if tier == "thorough" else [])
    for s in srcs:
        for v in views_for(rw.SOURCES[s], tier):
            if rw.SOURCES[s].orm and rw.SOURCES[s].dynamic and rw.SOURCES[s].yield_per is None and VIEWS[v] and any(x[0] == "unique" for x in VIEWS[v]) and not any(x[0] == "yield_per" for x in VIEWS[v]):
                # the ORM treats fetchmany(n) on a server side cursor as yield_per: same documented
                # incompatibility, raised only by some ops; not modelled
                continue
            out.append(("std", s, v, "h"))
    for s in U_SOURCES:
        for v in U_VIEWS:
            out.append(("std", s, v, "u"))
    for s in LONG_SOURCES:
        for v in LONG_VIEWS:
            out.append(("long", s, v, "h"))
    return out


def run_shard(shard, tier, rec):
    kind, sname, vname, variant = shard
    src = rw.SOURCES[sname]
    if kind == "long":
        ex = Explorer(rec, src, vname, variant, rw.LONG_ROWS, tier, long_=True)
        d = hist.explore(rec, ex.root(), ex.enabled, ex.step, depth=None)
        rec.count("long_shards_reaching_fixpoint_at_depth_%02d" % d)
        return
    maxlen = 3 if tier == "quick" else 4
    if tier == "quick" and (variant == "u" or src.orm):
        maxlen = 2
    maxd = 0
    for idxs in rw.all_rowsets(maxlen):
        ex = Explorer(rec, src, vname, variant, idxs, tier)
        d = hist.explore(rec, ex.root(), ex.enabled, ex.step, depth=None)
        maxd = max(maxd, d)
        rec.count("configurations")
    rec.count("shards_reaching_fixpoint_at_depth_%02d" % maxd)


def replay(case):
    from ..core import Rec

    src = rw.SOURCES[case["source"]]
    idxs = tuple(case["rows"])
    rec = Rec(ID)
    ex = Explorer(rec, src, case["view"], case["variant"], idxs, "thorough", long_=case.get("long", False))
    cfg = ex.cfg
    hist_ = [tuple(h) for h in case["history"]]
    op = tuple(case["op"])
    env = build(src, case["variant"], idxs, ex.steps)
    st = cfg.initial()
    out = []
    done = []
    for h in hist_ + [op]:
        ns, obs, problem, known = lockstep(cfg, src, env, st, done, h)
        if problem is not None:
            desc = "%s view=%s rows=%s: %s" % (src.name, case["view"], [rw.UNIVERSE[case["variant"]][i] for i in idxs],
                                               " ; ".join(opstr(x) for x in done + [h]))
            out.append((known or "%s -> %s" % (desc, problem), "%s -> %s" % (desc, problem)))
            break
        st = ns
        done.append(h)
    return out
