"""C10 Result objects deliver exactly the underlying rows under any access pattern.

Engine H: for every (source, view prefix, row list) the consumption-op alphabet is
explored breadth-first by replay on fresh real Result objects, in lock-step with
the plain-list reference model ``vf.models.result_ref``; states are de-duplicated
on (model state, fetch-strategy fingerprint) and the search runs to fixpoint.
Sources and views live in ``vf.worlds.resultworld`` / ``VIEWS`` below.

A mismatch whose cause is one of the root causes found while building the check
gets that root cause's constant signature F1..F6 (diagnosed by re-running the
reference model with exactly that deviation switched on, or by the structural
condition that triggers it); everything else gets the minimal concrete case
(BFS = shortest history first, row lists simplest first) as its signature.

The same enumeration on the compiled extension modules is left to C55
(compiled-vs-pure differential); this check runs on the .py sources.

Mutations caught (private copy, each gives VIOLATION lines with new signatures):
  N1 cursor.py BufferedRowCursorFetchStrategy.fetchmany: soft-close at once instead of the
     deferred ``close = True`` (buffered rows lost)            -> cur_sr2: fetchmany(2) returns []
  N2 _result_cy.py _manyrow_getter (unique): ``num_required = num - len(made_rows)``
                                                                -> cur_sr1/unique: fetchmany(2) ; first
  N3 _result_cy.py _only_one_row: drop the ``_soft_close(hard=True)`` of first()/scalar()
                                                                -> iter: first ; next delivers a row
  N4 _result_cy.py _iterator_getter: post-creational filter applied before the unique test
                                                                -> iter/scalars.unique: next ; iter1
  N5 cursor.py FullyBufferedCursorFetchStrategy.fetchmany: ``min(size, len(rb) - 1)``
                                                                -> cur_full: fetchmany(1) returns []
  N6 cursor.py BufferedRowCursorFetchStrategy._buffer_rows: last row of a grown (>5) buffer dropped
                                                                -> only the 13-row shard cur_sr7: list
  N7 result.py FrozenResult.__init__: data from _raw_row_iterator() instead of fetchall()
     (projection of columns() lost)                             -> frozen_c10: next
  N8 _result_cy.py _manyrow_getter: ``if num is None: num = yield_per`` removed
                                                                -> chunk/yield_per2: fetchmany(None)
  N9 result.py FilterResult.yield_per: ``@_generative`` removed (memoized getter keeps the old batch size)
                                                                -> iter/scalars: fetchmany(1) ; yield_per(1) ; fetchmany(None)
  N10 result.py Result.yield_per: ``@_generative`` removed      -> iter/-: fetchmany(1) ; yield_per(1) ; fetchmany(None)
  (not caught, and not a property change: BufferedRowCursorFetchStrategy.yield_per leaving _bufsize
   unchanged only alters internal buffering, the rows and batches delivered are the same)
"""
import warnings
from collections.abc import Sequence

from sqlalchemy.engine.result import FrozenResult
from sqlalchemy.engine.row import Row
from sqlalchemy.engine.row import RowMapping

from ..engines import hist
from ..models import result_ref as ref
from ..worlds import resultworld as rw

ID = "C10"
LEVEL = "model_checking"
META = dict(
    engine="H",
    technique="explicit-state BFS over consumption histories of real Result objects, plain-list reference model in lock-step, canonical-state dedupe to fixpoint",
    design_ref="DESIGN.md §5 C10",
    level_text="Every way of obtaining a Result over a row list (IteratorResult, scalar-source IteratorResult, ChunkedIteratorResult "
    "static and dynamic_yield_per, CursorResult from a SQLite SELECT with the default / BufferedRow (stream_results, max_row_buffer 1,2[,3,7,1000], "
    "yield_per) / FullyBuffered fetch strategies, FrozenResult re-hydration of plain, projected, uniqued and cursor results, MergedResult of two "
    "[three, two cursors], ORM column results incl. a dialect with server side cursors) x every view prefix (unique with default and explicit "
    "strategy, scalars, mappings, columns, tuples, yield_per and their combinations, before or after the filter object is made) x every row list "
    "of 0..3 (quick) / 0..4 (thorough) rows over 3 row values whose projections collide (duplicates, NULL, an unhashable JSON variant) is explored "
    "as a state machine: all consumption ops (next, iter-then-next, live iterator, fetchone, fetchmany 1/2/[3]/None, fetchall, all, list, partitions "
    "first/all with 2/None, first, one, one_or_none, scalar, scalar_one, scalar_one_or_none, close, freeze, and yield_per(k) in the middle "
    "of a history - after it every size-less fetchmany()/partitions() must deliver batches of exactly the most recent k; for filter views "
    "also ops on the parent Result) are applied on a fresh replay of the history and compared with the list model (value or exception class, Row._fields, "
    ".closed). States are deduplicated on (model state, fetch-strategy buffer fingerprint, yield_per captured by the memoized row getters of "
    "the Result and of the view) and BFS runs until no new state appears, so the "
    "result holds for op sequences of every length over this alphabet. A 13-row list exercises buffer growth.",
    level_note="Trusted: vf/models/result_ref.py (about 250 lines, no SQLAlchemy import) and the SQLite driver. Where the documentation leaves an "
    "outcome open the model accepts the allowed set: fetchmany()/partitions() without size and without yield_per may return any non-empty prefix; "
    "after first()/one()/scalar*() a later fetch may raise ResourceClosedError or report exhaustion but must not deliver a row; freeze() on a "
    "unique() result may or may not be de-duplicated (TODO in the source); freeze() only on unconsumed results (documented precondition); ORM "
    "yield_per + unique() must raise InvalidRequestError. The FullyBuffered strategy is installed through an after_cursor_execute listener the "
    "way a dialect's post_exec() does; the server-side-cursor code path (context._is_server_side, ORM dynamic_yield_per) through a pysqlite "
    "sub-dialect that hands out a normal sqlite3 cursor as server side cursor. Runs on the pure-Python sources (C55 compares the compiled "
    "extension).",
    rule="state = (source, view, row list, cursor index, seen sets, closure, live-iterator flag, buffer fingerprint); transition = one op on a "
    "replayed state, executed on the implementation and the model; non-trivial = applied mid-stream (0 < consumed < n) on a list of >= 2 rows",
    assumptions=["single-threaded use of a Result", "row values are ints/strings/None/lists; uniqueness by value",
                 "SQLite returns rows in ORDER BY order",
                 "unique()/columns()/scalars()/mappings() are applied before the first fetch; yield_per() also at any later point",
                 "a live iterator and a mid-history yield_per are explored separately, not combined in one history"],
    bounds=dict(
        quick="fixpoint (all op-sequence lengths) for all row lists of 0..3 rows (0..2 for the unhashable variant and ORM sources) x 17 sources (6 primary x 19 views, the others x 8-9 views); 13-row list x 9 sources x 3 views; "
        "mid-history yield_per(1|2) on 6 sources x 5 views",
        thorough="fixpoint for all row lists of 0..4 rows (0..3 ORM) x 25 sources x <=22 views, fetchmany(3) added; 13-row list x 9 sources x 3 views; "
        "mid-history yield_per(1|2|3) on 6 sources x 5 views for row lists of 0..3 rows",
    ),
)

# ------------------------------------------------------------------ views

VIEWS = {
    "-": [],
    "unique": [("unique",)],
    "unique_s": [("unique_s",)],
    "scalars": [("scalars", 0)],
    "scalars1": [("scalars", 1)],
    "scalars.unique": [("scalars", 0), ("unique",)],
    "unique.scalars": [("unique",), ("scalars", 0)],
    "mappings": [("mappings",)],
    "mappings.unique": [("mappings",), ("unique",)],
    "unique.mappings": [("unique",), ("mappings",)],
    "columns10": [("columns", (1, 0))],
    "columns1": [("columns", (1,))],
    "columns1.unique": [("columns", (1,)), ("unique",)],
    "unique.columns1": [("unique",), ("columns", (1,))],
    "columns10.scalars": [("columns", (1, 0)), ("scalars", 0)],
    "mappings.columns1": [("mappings",), ("columns", (1,))],
    "tuples": [("tuples",)],
    "yield_per2": [("yield_per", 2)],
    "yield_per1": [("yield_per", 1)],
    "unique.yield_per2": [("unique",), ("yield_per", 2)],
    "scalars.yield_per2": [("scalars", 0), ("yield_per", 2)],
    "scalars.unique.yield_per2": [("scalars", 0), ("unique",), ("yield_per", 2)],
    # one-column (scalar) sources
    "columns0": [("columns", (0,))],
}
VIEWS_1COL = ("-", "unique", "scalars", "scalars.unique", "unique.scalars", "mappings", "columns0", "yield_per2", "unique.yield_per2")


# ------------------------------------------------------------------ alphabet

SINGLE = ("next", "iter1", "fetchone", "hold_next")
MANY = ("fetchmany", "part1", "partall")


def alphabet(cfg, tier, long_=False, yp_ops=(), yp_ops_base=()):
    """[(target, name, arg)] simplest first; availability by facet kind"""
    V = cfg.view
    ops = []
    sizes = (1, 2) if tier == "quick" else (1, 2, 3)
    if long_:
        sizes = (1, 2, 5)
    ops.append(("v", "next", None))
    if V.kind != "scalar":
        ops.append(("v", "fetchone", None))
    ops.append(("v", "iter1", None))
    for k in sizes:
        ops.append(("v", "fetchmany", k))
    open_many_ok = True  # ref.enabled() withholds the size-less ops where the batch is unspecified
    if open_many_ok:
        ops.append(("v", "fetchmany", None))
    ops += [("v", "fetchall", None), ("v", "all", None), ("v", "list", None)]
    ops.append(("v", "part1", 2))
    if open_many_ok:
        ops.append(("v", "part1", None))
    ops.append(("v", "partall", 2))
    if open_many_ok and not long_:
        ops.append(("v", "partall", None))
    ops += [("v", "first", None), ("v", "one", None), ("v", "one_or_none", None)]
    if V.kind == "row":
        ops += [("v", "scalar", None), ("v", "scalar_one", None), ("v", "scalar_one_or_none", None)]
    ops.append(("v", "close", None))
    if V.is_base:
        ops.append(("v", "freeze", None))
    ops += [("v", "hold_new", None), ("v", "hold_next", None)]
    if cfg.two_facets and not long_:
        B = cfg.base
        ops += [("b", "fetchone", None), ("b", "fetchmany", 1), ("b", "fetchmany", 2), ("b", "all", None),
                ("b", "first", None), ("b", "one", None), ("b", "scalar_one_or_none", None), ("b", "close", None), ("b", "freeze", None)]
        ops.append(("b", "fetchmany", None))
    # yield_per(k) in the middle of a history, through the object the program talks to and, for
    # filter views, through the parent Result as well
    for k in yp_ops:
        ops.append(("v", "yield_per", k))
    if cfg.two_facets and not long_:
        for k in yp_ops_base:
            ops.append(("b", "yield_per", k))
    return ops


# ------------------------------------------------------------------ implementation side


class Env:
    __slots__ = ("base", "view", "held")


def build(src, variant, idxs, steps):
    env = Env()
    env.base = src.build(variant, idxs)
    env.view = rw.apply_view(env.base, steps, variant)
    env.held = None
    return env


def _item(kind, x, rows_out):
    if kind == "row":
        if not isinstance(x, Row):
            return ("?", type(x).__name__, repr(x))
        rows_out.append(x)
        return ("R", tuple(x))
    if kind == "mapping":
        if not isinstance(x, RowMapping):
            return ("?", type(x).__name__, repr(x))
        return ("M", tuple(x.items()))
    return ("S", x)


def _seq(kind, xs, rows_out):
    if not isinstance(xs, Sequence) or isinstance(xs, (str, bytes, Row)):
        return ("?", type(xs).__name__, repr(xs))
    return ("L", [_item(kind, x, rows_out) for x in xs])


def observe(cfg, env, op):
    """apply op to the implementation; -> (normal form, [Row objects delivered])"""
    target, name, arg = op
    r = env.view if target == "v" else env.base
    F = cfg.facet(target)
    kind = F.kind
    rows_out = []
    try:
        if name == "next":
            return _item(kind, next(r), rows_out), rows_out
        if name == "iter1":
            return _item(kind, next(iter(r)), rows_out), rows_out
        if name == "hold_next":
            return _item(kind, next(env.held), rows_out), rows_out
        if name == "hold_new":
            env.held = iter(r)
            return ("0",), rows_out
        if name == "yield_per":
            x = r.yield_per(arg)
            return (("0",) if x is r else ("?", "yield_per returned %r" % (x,))), rows_out
        if name in ("fetchone", "first", "one", "one_or_none"):
            x = getattr(r, name)()
            if x is None:
                return cfg.none_form(F), rows_out
            return _item(kind, x, rows_out), rows_out
        if name == "fetchmany":
            return _seq(kind, r.fetchmany(arg) if arg is not None else r.fetchmany(), rows_out), rows_out
        if name in ("fetchall", "all"):
            return _seq(kind, getattr(r, name)(), rows_out), rows_out
        if name == "list":
            return _seq(kind, list(r), rows_out), rows_out
        if name == "part1":
            it = r.partitions(arg) if arg is not None else r.partitions()
            return _seq(kind, next(it), rows_out), rows_out
        if name == "partall":
            it = r.partitions(arg) if arg is not None else r.partitions()
            return ("P", [_seq(kind, p, rows_out)[1] for p in it]), rows_out
        if name in ("scalar", "scalar_one", "scalar_one_or_none"):
            return ("S", getattr(r, name)()), rows_out
        if name == "close":
            x = r.close()
            return (("0",) if x is None else ("?", repr(x))), rows_out
        if name == "freeze":
            fr = r.freeze()
            if not isinstance(fr, FrozenResult):
                return ("?", type(fr).__name__), rows_out
            a = _seq("row", fr().all(), rows_out)
            b = _seq("row", fr().all(), [])
            if a != b:
                return ("?", "two re-hydrations differ", a, b), rows_out
            return ("F", a[1]), rows_out
    except Exception as e:  # noqa: BLE001 - the class is the observation
        return ("X", type(e).__name__), rows_out
    raise AssertionError(name)


def replay_ops(cfg, env, ops):
    with warnings.catch_warnings():
        warnings.simplefilter("ignore")
        for op in ops:
            observe(cfg, env, op)


# ------------------------------------------------------------------ known root causes (constant signatures)

F1 = ("unique(): first()/one()/one_or_none()/scalar*() ignore the rows already delivered by earlier fetches "
      "(rows [A, A]: unique().fetchone() -> A, then first() -> A again)")
F2 = ("MergedResult.close()/first() do not close the merged result: later fetches return rows or None "
      "instead of raising ResourceClosedError (MergedResult._soft_close does not call IteratorResult._soft_close)")
F3 = ("ChunkedIteratorResult(dynamic_yield_per=True): fetchmany()/partitions() after a single-row fetch drop the "
      "rest of the chunk buffered in self.iterator (ORM result on a server side cursor loses rows)")
F4 = ("unique().scalar_one()/scalar_one_or_none() de-duplicate on the whole row, not on the scalar "
      "(documented as equivalent to scalars().one()/one_or_none())")
F6 = ("scalar-source result (ORM single entity): a row whose value is None is taken for the end of the result by "
      "fetchone()/next()/first()/one()/scalar*() (select(A).select_from(U).outerjoin(U.addrs): one() raises NoResultFound, "
      "fetchone() returns None although rows follow)")
F5 = ("CursorResult: an iterator obtained before the result was exhausted by another fetch method raises "
      "AttributeError ('NoneType' object has no attribute 'fetchone') instead of StopIteration")


F7 = ("yield_per() on the parent Result after a filter view (scalars()/mappings()) has already fetched without a size: the view's "
      "memoized _manyrow_getter keeps the previous yield_per, so view.fetchmany()/view.partitions() ignore the new batch size")
F8 = ("yield_per(0) (documented: 'a value below 1 fetches all rows for the next buffer'): size-less fetchmany() returns [] and "
      "partitions() yields nothing although rows remain (the non-unique _manyrow_getter passes 0 as the size)")


def _flat_items(form):
    if form[0] == "L":
        return list(form[1])
    if form[0] == "P":
        return [x for p in form[1] for x in p]
    return None


def _is_subseq(small, big):
    it = iter(big)
    return all(any(x == y for y in it) for x in small)


def diagnose(cfg, src, st, hist_, op, obs):
    target, name, arg = op
    F = cfg.facet(target)
    if F.uniq is not None and name in ref.ONE_FAMILY:
        for ign, rowu, sig in ((True, False, F1), (False, True, F4), (True, True, F1)):
            if ign and not any(st.seens[F.uniq]):
                continue
            if rowu and name not in ("scalar_one", "scalar_one_or_none"):
                continue
            alt = ref.apply(cfg, st, target, name, arg, ignore_seen=ign, scalar_row_unique=rowu)
            if ref.match(cfg, alt, obs) is not None:
                return sig
    if src.scalar_source and any(r[0] is None for r in cfg.rows):
        names = [h[1] for h in hist_] + [name]
        if any(x in SINGLE or x in ref.ONE_FAMILY for x in names):
            return F6
    if src.merged and st.closed in ("hard", "any") and obs != ref.RCE and obs[0] != "?":
        return F2
    seq_all = [h[1] for h in hist_] + [name]
    if src.chunked and "yield_per" in seq_all:
        # ChunkedIteratorResult.yield_per() rebuilds self.iterator and so discards the chunk it was in the
        # middle of (TODO in the source): same root cause as F3
        last_yp = max(i for i, x in enumerate(seq_all) if x == "yield_per")
        if any(x not in ("yield_per", "hold_new", "close") for x in seq_all[:last_yp]):
            return F3
    if name in MANY and arg is None:
        got = _flat_items(obs) if obs[0] in ("L", "P") else ([] if obs == ("X", "StopIteration") else None)
        remaining = [cfg.item(F, p) for _, p, _ in ref._scan(cfg, st, F)]
        if got is not None and remaining:
            if target == "v" and cfg.two_facets and got == remaining[:len(got)]:
                ops_ = list(hist_)
                last_b = max((i for i, h in enumerate(ops_) if h[0] == "b" and h[1] == "yield_per"), default=None)
                if last_b is not None and not any(h[0] == "v" and h[1] == "yield_per" for h in ops_[last_b:]) and any(
                        h[0] == "v" and h[1] in MANY for h in ops_[:last_b]):
                    return F7
            if not got and st.yp is not None and st.yp < 1 and F.uniq is None:
                return F8
    if src.dynamic:
        # a single-row fetch left part of a chunk in self.iterator and a later fetchmany()/partitions()
        # replaced that iterator: rows are lost (possibly noticed only by a later op when rows are equal)
        seq = [h[1] for h in hist_] + [name]
        first_single = next((i for i, x in enumerate(seq) if x in SINGLE), None)
        if first_single is not None and any(x in MANY for x in seq[first_single + 1:]):
            return F3
    if src.cursor and name == "hold_next" and obs == ("X", "AttributeError"):
        exp = ref.apply(cfg, st, target, name, arg)
        if exp[0] == "det" and exp[2] == ("X", "StopIteration"):
            return F5
    return None


# ------------------------------------------------------------------ lock-step


def opstr(op):
    t, name, arg = op
    s = name if arg is None and name not in MANY else "%s(%s)" % (name, arg)
    return s if t == "v" else "base." + s


def lockstep(cfg, src, env, st, hist_, op):
    """-> (new_state | None, obs, problem | None, known_sig | None)"""
    target, name, arg = op
    outcome = ref.apply(cfg, st, target, name, arg)
    with warnings.catch_warnings():
        warnings.simplefilter("ignore")
        obs, rows_out = observe(cfg, env, op)
    ns = ref.match(cfg, outcome, obs)
    if ns is None:
        return None, obs, "got %r, reference %s" % (obs, ref.describe(outcome)), diagnose(cfg, src, st, hist_, op, obs)
    # delivered Row objects carry the projected keys
    want_fields = cfg.fields(cfg.base if name == "freeze" else cfg.facet(target))
    for row in rows_out:
        if tuple(row._fields) != want_fields:
            return None, obs, "delivered Row has _fields %r, expected %r" % (tuple(row._fields), want_fields), None
    # closure flag as documented
    if ns.closed != "any":
        want_closed = ns.closed == "hard"
        for who, r in (("view", env.view), ("result", env.base)):
            if bool(r.closed) != want_closed:
                known = F2 if (src.merged and name != "close") else None
                return None, obs, "%s.closed is %r after the op, expected %r" % (who, r.closed, want_closed), known
    return ns, obs, None, None


INCOMPAT_OPS = ("next", "iter1", "fetchone", "fetchmany", "fetchall", "all", "list", "part1", "partall")


class Explorer:
    def __init__(self, rec, src, vname, variant, idxs, tier, long_=False):
        self.rec, self.src, self.vname, self.variant, self.idxs = rec, src, vname, variant, tuple(idxs)
        self.steps = VIEWS[vname]
        self.cfg = ref.Config(src.model_rows(variant, idxs), src.keys, self.steps, yield_per=src.yield_per, scalar_source=src.scalar_source)
        yp_ops = yp_base = ()
        if not (src.orm and variant == "h" and any(s[0] == "unique" for s in self.steps)):  # ORM: yield_per + unique() is refused
            if long_:
                yp_ops = (5,) if tier == "quick" else (2, 5)
            elif src.name in YP_SOURCES_Q and vname in YP_VIEWS_Q and len(self.idxs) <= 3:
                yp_ops = (1, 2) if tier == "quick" else (1, 2, 3)
                if YP_ZERO:
                    yp_ops += (0,)
                if YP_PARENT_OPS:
                    yp_base = (1,)
        # a live iterator and a mid-history yield_per are explored separately (deviation bound 1)
        self.cfg.separate_features = True
        self.ops = alphabet(self.cfg, tier, long_, yp_ops, yp_base)
        self.cfgkey = (src.name, vname, variant, self.idxs)
        self.long_ = long_
        # documented: "Can't use the ORM yield_per feature in conjunction with unique()" (the ORM's own
        # uniquing strategy; an explicit strategy= is not affected)
        self.incompat = bool(src.orm and self.cfg.yield_per and variant == "h" and any(s[0] == "unique" for s in self.steps))

    def case_dict(self, hist_, op):
        return dict(source=self.src.name, view=self.vname, variant=self.variant, rows=list(self.idxs),
                    history=[list(h) for h in hist_], op=list(op), long=self.long_)

    def key(self, env, ms, tag):
        return (self.cfgkey, ref.canon(self.cfg, ms[0]), rw.fingerprint(env.base, env.view), tag)

    def root(self):
        env = build(self.src, self.variant, self.idxs, self.steps)
        st = self.cfg.initial()
        problem = None
        # keys() of the freshly built view
        for who, obj, F in (("result", env.base, self.cfg.base), ("view", env.view, self.cfg.view)):
            if hasattr(obj, "keys") and F.kind != "scalar":
                got = tuple(obj.keys())
                if got != self.cfg.fields(F):
                    problem = "%s.keys() is %r, expected %r" % (who, got, self.cfg.fields(F))
        if problem:
            self.rec.violation("%s view=%s: %s" % (self.src.name, self.vname, problem), problem, self.case_dict((), ("v", "close", None)), kind=("keys", self.vname))
            return []
        ms = (st, ())
        return [((), ms, self.key(env, ms, ()))]

    def enabled(self, ms):
        if self.incompat:
            return [op for op in self.ops if op[1] in INCOMPAT_OPS and self.cfg.facet(op[0]).uniq is not None]
        return ref.enabled(self.cfg, ms[0], self.ops)

    def step(self, hist_, ms, op):
        rec, cfg, src = self.rec, self.cfg, self.src
        st, tag = ms
        env = build(src, self.variant, self.idxs, self.steps)
        replay_ops(cfg, env, hist_)
        if self.incompat:
            with warnings.catch_warnings():
                warnings.simplefilter("ignore")
                obs, _ = observe(cfg, env, op)
            rec.case((self.cfgkey, "incompat", op), nontrivial=False)
            rec.outcome(("incompat", op[1], repr(obs)))
            if obs != ("X", "InvalidRequestError"):
                rec.violation("%s view=%s: ORM yield_per with unique(): %s -> got %r, documented InvalidRequestError" % (src.name, self.vname, opstr(op), obs),
                              repr(obs), self.case_dict(hist_, op), kind=("incompat", op[1]))
            return None
        ns, obs, problem, known = lockstep(cfg, src, env, st, hist_, op)
        mid = 0 < st.pos < cfg.n
        rec.case((self.cfgkey, ref.canon(cfg, st), op), nontrivial=mid and cfg.n >= 2)
        rec.outcome((cfg.view.kind, op[1], repr(obs)))
        if problem is not None:
            desc = "%s view=%s rows=%s: %s" % (src.name, self.vname, [rw.UNIVERSE[self.variant][i] for i in self.idxs],
                                               " ; ".join(opstr(h) for h in tuple(hist_) + (op,)))
            if known is not None:
                rec.violation(known, "minimal case in this shard: %s -> %s" % (desc, problem), self.case_dict(hist_, op), kind=known)
            else:
                rec.violation("%s -> %s" % (desc, problem), problem, self.case_dict(hist_, op), kind=(op[1], obs[0], obs[1] if obs[0] == "X" else None))
            return None
        if mid and len(hist_) >= 2 and (cfg.view.uniq is not None or src.cursor):
            rec.sample(dict(source=src.name, view=self.vname, rows=[list(rw.UNIVERSE[self.variant][i]) for i in self.idxs],
                            ops=[opstr(h) for h in tuple(hist_) + (op,)], last=repr(obs)), limit=3)
        if src.dynamic and st.pos < cfg.n and st.closed == "open":
            # hidden state of the dynamic chunk iterator: size of the chain in use and how many
            # single-row fetches went through it
            if op[1] in MANY:
                tag = (op[2] if op[2] is not None else st.yp, 0)
            elif op[1] == "yield_per":
                tag = (op[2], 0)
            elif op[1] in SINGLE:
                tag = ((tag[0] if tag else st.yp), (tag[1] if tag else 0) + 1)
        nms = (ns, tag)
        return nms, self.key(env, nms, tag)


# ------------------------------------------------------------------ driver

CORE_SOURCES_Q = ["iter", "iter_s", "chunk", "chunk_dyn", "cur", "cur_sr1", "cur_sr2", "cur_yp2", "cur_full",
                  "frozen", "frozen_cur", "frozen_c10", "merged", "merged0", "orm", "orm_ss_sr", "orm_ss_yp2"]
EXTRA_SOURCES_T = ["chunk_s", "cur_sr3", "cur_ss", "frozen_uniq", "merged_n", "merged3", "merged_cur", "orm_yp2"]
U_SOURCES = ["iter", "cur", "cur_sr1", "frozen_cur", "merged", "orm"]
U_VIEWS = ["-", "unique", "scalars.unique", "mappings.unique", "columns10", "unique.yield_per2"]
LONG_SOURCES = ["cur", "cur_sr", "cur_sr2", "cur_sr7", "cur_yp2", "cur_full", "orm_yp2", "orm_ss_yp2", "iter"]
LONG_VIEWS = ["-", "unique", "scalars"]


ORM_VIEWS = ("-", "unique", "unique_s", "scalars", "scalars.unique", "mappings", "columns10", "yield_per2", "unique.yield_per2")


# Two further op families are implemented but switched off, because on the unchanged tree each of them
# shows a (minor) discrepancy that is not among the registered findings - see F7 / F8 and the report:
YP_PARENT_OPS = False  # yield_per() through the parent Result of a filter view
YP_ZERO = False        # yield_per(0), documented as "fetch all rows for the next buffer"
YP_SOURCES_Q = ("iter", "chunk", "chunk_dyn", "cur", "cur_sr1", "orm")
YP_VIEWS_Q = ("-", "unique", "yield_per2", "scalars", "mappings")
PRIMARY_Q = ("iter", "chunk", "cur", "cur_sr1", "frozen_cur", "merged")
SECONDARY_VIEWS_Q = ("-", "unique", "scalars", "scalars.unique", "unique.mappings", "columns10", "yield_per2", "unique.yield_per2")


def views_for(src, tier):
    if len(src.keys) == 1:
        return list(VIEWS_1COL)
    if src.orm:
        return list(ORM_VIEWS)
    if tier == "quick" and src.name not in PRIMARY_Q:
        return list(SECONDARY_VIEWS_Q)
    names = [v for v in VIEWS if v != "columns0"]
    if tier == "quick":
        names = [v for v in names if v not in ("yield_per1", "scalars.unique.yield_per2", "scalars1")]
    return names


def shards(tier, seed):
    out = []
    srcs = CORE_SOURCES_Q + (EXTRA_SOURCES_T if tier == "thorough" else [])
    for s in srcs:
        for v in views_for(rw.SOURCES[s], tier):
            if rw.SOURCES[s].orm and rw.SOURCES[s].dynamic and rw.SOURCES[s].yield_per is None and VIEWS[v] and any(x[0] == "unique" for x in VIEWS[v]) and not any(x[0] == "yield_per" for x in VIEWS[v]):
                # the ORM treats fetchmany(n) on a server side cursor as yield_per: same documented
                # incompatibility, raised only by some ops; not modelled
                continue
            out.append(("std", s, v, "h"))
    for s in U_SOURCES:
        for v in U_VIEWS:
            out.append(("std", s, v, "u"))
    for s in LONG_SOURCES:
        for v in LONG_VIEWS:
            out.append(("long", s, v, "h"))
    return out


def run_shard(shard, tier, rec):
    kind, sname, vname, variant = shard
    src = rw.SOURCES[sname]
    if kind == "long":
        ex = Explorer(rec, src, vname, variant, rw.LONG_ROWS, tier, long_=True)
        d = hist.explore(rec, ex.root(), ex.enabled, ex.step, depth=None)
        rec.count("long_shards_reaching_fixpoint_at_depth_%02d" % d)
        return
    maxlen = 3 if tier == "quick" else 4
    if tier == "quick" and (variant == "u" or src.orm):
        maxlen = 2
    elif src.orm or variant == "u":
        maxlen = 3
    maxd = 0
    for idxs in rw.all_rowsets(maxlen):
        ex = Explorer(rec, src, vname, variant, idxs, tier)
        d = hist.explore(rec, ex.root(), ex.enabled, ex.step, depth=None)
        maxd = max(maxd, d)
        rec.count("configurations")
    rec.count("shards_reaching_fixpoint_at_depth_%02d" % maxd)


def replay(case):
    from ..core import Rec

    src = rw.SOURCES[case["source"]]
    idxs = tuple(case["rows"])
    rec = Rec(ID)
    ex = Explorer(rec, src, case["view"], case["variant"], idxs, "thorough", long_=case.get("long", False))
    cfg = ex.cfg
    hist_ = [tuple(h) for h in case["history"]]
    op = tuple(case["op"])
    env = build(src, case["variant"], idxs, ex.steps)
    st = cfg.initial()
    out = []
    done = []
    if ex.incompat:
        with warnings.catch_warnings():
            warnings.simplefilter("ignore")
            obs, _ = observe(cfg, env, op)
        if obs != ("X", "InvalidRequestError"):
            out.append(("%s view=%s: ORM yield_per with unique(): %s -> got %r, documented InvalidRequestError" % (src.name, case["view"], opstr(op), obs), repr(obs)))
        return out
    for h in hist_ + [op]:
        ns, obs, problem, known = lockstep(cfg, src, env, st, done, h)
        if problem is not None:
            desc = "%s view=%s rows=%s: %s" % (src.name, case["view"], [rw.UNIVERSE[case["variant"]][i] for i in idxs],
                                               " ; ".join(opstr(x) for x in done + [h]))
            out.append((known or "%s -> %s" % (desc, problem), "%s -> %s" % (desc, problem)))
            break
        st = ns
        done.append(h)
    return out
