"""C47 with autoflush on, queries see all pending changes (engine H, differential).

At every state with pending changes reached by the bounded history explorer (C30 alphabet, enumerated on the
reference model, from empty and from populated committed roots), every probe of a fixed probe family is executed on
fresh replicas of that state through two routes the property names:

  A  autoflush route : the probe, on the ``autoflush=True`` session as it is;
  B  explicit route  : ``session.flush()`` first, then the probe.

Oracle: identical probe results, identical database inside the transaction, identical database and identical
freshly loaded graph after a final commit; if the explicit flush raises, route A must raise the same error class.
Suppression: the same probes inside ``with session.no_autoflush``, with ``execution_options(autoflush=False)`` /
``Query.autoflush(False)`` and with ``session.autoflush = False`` must agree with each other, must not flush
(no flush event, ``new``/``dirty``/``deleted`` unchanged) and must leave the database unchanged.

Probes: 2.0-style ``select`` of every class (ordered), legacy ``Query.all()``, ``select ... where fk == v``,
``Session.get`` of every universe identity (pending, persistent, deleted and absent ones), lazy load of every
relationship of every persistent object, ``count(*)``, relationship ``any()`` / ``has()``, ``exists``-style scalar,
bulk ``UPDATE`` and bulk ``DELETE`` through ``session.execute``.

Mutations caught (VF_REPO=/tmp/wt-orm2):
  * Session._autoflush: skipped when only deletes are pending -> "result" (select/query/count still see the deleted row)
  * strategies._LazyLoader._emit_lazyload: lazy loads never autoflush -> "result" / "database" for lazy probes
  * context.ORMCompileState.orm_pre_session_exec: no autoflush for statements with WHERE criteria -> get / where_fk / any probes
  * bulk_persistence: bulk UPDATE/DELETE without autoflush -> bulk probes
  * Session.no_autoflush: block does not switch autoflush off -> "suppressed-route-block-flushed"
  * context: execution option autoflush=False ignored -> "suppressed-route-option-flushed"
"""
import sqlalchemy as sa
from sqlalchemy import exc as sa_exc
from sqlalchemy import inspect as sa_inspect

from ..worlds import ormworld2 as ow
from . import c30
from . import c32

ID = "C47"
LEVEL = "model_checking"
META = dict(
    engine="H",
    technique="bounded exhaustive history exploration with a differential oracle between the two routes the property names "
    "(autoflush vs explicit flush), on fresh replicas of every reached state",
    design_ref="DESIGN.md §5 C47",
    level_text="Every state with pending changes within the history bound x every probe is executed through both routes on fresh "
    "databases; results, transaction view, committed database and re-loaded graph are compared. Complete for the bound.",
    level_note="Trusted: the replayer and the raw table readers. The reference model only enumerates applicable operations; it "
    "is not part of the oracle. Probes are read-only except the two bulk statements, which are checked on their own replicas.",
    rule="state = canonical model state reached by a history; transition = one (state, probe, route) execution; a case is "
    "non-trivial when the explicit route's flush wrote at least one statement (there was something to autoflush) and the probe's "
    "answer differs from the answer without any flush (autoflush was observable)",
    assumptions=["SQLite", "single session", "probe family as listed"],
    bounds=dict(
        quick="worlds U1(su, all+orphan) U2 U3 U5 U8; histories <= 2 ops after the empty and the populated committed root; all probes",
        thorough="plus U7 U4 U1(all) U5(passive_updates=False) U3(su) U2(su), three roots; histories <= 2 ops (<= 3 for U1 save-update after the populated root); all probes",
    ),
)
SHARD_TIMEOUT = dict(quick=600, thorough=3000)

KINDS = ("add", "delete", "set", "rel", "flush")


def world_keys(tier):
    SU, ALL, ORPH = c30.SU, c30.ALL, c30.ORPH
    ks = [("U1", SU), ("U1", ORPH), ("U3", ORPH), ("U2", ALL), ("U5", True, SU), ("U8", ALL)]
    if tier != "quick":
        ks += [("U7", ORPH), ("U4", ORPH), ("U1", ALL), ("U5", False, SU), ("U3", SU), ("U2", SU)]
    return ks


def shards(tier, seed):
    out = []
    for wk in world_keys(tier):
        for ri in range(len(c30.ROOTS[wk[0]])):
            if tier == "quick" and ri >= 2:
                continue
            deep = tier != "quick" and wk == ("U1", c30.SU) and ri == 1
            out.append(dict(world=wk, root=ri, depth=3 if deep else 2))
    return out


# ---------------------------------------------------------------- probes


def probes_for(w):
    spec = w.spec
    ps = []
    for cname, c in spec.cls.items():
        if c.base is None:
            ps.append(("select_all", cname))
            ps.append(("query_all", cname))
            ps.append(("count", cname))
            ps.append(("select_cols", cname))
    seen = set()
    for n, cname, kw in w.universe:
        ident = (spec.root(cname), kw[spec.cls[cname].pk])
        if ident not in seen:
            seen.add(ident)
            ps.append(("get", spec.root(cname), kw[spec.cls[cname].pk]))
    for cname in spec.cls:
        if spec.cls[cname].base is None:
            sample = [kw2[spec.cls[c2].pk] for n2, c2, kw2 in w.universe if spec.root(c2) == cname][0]
            ps.append(("get", cname, "zz" if isinstance(sample, str) else 99))
    for l in spec.links:
        tpk = [kw[spec.cls[c].pk] for n, c, kw in w.universe if spec.isa(c, l.target)][0]
        ps.append(("where_fk", l.holder, l.fk, tpk))
        ps.append(("where_fk", l.holder, l.fk, None))
        if l.o2m:
            ps.append(("any" if l.uselist else "has", l.target, l.o2m))
        if l.m2o:
            ps.append(("has", l.holder, l.m2o))
    for m in spec.m2ms:
        ps.append(("any", m.left, m.lkey))
        ps.append(("join_m2m", m.left, m.lkey))
    for n, cname, kw in w.universe:
        for key, uselist in spec.rels_of(cname):
            ps.append(("lazy", n, key))
    return ps


BULK = [("bulk_update",), ("bulk_delete",)]


def _val(run, x):
    if x is None or isinstance(x, (int, str, float)):
        return x
    if isinstance(x, (list, tuple)) or hasattr(x, "_sa_adapter"):
        return [_val(run, i) for i in x]
    if hasattr(x, "_sa_instance_state"):
        return "@" + run.name_of(x)
    return repr(x)


def run_probe(run, p, route):
    """-> ('ok', value) | ('exc', class name).  route: None | 'block' (no_autoflush) | 'option' (per-statement)"""
    s = run.session
    w = run.w
    k = p[0]
    eo = dict(autoflush=False) if route == "option" else {}

    def go():
        if k == "select_all":
            cls = w.classes[p[1]]
            pkc = getattr(cls, w.spec.cls[p[1]].pk)
            return _val(run, s.scalars(sa.select(cls).order_by(pkc), execution_options=eo).all())
        if k == "query_all":
            cls = w.classes[p[1]]
            pkc = getattr(cls, w.spec.cls[p[1]].pk)
            q = s.query(cls).order_by(pkc)
            if route == "option":
                q = q.autoflush(False)
            return _val(run, q.all())
        if k == "select_cols":
            cls = w.classes[p[1]]
            c = w.spec.cls[p[1]]
            cols = [getattr(cls, a) for a in sorted(c.cols)]
            return [tuple(r) for r in s.execute(sa.select(*cols).order_by(getattr(cls, c.pk)), execution_options=eo).all()]
        if k == "count":
            cls = w.classes[p[1]]
            return s.scalar(sa.select(sa.func.count()).select_from(cls), execution_options=eo)
        if k == "get":
            cls = w.classes[p[1]]
            if route == "option":
                return _val(run, s.get(cls, p[2], execution_options=eo))
            return _val(run, s.get(cls, p[2]))
        if k == "where_fk":
            cls = w.classes[p[1]]
            pkc = getattr(cls, w.spec.cls[p[1]].pk)
            col = getattr(cls, p[2])
            crit = col.is_(None) if p[3] is None else col == p[3]
            return _val(run, s.scalars(sa.select(cls).where(crit).order_by(pkc), execution_options=eo).all())
        if k in ("any", "has"):
            cls = w.classes[p[1]]
            pkc = getattr(cls, w.spec.cls[p[1]].pk)
            rel = getattr(cls, p[2])
            crit = rel.any() if k == "any" else rel.has()
            return _val(run, s.scalars(sa.select(cls).where(crit).order_by(pkc), execution_options=eo).all())
        if k == "join_m2m":
            cls = w.classes[p[1]]
            pkc = getattr(cls, w.spec.cls[p[1]].pk)
            rel = getattr(cls, p[2])
            return _val(run, s.scalars(sa.select(cls).join(rel).order_by(pkc), execution_options=eo).unique().all())
        if k == "lazy":
            inst = run.objs[p[1]]
            v = getattr(inst, p[2])
            return sorted(_val(run, v), key=repr) if isinstance(v, list) or hasattr(v, "_sa_adapter") else _val(run, v)
        if k == "bulk_update":
            out = []
            for cname, cls in w.classes.items():
                if w.spec.cls[cname].base is None:
                    dc = w.spec.data_col(cname)
                    r = s.execute(sa.update(cls).values({dc: "bulk"}), execution_options=eo)
                    out.append((cname, r.rowcount))
            return out
        if k == "bulk_delete":
            out = []
            for l in w.spec.links:
                cls = w.classes[l.holder]
                col = getattr(cls, l.fk)
                r = s.execute(sa.delete(cls).where(col.is_(None)), execution_options=eo)
                out.append((l.holder, r.rowcount))
            for cname, cls in w.classes.items():
                if w.spec.cls[cname].base is None:
                    dc = getattr(cls, w.spec.data_col(cname))
                    r = s.execute(sa.delete(cls).where(dc == "no such value"), execution_options=eo)
                    out.append((cname, r.rowcount))
            return out
        raise AssertionError(p)

    import warnings

    with warnings.catch_warnings():
        warnings.simplefilter("ignore")
        try:
            if route == "block":
                with s.no_autoflush:
                    return ("ok", go())
            return ("ok", go())
        except sa_exc.SQLAlchemyError as e:
            return ("exc", type(e).__name__)
        except AssertionError as e:
            # an assert inside the library: reported by the caller with the history
            return ("crash", "AssertionError: %s" % e)


def replica(w, h):
    run = ow.Run(w, mode="memory", autoflush=True)
    for op in h:
        out = run.apply(op)
        if out[0] == "exc":
            run.close()
            return None
    return run


def end_state(run):
    """-> (transaction view, commit outcome, committed rows, fresh graph)"""
    try:
        tv = run.rows()
    except sa_exc.SQLAlchemyError as e:
        return ("exc", type(e).__name__)
    out = run.apply(("commit",))
    if out[0] == "exc":
        return (tv, "commit raised " + type(out[1]).__name__)
    with run.engine.connect() as c:
        committed = ow.read_rows(c.connection.dbapi_connection, w=run.w)
    return (tv, "ok", committed, run.fresh_graph())


def pending_sig(run):
    s = run.session
    return (sorted(run.name_of(x) for x in s.new), sorted(run.name_of(x) for x in s.dirty), sorted(run.name_of(x) for x in s.deleted))


def check_state(rec, w, shard, h, probes):
    wk = repr(shard["world"])
    case0 = dict(shard=shard, history=[list(o) for o in h])

    def viol(kind, p, text):
        rec.violation("%s: %s probe=%s | after %s" % (wk, kind, "/".join(str(x) for x in p), ow.fmt_hist(h)), text, dict(case0, probe=list(p)), kind=(wk, kind, p[0]))

    # ---- route B for all read-only probes on one replica
    rb = replica(w, h)
    if rb is None:
        rec.count("states_skipped")
        return
    rec.state((wk, h))
    nfl = rb.nflush
    plan = rb.plan
    plan.arm()
    fo = rb.apply(("flush",))
    plan.disarm()
    wrote = plan.counts["dml"]
    flush_err = type(fo[1]).__name__ if fo[0] == "exc" else None
    if flush_err is None and (rb.session.new or rb.session.dirty or rb.session.deleted):
        # flush() itself left work behind: the two routes cannot be compared (the probe of route B would flush again)
        rec.violation(F4_SIG, "%s: after flush() new=%r dirty=%r deleted=%r | after %s" % (
            wk, sorted(rb.name_of(x) for x in rb.session.new), sorted(rb.name_of(x) for x in rb.session.dirty),
            sorted(rb.name_of(x) for x in rb.session.deleted), ow.fmt_hist(h)), dict(case0, probe=["flush-incomplete"]))
        rb.close()
        return
    b_results = {}
    if flush_err is None:
        # a lazy load on an object that this very flush deletes is not a query about pending changes
        gone = {n for n in rb.objs if rb.life(n) in "XD"}
        probes = [p for p in probes if not (p[0] == "lazy" and p[1] in gone)]
        for p in probes:
            b_results[p] = run_probe(rb, p, None)
        b_fin = end_state(rb)
    rb.close()
    # ---- suppressed routes, one replica each (nothing is flushed, probes are read-only)
    sup = {}
    for route in ("block", "option", "attr"):
        r = replica(w, h)
        if route == "attr":
            r.session.autoflush = False
        before = (pending_sig(r), r.rows(), r.nflush)
        res = {}
        for p in probes:
            if route == "option" and p[0] == "lazy":
                continue
            res[p] = run_probe(r, p, route if route != "attr" else None)
            rec.transition()
        after = (pending_sig(r), r.rows(), r.nflush)
        if before != after:
            viol("suppressed-route-%s-flushed" % route, ("*",), "before %r after %r" % (before, after))
        sup[route] = res
        r.close()
    for p in probes:
        vals = {route: sup[route].get(p) for route in sup if p in sup[route]}
        if len({repr(v) for v in vals.values()}) > 1:
            viol("suppression-routes-disagree", p, repr(vals))
    # ---- route A: one replica per probe
    for p in probes:
        ra = replica(w, h)
        ra.plan.arm()
        a = run_probe(ra, p, None)
        ra.plan.disarm()
        rec.transition(2)
        rec.trace()
        if a[0] == "crash":
            if "flush context" in a[1]:
                rec.violation(F10_SIG, "%s: %s probe=%s | after %s" % (wk, a[1], "/".join(str(x) for x in p), ow.fmt_hist(h)), dict(case0, probe=list(p)))
            else:
                viol("crash", p, a[1])
            ra.close()
            continue
        if ra.plan.counts["sel"] == 0 and a[0] == "ok":
            # answered from memory (identity-map hit of get(), relationship already loaded): nothing was "executed",
            # the property does not apply
            rec.count("answered_from_memory")
            rec.case((wk, h, p), nontrivial=False)
            ra.close()
            continue
        if flush_err is not None:
            # the explicit flush fails: the autoflush must fail the same way (lazy loads of non-persistent objects and
            # identity-map hits do not need to flush)
            touched = ra.nflush > 0 or a[0] == "exc"
            if a[0] == "ok" and _must_flush(p, ra):
                viol("autoflush-missing-on-failing-flush", p, "explicit flush raises %s, probe returned %r" % (flush_err, a[1]))
            rec.case((wk, h, p), nontrivial=a[0] == "exc")
            rec.outcome(("flush-error", a[0]))
            ra.close()
            continue
        b = b_results[p]
        observable = repr(sup["attr"].get(p)) != repr(b)
        rec.case((wk, h, p), nontrivial=wrote > 0 and observable)
        rec.outcome((p[0], a[0], observable))
        if a == b and a[0] == "exc":
            pass  # both routes refuse the probe the same way
        elif a != b and not _exempt(p, a, b, ra):
            viol("result", p, "autoflush route %r, flush-then-probe route %r" % (a, b))
        else:
            a_fin = end_state(ra)
            if a_fin != b_fin:
                viol("database", p, "after autoflush route %r, after explicit route %r" % (a_fin, b_fin))
            elif wrote > 0 and observable:
                rec.sample(dict(world=wk, history=ow.fmt_hist(h), probe=list(p), with_flush=repr(b)[:160], without=repr(sup["attr"].get(p))[:160]), limit=5)
        ra.close()
    # ---- bulk statements: both routes on their own replicas
    if flush_err is None:
        for p in BULK:
            ra = replica(w, h)
            a = run_probe(ra, p, None)
            a_fin = end_state(ra)
            ra.close()
            rb = replica(w, h)
            rb.apply(("flush",))
            b = run_probe(rb, p, None)
            b_fin2 = end_state(rb)
            rb.close()
            rec.transition(2)
            rec.case((wk, h, p), nontrivial=wrote > 0)
            if a != b:
                viol("result", p, "autoflush route %r, flush-then-statement route %r" % (a, b))
            elif a_fin != b_fin2:
                viol("database", p, "after autoflush route %r, after explicit route %r" % (a_fin, b_fin2))


F4_SIG = ("flush() leaves pending work behind: the DELETE of an object that was appended to a collection of a persistent parent "
          "in the same flush is postponed to the next flush")


F10_SIG = ("AssertionError 'Failed to add object to the flush context!': session.delete(x) autoflushes while it collects the delete "
           "cascade, that flush deletes x as an orphan, delete() then marks the already deleted x again and the next flush asserts")


def _must_flush(p, run):
    """does this probe have to reach the database at all?  get() of an identity that is in the identity map and
    lazy loads that are answered from memory do not, and need not autoflush"""
    if p[0] in ("get", "lazy"):
        return False
    return True


def _exempt(p, a, b, run):
    return False


def run_shard(shard, tier, rec):
    w = ow.world(shard["world"])
    root = tuple(c30.ROOTS[shard["world"][0]][shard["root"]])
    probes = probes_for(w)
    rec.count("probes_per_state", 0)
    orig = c32.TXN_KINDS
    for h, ms in c32.enumerate_histories(w, root, shard["depth"], True, False):
        exp = ms.expect_flush(af=True)
        if any(tag for tag, _ in exp["outcomes"]) or exp.get("known_err") or exp.get("known_any") or (exp["error"] and not exp["must_error"]):
            # the flush of this state runs into a catalogued load-order dependent defect (f1 f3 f6 f7 f9; C30 / C39) or has
            # an open outcome: two replicas of the same state need not agree, whichever route they take
            rec.count("states_skipped_catalogued_or_open")
            continue
        check_state(rec, w, shard, h, probes)


def _tup(x):
    return tuple(_tup(i) for i in x) if isinstance(x, list) else x


def replay(case):
    from ..core import Rec

    shard = case["shard"]
    shard["world"] = _tup(shard["world"])
    w = ow.world(shard["world"])
    h = tuple(_tup(o) for o in case["history"])
    rec = Rec(ID)
    p = _tup(case.get("probe"))
    probes = [q for q in probes_for(w) if q == p] or probes_for(w)
    check_state(rec, w, shard, h, probes)
    return [(v["sig"], v["detail"]) for v in rec.violations]
