"""C53 horizontal sharding routes reads and writes per the shard choosers.

Engine H: for every shard-chooser function from the 4-element key domain to the
shards (2 shards: 16, 3 shards: 81) x identity-chooser order x execute-chooser
kind, BFS over operation histories on a real ShardedSession over in-memory
SQLite shards, in lock-step with a small reference model (rows keyed by
(id, k); the shard of a row is *derived* as chooser(k)).

Checked after every operation:
  * placement: the raw contents of every shard (read on the shard's own DBAPI
    connection) equal the model's rows whose chooser value is that shard --
    i.e. every flushed object was written to exactly the shard the shard
    chooser selects, updates/deletes hit the object's own shard, nothing else
    changed anywhere;
  * queries return exactly the union (as a multiset of (id, k, v, identity
    token)) of the matching rows of the shards the execute chooser selects;
  * objects with equal primary keys from different shards are distinct
    objects with distinct identity tokens, each carrying its own row;
  * get(): identity-map hit in identity-chooser order, else the row from the
    chosen shards (two candidates: either one of them or MultipleResultsFound);
  * lazy loads (chooser honours lazy_loaded_from, as documented) see only the
    parent's shard (a decoy child row with the same foreign key sits in
    another shard); refresh reloads from the object's own shard;
  * bulk UPDATE through the session changes exactly the chosen shards'
    matching rows and keeps loaded objects in sync;
  * merge family (second alphabet, same configurations): detached objects
    loaded from each shard by an earlier ShardedSession (identity key with
    token), modified, then merge()d -- the merge target is the object of the
    source's own shard (same identity key incl. token; a new pending object
    if that shard's row is gone), never a same-pk object of another shard,
    those are left untouched, and the flush writes to the source's shard
    only (placement).

Mutations caught (private copy, `VF_REPO=/tmp/wt-bulk/c53 ./check C53`):
  h1 ext/horizontal_shard.py iter_for_shard: `update_execution_options(identity_token=shard_id)` dropped
     -> get-wrong-object, token-mismatch, query-union
  h2 ext/horizontal_shard.py _identity_lookup: identity chooser's answer walked in reverse
     -> get-wrong-object (after ['get7'] then get7, same pk on two shards)
  h3 ext/horizontal_shard.py _choose_shard_and_assign: chosen shard no longer stored in state.identity_token
     -> placement, placement-child (after ['addAC', 'mod1'] then get3)
  h4 orm/strategies.py lazy loader: `"_lazy_loaded_from": state` dropped from the load options
     -> lazy-load-shard (decoy child from the other shard shows up), placement-child
  h5 orm/bulk_persistence.py _get_matched_objects_on_criteria: identity-token filter dropped
     -> stale-object (after ['get7t'] then updk3 with the subset execute chooser)
  h6 orm/session.py _merge: `identity_token=key[2]` dropped from the get() that loads the merge target (seeded C53-a)
     -> merge-raised (after [] then mrg70), merge-wrong-identity / merge-touched-other-shard (after ['get7t'] then mrg70),
        token-mismatch (subset execute chooser, after [] then mrg73)
"""
from __future__ import annotations

import gc
import itertools
import sqlite3

from sqlalchemy import ForeignKey
from sqlalchemy import Integer
from sqlalchemy import String
from sqlalchemy import create_engine
from sqlalchemy import inspect
from sqlalchemy import select
from sqlalchemy import update
from sqlalchemy.ext.horizontal_shard import ShardedSession
from sqlalchemy.orm import DeclarativeBase
from sqlalchemy.orm import exc as orm_exc
from sqlalchemy.orm import mapped_column
from sqlalchemy.orm import relationship
from sqlalchemy.pool import StaticPool
from sqlalchemy.sql import operators
from sqlalchemy.sql import visitors

from ..engines import hist

ID = "C53"
LEVEL = "model_checking"
META = dict(
    engine="H",
    technique="explicit-state BFS over ShardedSession operation histories by replay, per chooser configuration, reference "
    "model in lock-step; raw per-shard SQL as ground truth",
    design_ref="DESIGN.md §5 C53",
    level_text="All shard-chooser functions {0,1,2,3} -> shards (16 for two shards, 81 for three) x identity-chooser order "
    "(forward / reverse) x execute chooser (all shards / by criterion on the key column / fixed subset) are crossed with all "
    "operation histories up to the depth over an alphabet of 21 operations (add objects incl. two with the same primary key "
    "and a parent with a child, flush, commit, get by pk with and without identity token, queries with and without key "
    "criterion, lazy load, modify, delete, refresh, bulk UPDATE); the pre-loaded data set has the "
    "same primary key on two shards and a decoy child row in the wrong shard. A second family per configuration uses an "
    "alphabet of 10 operations around Session.merge(): merge of a detached, modified object that an earlier ShardedSession "
    "loaded from a given shard (the two objects sharing primary key 7 on different shards, and the unique-pk object 1) "
    "x flush, commit, get with/without token, query, modify, delete. Each history is replayed on a real "
    "ShardedSession over in-memory SQLite shards; states are deduplicated on a canonical form taken from the implementation "
    "(raw shard contents, identity map with tokens and loaded values, new/dirty/deleted sets).",
    level_note="Trusted: the ~150-line model; SQLite in-memory databases as shards. Choosers follow the documented recipe "
    "(lazy_loaded_from honoured by identity and execute chooser). Not covered: set_shard_id option, legacy ShardedQuery, "
    "multi-threaded use, merge(load=False), merge cascading along relationships (detached sources have no collection loaded).",
    rule="state = canonical implementation state (see above); transition = one operation applied to a replayed history with "
    "all invariants checked; non-trivial = the operation touched the database while rows with that key/pk existed on more "
    "than one shard or the chooser excluded a shard that holds matching rows",
    assumptions=["shard chooser is a pure function of the object's key column", "single session, single thread"],
    bounds=dict(
        quick="2 shards: all 16 shard choosers x 2 identity orders x 3 execute choosers; histories <= 3 operations over the "
        "21-operation alphabet, and histories <= 3 over the 10-operation merge alphabet",
        thorough="3 shards: all 81 shard choosers x 2 x 3, histories <= 3 operations; 2 shards: all 96 configurations <= 3, "
        "histories <= 4 for 4 choosers x (by-criterion, subset) execute choosers; merge alphabet: 3 shards all 486 "
        "configurations <= 3, 2 shards all 96 configurations <= 3 and <= 4 for 4 choosers x forward identity order",
    ),
)
SHARD_TIMEOUT = dict(quick=300, thorough=1700)


class Base(DeclarativeBase):
    pass


class Item(Base):
    __tablename__ = "item"
    id = mapped_column(Integer, primary_key=True, autoincrement=False)
    k = mapped_column(Integer, nullable=False)
    v = mapped_column(String)
    parts = relationship("Part", back_populates="item", order_by="Part.id")


class Part(Base):
    __tablename__ = "part"
    id = mapped_column(Integer, primary_key=True, autoincrement=False)
    item_id = mapped_column(ForeignKey("item.id"))
    note = mapped_column(String)
    item = relationship("Item", back_populates="parts")


ALL = ("s0", "s1", "s2")
_SH = {}


def shard_engines(n):
    """n in-memory databases per process; the harness keeps the DBAPI connection
    to read raw contents (uncommitted included) without going through the pool"""
    for name in ALL[:n]:
        if name not in _SH:
            raw = sqlite3.connect(":memory:", check_same_thread=False)
            eng = create_engine("sqlite://", creator=lambda raw=raw: raw, poolclass=StaticPool)
            Base.metadata.create_all(eng)
            _SH[name] = (eng, raw)
    return {name: _SH[name] for name in ALL[:n]}


# ------------------------------------------------------------------ configuration


class Config:
    def __init__(self, n, f, idc, exc, fam="base"):
        self.n, self.f, self.idc, self.exc, self.fam = n, tuple(f), idc, exc, fam
        self._det = None  # merge family: detached objects loaded from each shard by an earlier session
        self.names = ALL[:n]
        self.subset = self.names[: max(1, n - 1)]  # the fixed subset: all but the last shard

    def shard_of_key(self, k):
        return self.names[self.f[k]]

    def initial_rows(self):
        rows = {(1, 1): "one", (2, 2): "two", (7, 0): "x"}
        if self.f[0] != self.f[3]:
            rows[(7, 3)] = "y"  # the same primary key on two shards
        return rows

    def initial_parts(self):
        home = self.shard_of_key(1)
        other = self.names[(self.f[1] + 1) % self.n]
        return {10: (1, "p", home), 11: (1, "decoy", other)}

    def exec_shards(self, key_value):
        """model of the execute chooser: key_value = value of a `k == ?` criterion or None"""
        if self.exc == "all":
            return list(self.names)
        if self.exc == "subset":
            return list(self.subset)
        return [self.shard_of_key(key_value)] if key_value is not None else list(self.names)

    def ident_order(self):
        return list(self.names) if self.idc == "fwd" else list(reversed(self.names))


def _key_criterion(stmt):
    found = []

    def visit_binary(b):
        if b.operator is operators.eq and getattr(b.left, "name", None) == "k" and getattr(b.left, "table", None) is not None and b.left.table.name == "item":
            val = getattr(b.right, "effective_value", None)
            if val is None:
                val = getattr(b.right, "value", None)
            found.append(val)

    crit = getattr(stmt, "whereclause", None)
    if crit is not None:
        visitors.traverse(crit, {}, {"binary": visit_binary})
    return found[0] if found else None


def make_session(cfg):
    engines = shard_engines(cfg.n)

    def shard_chooser(mapper, instance, clause=None):
        if isinstance(instance, Item):
            return cfg.shard_of_key(instance.k)
        if isinstance(instance, Part):
            parent = instance.item
            if parent is None:
                return cfg.names[0]
            tok = inspect(parent).identity_token
            return tok if tok is not None else cfg.shard_of_key(parent.k)
        return cfg.names[0]

    def identity_chooser(mapper, primary_key, *, lazy_loaded_from, execution_options, bind_arguments, **kw):
        if lazy_loaded_from is not None:
            return [lazy_loaded_from.identity_token]
        return cfg.ident_order()

    def execute_chooser(context):
        if context.is_select and context.lazy_loaded_from is not None:
            return [context.lazy_loaded_from.identity_token]
        return cfg.exec_shards(_key_criterion(context.statement) if cfg.exc == "bycrit" else None)

    return ShardedSession(
        shard_chooser=shard_chooser, identity_chooser=identity_chooser, execute_chooser=execute_chooser,
        shards={name: engines[name][0] for name in cfg.names},
    )


# ------------------------------------------------------------------ model

NEW = {"A": (3, 0, "a"), "A2": (3, 3, "a2"), "B": (4, 3, "b"), "AC": (3, 0, "a"),
       # merge() of a detached object whose row is gone re-creates it as a pending object
       "G70": (7, 0, "G"), "G73": (7, 3, "G"), "G11": (1, 1, "G")}
# merge operations: the detached source object (id, k) -- loaded from shard chooser(k) by an earlier session, v set to "G"
MERGE_SRC = {"mrg70": (7, 0), "mrg73": (7, 3), "mrg1": (1, 1)}


class Model:
    __slots__ = ("rows", "parts", "pend", "dirty", "dels", "imap", "used")

    def __init__(self, cfg):
        self.rows = cfg.initial_rows()
        self.parts = cfg.initial_parts()
        self.pend, self.dirty, self.dels, self.imap, self.used = (), {}, set(), set(), set()

    def copy(self):
        m = Model.__new__(Model)
        m.rows, m.parts, m.pend = dict(self.rows), dict(self.parts), tuple(self.pend)
        m.dirty, m.dels, m.imap, m.used = dict(self.dirty), set(self.dels), set(self.imap), set(self.used)
        return m

    def flush(self, cfg):
        for name in self.pend:
            i, k, v = NEW[name]
            self.rows[(i, k)] = v
            self.imap.add((i, k))
            if name == "AC":
                self.parts[20] = (3, "c", cfg.shard_of_key(0))
        self.pend = ()
        for ident, v in self.dirty.items():
            if ident in self.rows:
                self.rows[ident] = v
        self.dirty = {}
        for ident in self.dels:
            if ident in self.rows:
                home = cfg.shard_of_key(ident[1])
                for pid, (item_id, note, sh) in list(self.parts.items()):
                    # default relationship cascade: children found in the parent's own shard are de-associated
                    if item_id == ident[0] and sh == home:
                        self.parts[pid] = (None, note, sh)
            self.rows.pop(ident, None)
            self.imap.discard(ident)
        self.dels = set()

    def has_pending(self):
        return bool(self.pend or self.dirty or self.dels)


OPS = ["addA", "addA2", "addB", "addAC", "flush", "commit", "get1", "get7", "get7t", "get3", "qall", "qk0", "qk3",
       "lazy1", "mod1", "mod7", "del1", "del7", "refresh7", "updk0", "updk3"]


# the merge family: merge() of detached objects from each shard crossed with the operations that load, modify,
# delete and flush the objects with the two-shard primary key
MERGE_OPS = ["mrg70", "mrg73", "mrg1", "flush", "commit", "get7", "get7t", "qall", "mod7", "del7"]


def enabled(cfg, m):
    out = []
    if cfg.fam == "merge":
        return [op for op in MERGE_OPS if not (op == "mrg73" and cfg.f[0] == cfg.f[3])]
    for op in OPS:
        if op in ("addA", "addAC"):
            if "A" in m.used or (3, 0) in m.rows:
                continue
        if op == "addA2" and ("A2" in m.used or cfg.f[0] == cfg.f[3]):
            continue
        if op == "addB" and "B" in m.used:
            continue
        out.append(op)
    return out


class Impl:
    def __init__(self, cfg):
        self.cfg = cfg
        self.engines = shard_engines(cfg.n)
        for name, (eng, raw) in self.engines.items():
            raw.rollback()
            raw.execute("DELETE FROM item")
            raw.execute("DELETE FROM part")
        for (i, k), v in cfg.initial_rows().items():
            self.engines[cfg.shard_of_key(k)][1].execute("INSERT INTO item (id, k, v) VALUES (?, ?, ?)", (i, k, v))
        for pid, (item_id, note, sh) in cfg.initial_parts().items():
            self.engines[sh][1].execute("INSERT INTO part (id, item_id, note) VALUES (?, ?, ?)", (pid, item_id, note))
        for name, (eng, raw) in self.engines.items():
            raw.commit()
        if cfg.fam == "merge" and cfg._det is None:
            # an earlier session loads every row from its own shard; closed -> detached objects that keep their
            # identity key incl. the identity token; then modified, as a web application would before merging them
            # back.  merge() only reads its argument, so one set per configuration serves every replay
            loader = make_session(cfg)
            det = {(i, k): loader.get(Item, i, identity_token=cfg.shard_of_key(k)) for (i, k) in sorted(cfg.initial_rows())}
            loader.close()
            for o in det.values():
                o.v = "G"
            cfg._det = det
        self.sess = make_session(cfg)
        self.reg = {}  # (id, token) -> object seen so far

    def close(self):
        try:
            self.sess.close()
        finally:
            for name, (eng, raw) in self.engines.items():
                raw.rollback()

    def raw(self):
        items, parts = {}, {}
        for name, (eng, raw) in self.engines.items():
            items[name] = sorted(raw.execute("SELECT id, k, v FROM item").fetchall())
            parts[name] = sorted(raw.execute("SELECT id, item_id, note FROM part").fetchall())
        return items, parts

    def note(self, objs, problems):
        for o in objs:
            st = inspect(o)
            key = (st.identity[0], st.identity_token)
            prev = self.reg.get(key)
            if prev is not None and prev is not o and inspect(prev).persistent:
                problems.append(("identity-not-unique", "two live objects for identity %r" % (key,)))
            self.reg[key] = o

    def canon(self):
        items, parts = self.raw()
        im = []
        for o in self.sess.identity_map.values():
            st = inspect(o)
            d = st.dict
            im.append((type(o).__name__, st.identity, st.identity_token, tuple((a, d[a]) for a in ("k", "v", "note", "item_id") if a in d), st.modified, "parts" in d))
        return (
            tuple((n, tuple(items[n]), tuple(parts[n])) for n in sorted(items)),
            tuple(sorted(im, key=repr)),
            tuple(sorted((type(o).__name__, o.id) for o in self.sess.new)),
            tuple(sorted((type(o).__name__, o.id, inspect(o).identity_token) for o in self.sess.deleted)),
            self.sess.in_transaction(),
        )


def _expected_query(cfg, m, pred, key_value):
    shards = cfg.exec_shards(key_value if cfg.exc == "bycrit" else None)
    return sorted((i, k, v, cfg.shard_of_key(k)) for (i, k), v in m.rows.items() if pred(i, k) and cfg.shard_of_key(k) in shards)


def apply_op(impl, m, op, check):
    """apply op to implementation and model; returns (problems, nontrivial).  With
    check=False (history replay) comparisons are skipped but effects are identical."""
    cfg, sess = impl.cfg, impl.sess
    problems = []
    nontriv = False
    # the identity map is weak-referencing: whether a no longer referenced object is
    # still in it must not depend on when the cyclic collector happens to run.  Objects of the
    # current replay are young: collecting generations 0-1 is enough and keeps the cost flat
    gc.collect(1)

    def bad(kind, msg):
        problems.append((kind, msg))

    def run_query(stmt, pred, key_value):
        nonlocal nontriv
        if m.has_pending():
            m.flush(cfg)  # autoflush
        exp = _expected_query(cfg, m, pred, key_value)
        objs = list(sess.execute(stmt).scalars().all())
        got = sorted((o.id, o.k, o.v, inspect(o).identity_token) for o in objs)
        allmatch = [(i, k) for (i, k) in m.rows if pred(i, k)]
        if len({cfg.shard_of_key(k) for i, k in allmatch}) > 1 or len(exp) != len(allmatch):
            nontriv = True
        if check and got != exp:
            bad("query-union", "query returned %r; union over chosen shards %r of the model is %r" % (got, cfg.exec_shards(key_value if cfg.exc == "bycrit" else None), exp))
        if check and len({id(o) for o in objs}) != len(objs):
            bad("identity-not-unique", "one object returned for two rows: %r" % (got,))
        if check:
            # equal primary keys from different shards: distinct objects, distinct identity tokens
            bypk = {}
            for o in objs:
                bypk.setdefault(o.id, []).append(o)
            for pk, group in bypk.items():
                if len(group) > 1 and (len({inspect(o).identity_token for o in group}) != len(group) or len({inspect(o).key for o in group}) != len(group)):
                    bad("same-pk-not-distinct", "rows with pk %r from several shards came back as %r" % (pk, [(o.id, o.k, o.v, inspect(o).identity_token) for o in group]))
        impl.note(objs, problems)
        for o in objs:
            m.imap.add((o.id, o.k))
        return objs

    def do_get(pk, token=None):
        nonlocal nontriv
        # identity-map residents are read off the real session (a failed get() may leave loaded objects behind)
        hits = [(o.id, inspect(o).dict["k"]) for o in list(sess.identity_map.values())
                if isinstance(o, Item) and inspect(o).identity[0] == pk and "k" in inspect(o).dict
                and (token is None or inspect(o).identity_token == token)]
        hits += [(i, k) for (i, k) in m.imap if i == pk and (i, k) not in hits and (token is None or cfg.shard_of_key(k) == token)
                 and any(isinstance(o, Item) and inspect(o).identity == (i,) and inspect(o).identity_token == cfg.shard_of_key(k) for o in list(sess.identity_map.values()))]
        allowed_exc = False
        if hits:
            order = cfg.ident_order() if token is None else [token]
            hits.sort(key=lambda ik: order.index(cfg.shard_of_key(ik[1])))
            cands = [hits[0]]
            hit_tok = cfg.shard_of_key(hits[0][1])
            for o in list(sess.identity_map.values()):
                st = inspect(o)
                if isinstance(o, Item) and st.identity == (pk,) and st.identity_token == hit_tok and st.expired and m.has_pending():
                    m.flush(cfg)  # get() re-validates an expired identity-map resident with a SELECT, which autoflushes
                    break
        else:
            if m.has_pending():
                m.flush(cfg)
                # an object flushed just now is in the identity map; but the lookup already happened
            shards = [token] if token is not None else cfg.exec_shards(None)
            cands = [(i, k) for (i, k) in m.rows if i == pk and cfg.shard_of_key(k) in shards]
            allowed_exc = len(cands) > 1
            if len([1 for (i, k) in m.rows if i == pk]) > 1:
                nontriv = True
        try:
            o = sess.get(Item, pk, identity_token=token) if token is not None else sess.get(Item, pk)
            err = None
        except orm_exc.MultipleResultsFound:
            o, err = None, True
        if err is not None:
            gc.collect(1)  # drop the objects the failed load left behind (traceback cycles)
            if check and not allowed_exc:
                bad("get-raised", "get(%r) raised MultipleResultsFound but the chosen shards hold %r" % (pk, cands))
            return None
        if o is None:
            if check and cands and not allowed_exc:
                bad("get-missed", "get(%r, token=%r) returned None; expected row %r" % (pk, token, cands))
            elif check and cands and allowed_exc:
                bad("get-missed", "get(%r) returned None although rows %r exist in the chosen shards" % (pk, cands))
            return None
        ident = (o.id, o.k)
        tok = inspect(o).identity_token
        if check and (ident not in cands or tok != cfg.shard_of_key(o.k)):
            bad("get-wrong-object", "get(%r, token=%r) returned identity %r token %r; allowed %r" % (pk, token, ident, tok, cands))
        impl.note([o], problems)
        m.imap.add(ident)
        return o

    if op in ("addA", "addA2", "addB", "addAC"):
        name = op[3:]
        i, k, v = NEW[name]
        o = Item(id=i, k=k, v=v)
        if name == "AC":
            o.parts.append(Part(id=20, note="c"))
            m.used.add("A")
        m.used.add("A" if name == "AC" else name)
        sess.add(o)
        m.pend = m.pend + (name,)
        nontriv = True
    elif op == "flush":
        nontriv = m.has_pending()
        sess.flush()
        m.flush(cfg)
    elif op == "commit":
        nontriv = m.has_pending()
        sess.commit()
        m.flush(cfg)
    elif op == "get1":
        do_get(1)
    elif op == "get7":
        do_get(7)
    elif op == "get7t":
        do_get(7, cfg.shard_of_key(3))
    elif op == "get3":
        do_get(3)
    elif op == "qall":
        run_query(select(Item).order_by(Item.id), lambda i, k: True, None)
    elif op in ("qk0", "qk3"):
        kv = int(op[2])
        run_query(select(Item).where(Item.k == kv), lambda i, k: k == kv, kv)
    elif op == "lazy1":
        o = do_get(1)
        if o is not None and (1, 1) not in m.dels:
            if "parts" not in inspect(o).dict and m.has_pending():
                m.flush(cfg)  # the lazy load autoflushes
            got = sorted((p.id, p.note) for p in o.parts)
            home = cfg.shard_of_key(1)
            exp = sorted((pid, note) for pid, (item_id, note, sh) in m.parts.items() if item_id == 1 and sh == home)
            nontriv = True
            if check and got != exp:
                bad("lazy-load-shard", "item 1 (shard %s) .parts loaded %r; its own shard holds %r" % (home, got, exp))
    elif op == "mod1":
        o = do_get(1)
        if o is not None and (1, 1) not in m.dels:
            o.v = "M"
            m.dirty[(1, 1)] = "M"
            nontriv = True
    elif op == "mod7":
        objs = run_query(select(Item).where(Item.id == 7), lambda i, k: i == 7, None)
        for o in objs:
            o.v = o.v + "+"
            m.dirty[(o.id, o.k)] = m.rows[(o.id, o.k)] + "+" if (o.id, o.k) in m.rows else o.v
    elif op == "del1":
        o = do_get(1)
        if o is not None and (1, 1) not in m.dels:
            sess.delete(o)
            m.dels.add((1, 1))
            m.dirty.pop((1, 1), None)
            nontriv = True
    elif op == "del7":
        objs = run_query(select(Item).where(Item.id == 7), lambda i, k: i == 7, None)
        for o in objs:
            if o.k == 3:
                sess.delete(o)
                m.dels.add((7, 3))
                m.dirty.pop((7, 3), None)
    elif op == "refresh7":
        sess.flush()
        m.flush(cfg)
        for (pk, tok), o in sorted(impl.reg.items(), key=repr):
            if pk == 7 and inspect(o).persistent:
                k0 = [k for (i, k) in m.rows if i == 7 and cfg.shard_of_key(k) == tok]
                sess.refresh(o)
                nontriv = True
                if check and (len(k0) != 1 or (o.k, o.v) != (k0[0], m.rows[(7, k0[0])])):
                    bad("refresh-wrong-shard", "refresh of (7, token %s) gave k=%r v=%r; its own shard's row is %r" % (tok, o.k, o.v, [(k, m.rows[(7, k)]) for k in k0]))
    elif op in ("updk0", "updk3"):
        kv = int(op[4])
        if m.has_pending():
            m.flush(cfg)
        shards = cfg.exec_shards(kv if cfg.exc == "bycrit" else None)
        hit = [(i, k) for (i, k) in m.rows if k == kv and cfg.shard_of_key(k) in shards]
        nontriv = bool(hit) or any(k == kv for (i, k) in m.rows)
        for ident in hit:
            m.rows[ident] = "U"
        sess.execute(update(Item).where(Item.k == kv).values(v="U"))
    elif op in MERGE_SRC:
        i, k = MERGE_SRC[op]
        det = cfg._det[(i, k)]
        dkey = inspect(det).key
        tok = cfg.shard_of_key(k)
        if m.has_pending():
            m.flush(cfg)  # merge(load=True) autoflushes before it looks for the target
        others = [o for o in list(sess.identity_map.values()) if isinstance(o, Item) and inspect(o).identity == (i,) and inspect(o).identity_token != tok]
        before = [(inspect(o).dict.get("k"), inspect(o).dict.get("v")) for o in others]
        nontriv = len([1 for (i2, k2) in m.rows if i2 == i]) > 1
        try:
            merged = sess.merge(det)
        except orm_exc.MultipleResultsFound as e:
            merged = None
            gc.collect(1)
            bad("merge-raised", "merge of detached %r raised MultipleResultsFound: %s" % (dkey[1:], e))
        if merged is not None:
            st = inspect(merged)
            if (i, k) in m.rows:
                # the target is the object of the *same shard* (identity map resident or loaded from that shard)
                m.dirty[(i, k)] = "G"
                m.imap.add((i, k))
                if check and (not st.persistent or st.key != dkey or any(merged is o for o in others)):
                    bad("merge-wrong-identity", "merge of detached %r (k=%r) returned object with key %r token %r k=%r"
                        % (dkey[1:], k, st.key and st.key[1], st.identity_token, st.dict.get("k")))
                elif check and (merged.id, merged.k, merged.v) != (i, k, "G"):
                    bad("merge-state", "merge of detached %r gave (id, k, v)=%r" % (dkey[1:], (merged.id, merged.k, merged.v)))
                if st.persistent:
                    impl.note([merged], problems)
            else:
                # the row is gone from its shard: merge() makes a new pending object, INSERTed per shard chooser at flush
                m.pend = m.pend + ("G%d%d" % (i, k),)
                if check and (not st.pending or any(merged is o for o in others)):
                    bad("merge-wrong-identity", "merge of detached %r (row deleted) returned non-pending object key %r token %r"
                        % (dkey[1:], st.key and st.key[1], st.identity_token))
            if check:
                after = [(inspect(o).dict.get("k"), inspect(o).dict.get("v")) for o in others]
                if after != before:
                    bad("merge-touched-other-shard", "merge of detached %r changed same-pk objects of other shards: %r -> %r" % (dkey[1:], before, after))
    else:
        raise AssertionError(op)

    if check:
        items, parts = impl.raw()
        for name in cfg.names:
            exp_items = sorted((i, k, v) for (i, k), v in m.rows.items() if cfg.shard_of_key(k) == name)
            # rows not yet flushed by the session are not in the model either (the model flushes when the session must)
            if items[name] != exp_items:
                bad("placement", "shard %s holds items %r; per shard chooser %r it should hold %r" % (name, items[name], cfg.f, exp_items))
            exp_parts = sorted((pid, item_id, note) for pid, (item_id, note, sh) in m.parts.items() if sh == name)
            if parts[name] != exp_parts:
                bad("placement-child", "shard %s holds parts %r, expected %r" % (name, parts[name], exp_parts))
        for (pk, tok), o in impl.reg.items():
            st = inspect(o)
            if not st.persistent:
                continue
            d = st.dict
            if "k" in d and cfg.shard_of_key(d["k"]) != st.identity_token:
                bad("token-mismatch", "object id=%r k=%r carries identity token %r, shard chooser says %r" % (pk, d["k"], st.identity_token, cfg.shard_of_key(d["k"])))
            if "v" in d and "k" in d and not st.modified and (pk, d["k"]) in m.rows and (pk, d["k"]) not in m.dirty and d["v"] != m.rows[(pk, d["k"])]:
                bad("stale-object", "object (id=%r, token %r) has loaded v=%r; its shard's row has %r" % (pk, tok, d["v"], m.rows[(pk, d["k"])]))
    return problems, nontriv


# ------------------------------------------------------------------ driver


def configs(n):
    for f in itertools.product(range(n), repeat=4):
        for idc in ("fwd", "rev"):
            for exc in ("all", "bycrit", "subset"):
                yield (n, list(f), idc, exc)


DEEP = ([0, 0, 0, 1], [0, 1, 1, 0], [0, 1, 0, 1], [0, 0, 1, 1])


def shards(tier, seed):
    out = []
    if tier == "quick":
        out += [(c, 3) for c in configs(2)]
        out += [(c, 3, "merge") for c in configs(2)]
    else:
        out += [(c, 3, "merge") for c in configs(3)]
        out += [(c, 4 if (c[1] in DEEP and c[2] == "fwd") else 3, "merge") for c in configs(2)]
        out += [(c, 3) for c in configs(3)]
        out += [((2, f, "fwd", exc), 4) for f in DEEP for exc in ("bycrit", "subset")]
        out += [(c, 3) for c in configs(2) if not (c[1] in DEEP and c[2] == "fwd" and c[3] in ("bycrit", "subset"))]
    return out


_BUILDS = [0]


def build(cfg, history):
    _BUILDS[0] += 1
    if _BUILDS[0] % 512 == 0:
        gc.collect()  # sessions of earlier replays (old generation by now)
    impl = Impl(cfg)
    m = Model(cfg)
    for op in history:
        apply_op(impl, m, op, check=False)
    return impl, m


def _own_gc():
    """deterministic collection: automatic GC off, explicit collects at fixed points;
    everything allocated so far is frozen so that those collects are cheap"""
    gc.disable()
    gc.collect()
    gc.freeze()


def _cname(n, f, idc, exc, fam):
    return "shards=%d chooser=%s identity=%s execute=%s%s" % (n, "".join(map(str, f)), idc, exc, "" if fam == "base" else " alphabet=" + fam)


def run_shard(shard, tier, rec):
    _own_gc()
    _BUILDS[0] = 0
    (n, f, idc, exc), depth = shard[0], shard[1]
    fam = shard[2] if len(shard) > 2 else "base"
    cfg = Config(n, f, idc, exc, fam)
    cname = _cname(n, f, idc, exc, fam)

    def step(history, ms, op):
        impl, m = build(cfg, history)
        try:
            try:
                problems, nontriv = apply_op(impl, m, op, check=True)
            except Exception as e:  # noqa
                import traceback

                problems, nontriv = [("crash", "%s: %s\n%s" % (type(e).__name__, e, traceback.format_exc()[-1500:]))], True
            rec.case((cname, history, op), nontrivial=nontriv)
            if problems:
                for kind, msg in problems[:2]:
                    rec.violation(
                        "%s: %s after %s then %s" % (kind, cname, list(history), op), msg,
                        dict(n=n, f=f, idc=idc, exc=exc, fam=fam, history=list(history), op=op), kind=(kind,),
                    )
                return None
            key = impl.canon()
            rec.outcome((op, key[0]))
            if op in MERGE_SRC:
                rec.count("merge_operations")
            if nontriv and len(history) >= 1 and op in ("flush", "commit", "qall", "updk0", "updk3"):
                rec.sample(dict(config=cname, history=list(history) + [op], shard_contents={k2: [list(r) for r in v] for k2, v in impl.raw()[0].items()}), limit=2)
            return m, (cname, key)
        finally:
            impl.close()

    def enabled_ops(ms):
        return enabled(cfg, ms)

    impl, m = build(cfg, ())
    key = impl.canon()
    impl.close()
    d = hist.explore(rec, [((), m, (cname, key))], enabled_ops, step, depth=depth)
    rec.count("configurations_%d_shards%s" % (n, "" if fam == "base" else "_" + fam))
    rec.count("histories_depth_%d" % d)


def replay(case):
    _own_gc()
    _BUILDS[0] = 0
    fam = case.get("fam", "base")
    cfg = Config(case["n"], case["f"], case["idc"], case["exc"], fam)
    cname = _cname(case["n"], case["f"], case["idc"], case["exc"], fam)
    impl, m = build(cfg, tuple(case["history"]))
    try:
        try:
            problems, _ = apply_op(impl, m, case["op"], check=True)
        except Exception as e:  # noqa
            problems = [("crash", "%s: %s" % (type(e).__name__, e))]
    finally:
        impl.close()
    return [("%s: %s after %s then %s" % (k, cname, list(case["history"]), case["op"]), msg) for k, msg in problems[:2]]
