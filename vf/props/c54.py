"""C54 utility collections vs reference models (engine H, BFS to fixpoint)."""
import itertools
import pickle

from sqlalchemy import util
from sqlalchemy.util import IdentitySet
from sqlalchemy.util import immutabledict
from sqlalchemy.util import LRUCache
from sqlalchemy.util import OrderedSet

from ..engines import hist

ID = "C54"
LEVEL = "model_checking"
META = dict(
    engine="H",
    technique="explicit-state BFS over operation histories on the real objects, reference model in lock-step, canonical-state dedupe to fixpoint",
    design_ref="DESIGN.md §5 C54",
    level_text="OrderedSet / IdentitySet / LRUCache are explored as state machines: from every initial content, every "
    "method/operator with every argument (all lists <=2 (quick) / <=3 (thorough) over a 4-element domain, as set, "
    "frozenset, list-with-duplicates, tuple, one-shot iterator, dict, same-type collection and the receiver itself) is "
    "applied on a fresh replay of the history, compared with a plain-Python reference (duplicate-free list, id-keyed "
    "dict, recency list). The canonical state (contents in iteration order) determines all futures, and BFS runs until "
    "no new state appears, so the result holds for histories of every length over this alphabet. immutabledict: every "
    "mutator x every content, union/merge_with/|/copy/pickle against dict semantics incl. the None/empty/same-object fast paths.",
    level_note="Trusted: the reference models in this file; element domain of 4 (OrderedSet), 4 objects of which two are == "
    "(IdentitySet), 5 keys (LRU). Runs on the pure-Python sources of the working tree (the shipped .so cannot be rebuilt; "
    "C55 compares it).",
    rule="state = contents in iteration order (LRU: recency order + config); transition = one op instance applied to a "
    "replayed state; every transition is executed on the implementation and the model (trace validated)",
    assumptions=["elements are hashable ints / objects with value equality", "single-threaded use"],
    bounds=dict(
        quick="fixpoint over all states; argument lists <=2 elements; two-argument calls with lists <=1; LRU capacity {1,2} x threshold {0,.5,1}",
        thorough="fixpoint over all states; argument lists <=3 elements; two-argument update/union/intersection/difference with lists <=2; LRU capacity {1,2,3}",
    ),
)

DOM = (0, 1, 2, 3)


def lists_upto(n, dom=DOM):
    for k in range(n + 1):
        yield from itertools.product(dom, repeat=k)


# ------------------------------------------------------------ OrderedSet

ARG_KINDS = ("list", "tuple", "set", "frozenset", "iter", "dict", "oset", "self")
SETLIKE = ("set", "frozenset", "oset", "self")


def mk_arg(kind, content, recv):
    """returns (argument object, materialised element order, as set)"""
    content = list(content)
    if kind == "list":
        a = list(content)
    elif kind == "tuple":
        a = tuple(content)
    elif kind == "set":
        a = set(content)
    elif kind == "frozenset":
        a = frozenset(content)
    elif kind == "iter":
        return iter(list(content)), list(content)
    elif kind == "dict":
        a = {k: None for k in content}
    elif kind == "oset":
        a = OrderedSet(content)
    elif kind == "self":
        return recv, list(recv)
    return a, list(a)


def uniq(seq):
    out = []
    for x in seq:
        if x not in out:
            out.append(x)
    return out


def oset_model(m, name, args_orders, scalar):
    """m: list (duplicate-free). returns (new_m, return_spec) where return_spec is
    ('none',) | ('self',) | ('new', list) | ('val', v) | ('exc', cls)"""
    m = list(m)
    A = args_orders
    if name == "add":
        if scalar not in m:
            m.append(scalar)
        return m, ("none",)
    if name == "remove":
        if scalar not in m:
            return m, ("exc", KeyError)
        m.remove(scalar)
        return m, ("none",)
    if name == "discard":
        if scalar in m:
            m.remove(scalar)
        return m, ("none",)
    if name == "pop":
        if not m:
            return m, ("exc", KeyError)
        v = m.pop()
        return m, ("val", v)
    if name == "insert":
        pos, x = scalar
        if x not in m:
            m.insert(pos, x)
        return m, ("none",)
    if name == "clear":
        return [], ("none",)
    if name == "getitem":
        try:
            return m, ("val", m[scalar])
        except IndexError:
            return m, ("exc", IndexError)
    if name == "copy":
        return m, ("new", list(m))
    if name in ("update", "ior"):
        for a in A:
            for x in a:
                if x not in m:
                    m.append(x)
        return m, ("self",) if name == "ior" else ("none",)
    if name in ("union", "or", "add_op"):
        r = list(m)
        for a in A:
            for x in a:
                if x not in r:
                    r.append(x)
        return m, ("new", r)
    if name in ("intersection", "and"):
        r = [x for x in m if all(x in a for a in A)]
        return m, ("new", r)
    if name in ("difference", "sub"):
        r = [x for x in m if not any(x in a for a in A)]
        return m, ("new", r)
    if name in ("symmetric_difference", "xor"):
        a = A[0]
        r = [x for x in m if x not in a] + uniq(x for x in a if x not in m)
        return m, ("new", r)
    if name in ("intersection_update", "iand"):
        m = [x for x in m if all(x in a for a in A)]
        return m, ("self",) if name == "iand" else ("none",)
    if name in ("difference_update", "isub"):
        m = [x for x in m if not any(x in a for a in A)]
        return m, ("self",) if name == "isub" else ("none",)
    if name in ("symmetric_difference_update", "ixor"):
        a = A[0]
        m = [x for x in m if x not in a] + uniq(x for x in a if x not in m)
        return m, ("self",) if name == "ixor" else ("none",)
    raise AssertionError(name)


def oset_apply(s, name, args, scalar):
    if name == "add":
        return s.add(scalar)
    if name == "remove":
        return s.remove(scalar)
    if name == "discard":
        return s.discard(scalar)
    if name == "pop":
        return s.pop()
    if name == "insert":
        return s.insert(*scalar)
    if name == "clear":
        return s.clear()
    if name == "getitem":
        return s[scalar]
    if name == "copy":
        return s.copy()
    if name == "ior":
        s |= args[0]
        return s
    if name == "iand":
        s &= args[0]
        return s
    if name == "isub":
        s -= args[0]
        return s
    if name == "ixor":
        s ^= args[0]
        return s
    if name == "or":
        return s | args[0]
    if name == "and":
        return s & args[0]
    if name == "sub":
        return s - args[0]
    if name == "xor":
        return s ^ args[0]
    if name == "add_op":
        return s + args[0]
    return getattr(s, name)(*args)


def oset_ops(tier):
    maxlen = 2 if tier == "quick" else 3
    ops = []
    for x in DOM:
        ops += [("add", None, x), ("remove", None, x), ("discard", None, x)]
    ops += [("pop", None, None), ("clear", None, None), ("copy", None, None)]
    for pos in (0, 1, -1, 7):
        for x in (0, 3):
            ops.append(("insert", None, (pos, x)))
    for i in (0, 1, -1, 4):
        ops.append(("getitem", None, i))
    contents = list(lists_upto(maxlen))
    for name in ("update", "union", "intersection", "difference", "symmetric_difference",
                 "intersection_update", "difference_update", "symmetric_difference_update"):
        for kind in ARG_KINDS:
            for c in (contents if kind != "self" else [()]):
                if kind in ("set", "frozenset", "dict", "oset") and list(c) != uniq(c):
                    continue
                ops.append((name, [(kind, c)], None))
    for name in ("ior", "iand", "isub", "ixor", "or", "and", "sub", "xor", "add_op"):
        for kind in SETLIKE:
            for c in (contents if kind != "self" else [()]):
                if list(c) != uniq(c):
                    continue
                ops.append((name, [(kind, c)], None))
    if True:
        # several iterables in one call (the set must be kept in step with the list *between* them)
        small = list(lists_upto(1 if tier == "quick" else 2))
        for name in ("update", "union", "intersection", "difference", "intersection_update", "difference_update"):
            for k1, k2 in (("list", "set"), ("iter", "tuple"), ("oset", "list")):
                for c1 in small:
                    for c2 in small:
                        if k1 in ("set", "oset") and list(c1) != uniq(c1):
                            continue
                        if k2 in ("set",) and list(c2) != uniq(c2):
                            continue
                        ops.append((name, [(k1, c1), (k2, c2)], None))
            ops.append((name, [], None))
    return ops


def oset_check_obj(s, m, what):
    """invariants tying the visible state to the model; returns problem or None"""
    lst = list(s)
    if lst != list(m):
        return "%s: iteration order %r, reference %r" % (what, lst, list(m))
    if len(s) != len(m):
        return "%s: len %r, reference %r" % (what, len(s), len(m))
    if set.__len__(s) != len(m) or not all(x in s for x in m) or any((x in s) for x in DOM if x not in m):
        return "%s: membership disagrees with iteration %r" % (what, lst)
    if not (s == set(m)):
        return "%s: == set(reference) is False" % what
    return None


def oset_build(hist):
    s = None
    for op in hist:
        if op[0] == "init":
            s = OrderedSet(list(op[1]))
        else:
            name, argspec, scalar = op
            args = [mk_arg(k, c, s)[0] for k, c in (argspec or [])]
            try:
                oset_apply(s, name, args, scalar)
            except (KeyError, IndexError):
                pass
    return s


def oset_step_factory(rec):
    def step(hist_, ms, op):
        name, argspec, scalar = op
        s = oset_build(hist_)
        made = [mk_arg(k, c, s) for k, c in (argspec or [])]
        args = [a for a, _ in made]
        orders = [o for _, o in made]
        new_m, ret = oset_model(ms, name, orders, scalar)
        case = dict(struct="OrderedSet", history=[list(h) if not isinstance(h, list) else h for h in hist_], op=list(op))
        desc = "OrderedSet(%r).%s(%s)" % (list(ms), name, ", ".join("%s%r" % (k, list(c)) for k, c in (argspec or [])) if argspec is not None else repr(scalar))
        try:
            got = oset_apply(s, name, args, scalar)
            exc = None
        except Exception as e:  # noqa
            got, exc = None, e
        rec.case((tuple(ms), repr(op)), nontrivial=bool(argspec) and any(len(o) != len(set(o)) or k in ("iter", "self", "dict") for (k, c), o in zip(argspec, orders)))
        problem = None
        if ret[0] == "exc":
            if exc is None:
                problem = "expected %s, returned %r" % (ret[1].__name__, got)
            elif not isinstance(exc, ret[1]):
                problem = "expected %s, raised %r" % (ret[1].__name__, exc)
        elif exc is not None:
            problem = "raised %r" % (exc,)
        elif ret[0] == "none" and got is not None:
            problem = "returned %r, expected None" % (got,)
        elif ret[0] == "self" and got is not s:
            problem = "in-place operator did not return the receiver"
        elif ret[0] == "val" and got != ret[1]:
            problem = "returned %r, reference %r" % (got, ret[1])
        elif ret[0] == "new":
            if not isinstance(got, OrderedSet):
                problem = "returned %r, expected an OrderedSet" % (type(got).__name__,)
            elif got is s:
                problem = "returned the receiver instead of a new set"
            else:
                problem = oset_check_obj(got, ret[1], "result")
                if problem is None:
                    # aliasing: mutating the result must not disturb the receiver
                    got.add(99)
                    got.discard(ret[1][0] if ret[1] else 98)
        if problem is None:
            problem = oset_check_obj(s, new_m, "receiver after op")
        if problem is not None:
            sig = "OrderedSet.%s kind=%s: %s -> %s" % (name, "+".join(k for k, _ in (argspec or [])) or "-", desc, problem)
            rec.violation(sig, problem, case, kind=("oset", name, tuple(k for k, _ in (argspec or []))))
            return None
        rec.sample(dict(struct="OrderedSet", state=list(ms), op=desc, after=list(new_m)))
        return new_m, ("oset", tuple(new_m))

    return step


# ------------------------------------------------------------ IdentitySet


class Obj:
    def __init__(self, v, tag):
        self.v, self.tag = v, tag

    def __eq__(self, o):
        return isinstance(o, Obj) and o.v == self.v

    def __hash__(self):
        return hash(self.v)

    def __repr__(self):
        return self.tag


OBJS = [Obj(0, "o0"), Obj(1, "o1"), Obj(1, "o1b"), Obj(2, "o2")]
IKINDS = ("list", "tuple", "iter", "set", "iset", "self")


def imk_arg(kind, idxs, recv):
    objs = [OBJS[i] for i in idxs]
    if kind == "list":
        return list(objs), objs
    if kind == "tuple":
        return tuple(objs), objs
    if kind == "iter":
        return iter(list(objs)), objs
    if kind == "set":
        s = set(objs)
        return s, list(s)
    if kind == "iset":
        return IdentitySet(objs), objs
    if kind == "self":
        return recv, list(recv)


def ids(objs):
    return frozenset(OBJS.index_of(o) for o in objs)


def _idx(o):
    for i, x in enumerate(OBJS):
        if x is o:
            return i
    return -1


def iset_model(m, name, other, scalar):
    """m: frozenset of indexes; other: frozenset of indexes or None"""
    if name == "add":
        return m | {scalar}, ("none",)
    if name == "remove":
        if scalar not in m:
            return m, ("exc", KeyError)
        return m - {scalar}, ("none",)
    if name == "discard":
        return m - {scalar}, ("none",)
    if name == "pop":
        if not m:
            return m, ("exc", KeyError)
        return m, ("pop",)
    if name == "clear":
        return frozenset(), ("none",)
    if name == "contains":
        return m, ("val", scalar in m)
    if name in ("copy", "__copy__"):
        return m, ("new", m)
    o = other
    table = {
        "union": m | o, "or": m | o, "difference": m - o, "sub": m - o, "intersection": m & o, "and": m & o,
        "symmetric_difference": m ^ o, "xor": m ^ o,
    }
    if name in table:
        return m, ("new", table[name])
    inpl = {
        "update": m | o, "ior": m | o, "difference_update": m - o, "isub": m - o, "intersection_update": m & o,
        "iand": m & o, "symmetric_difference_update": m ^ o, "ixor": m ^ o,
    }
    if name in inpl:
        return inpl[name], ("self",) if name in ("ior", "isub", "iand", "ixor") else ("none",)
    cmp_ = {
        "issubset": m <= o, "le": m <= o, "lt": m < o, "issuperset": m >= o, "ge": m >= o, "gt": m > o,
        "eq": m == o, "ne": m != o,
    }
    if name in cmp_:
        return m, ("val", cmp_[name])
    raise AssertionError(name)


def iset_apply(s, name, arg, scalar):
    import operator as o

    if name in ("add", "remove", "discard"):
        return getattr(s, name)(OBJS[scalar])
    if name == "contains":
        return OBJS[scalar] in s
    if name in ("pop", "clear", "copy", "__copy__"):
        return getattr(s, name)()
    binop = dict(ior=o.ior, iand=o.iand, isub=o.isub, ixor=o.ixor, le=o.le, lt=o.lt, ge=o.ge, gt=o.gt, eq=o.eq, ne=o.ne, xor=o.xor, sub=o.sub)
    binop["or"] = o.or_
    binop["and"] = o.and_
    if name in binop:
        return binop[name](s, arg)
    return getattr(s, name)(arg)


def iset_ops(tier):
    maxlen = 2 if tier == "quick" else 3
    ops = []
    for i in range(4):
        ops += [("add", None, i), ("remove", None, i), ("discard", None, i), ("contains", None, i)]
    ops += [("pop", None, None), ("clear", None, None), ("copy", None, None), ("__copy__", None, None)]
    contents = list(lists_upto(maxlen, range(4)))
    for name in ("union", "update", "difference", "difference_update", "intersection", "intersection_update",
                 "symmetric_difference", "symmetric_difference_update", "issubset", "issuperset"):
        for kind in IKINDS:
            for c in (contents if kind != "self" else [()]):
                ops.append((name, (kind, c), None))
    for name in ("or", "ior", "sub", "isub", "and", "iand", "xor", "ixor", "le", "lt", "ge", "gt", "eq", "ne"):
        for kind in ("iset", "self"):
            for c in (contents if kind != "self" else [()]):
                ops.append((name, (kind, c), None))
    return ops


def iset_build(hist_):
    s = None
    for op in hist_:
        if op[0] == "init":
            s = IdentitySet([OBJS[i] for i in op[1]])
        else:
            name, argspec, scalar = op
            arg = imk_arg(argspec[0], argspec[1], s)[0] if argspec else None
            try:
                iset_apply(s, name, arg, scalar)
            except KeyError:
                pass
    return s


def iset_contents(s):
    return frozenset(_idx(o) for o in s)


def iset_step_factory(rec):
    def step(hist_, ms, op):
        name, argspec, scalar = op
        s = iset_build(hist_)
        arg, order = imk_arg(argspec[0], argspec[1], s) if argspec else (None, None)
        oidx = frozenset(_idx(o) for o in order) if order is not None else None
        new_m, ret = iset_model(ms, name, oidx, scalar)
        desc = "IdentitySet(%s).%s(%s)" % (sorted(OBJS[i].tag for i in ms), name, ("%s%s" % (argspec[0], [OBJS[i].tag for i in argspec[1]])) if argspec else (OBJS[scalar].tag if scalar is not None else ""))
        case = dict(struct="IdentitySet", history=[list(h) for h in hist_], op=list(op))
        try:
            got = iset_apply(s, name, arg, scalar)
            exc = None
        except Exception as e:  # noqa
            got, exc = None, e
        rec.case((tuple(sorted(ms)), repr(op)), nontrivial=bool(argspec) and ({1, 2} <= set(argspec[1]) or argspec[0] in ("self", "iter")))
        problem = None
        if ret[0] == "exc":
            if not isinstance(exc, ret[1]):
                problem = "expected %s, got %r / %r" % (ret[1].__name__, got, exc)
        elif exc is not None:
            problem = "raised %r" % (exc,)
        elif ret[0] == "none" and got is not None:
            problem = "returned %r, expected None" % (got,)
        elif ret[0] == "self" and got is not s:
            problem = "in-place operator did not return the receiver"
        elif ret[0] == "val" and got is not ret[1]:
            problem = "returned %r, reference %r" % (got, ret[1])
        elif ret[0] == "pop":
            i = _idx(got)
            if i not in ms:
                problem = "pop returned %r which is not a member" % (got,)
            new_m = ms - {i}
        elif ret[0] == "new":
            if not isinstance(got, IdentitySet) or got is s:
                problem = "expected a new IdentitySet, got %r" % (got,)
            elif iset_contents(got) != ret[1] or len(got) != len(ret[1]):
                problem = "result members %s, reference %s" % (sorted(o.tag for o in got), sorted(OBJS[i].tag for i in ret[1]))
            else:
                got.add(Obj(9, "fresh"))  # aliasing probe
        if problem is None:
            if iset_contents(s) != new_m or len(s) != len(new_m) or len(list(s)) != len(new_m):
                problem = "receiver members after op %s, reference %s" % (sorted(o.tag for o in s), sorted(OBJS[i].tag for i in new_m))
            elif any((OBJS[i] in s) != (i in new_m) for i in range(4)):
                problem = "__contains__ disagrees with iteration"
        if problem is not None:
            sig = "IdentitySet.%s kind=%s: %s -> %s" % (name, argspec[0] if argspec else "-", desc, problem)
            rec.violation(sig, problem, case, kind=("iset", name, argspec[0] if argspec else None))
            return None
        rec.sample(dict(struct="IdentitySet", op=desc, after=sorted(OBJS[i].tag for i in new_m)), limit=8)
        return new_m, ("iset", tuple(sorted(new_m)))

    return step


# ------------------------------------------------------------ LRUCache

KEYS = ("a", "b", "c", "d", "e")
VALS = (1, 2)


class Alert:
    def __init__(self):
        self.n = 0

    def __call__(self, cache):
        self.n += 1


def lru_ops():
    ops = []
    for k in KEYS:
        for v in VALS:
            ops.append(("set", k, v))
    for k in KEYS:
        ops += [("get", k, None), ("getitem", k, None), ("del", k, None), ("in", k, None)]
    ops.append(("len", None, None))
    return ops


def lru_apply(c, op):
    name, k, v = op
    if name == "set":
        c[k] = v
        return None
    if name == "get":
        return c.get(k, "MISSING")
    if name == "getitem":
        return c[k]
    if name == "del":
        del c[k]
        return None
    if name == "in":
        return k in c
    if name == "len":
        return len(c)


def lru_model(ms, op, cap, thr):
    """ms: tuple of (k, v) in recency order, least recent first"""
    m = list(ms)
    d = dict(m)
    name, k, v = op
    if name == "set":
        m = [(kk, vv) for kk, vv in m if kk != k] + [(k, v)]
        purged = False
        if len(m) > cap + cap * thr:
            m = m[-cap:]
            purged = True
        return tuple(m), ("none", purged)
    if name in ("get", "getitem", "in"):
        if k in d:
            m = [(kk, vv) for kk, vv in m if kk != k] + [(k, d[k])]
            return tuple(m), ("val", True if name == "in" else d[k])
        if name == "get":
            return ms, ("val", "MISSING")
        if name == "in":
            return ms, ("val", False)
        return ms, ("exc", KeyError)
    if name == "del":
        if k not in d:
            return ms, ("exc", KeyError)
        return tuple((kk, vv) for kk, vv in m if kk != k), ("none", False)
    if name == "len":
        return ms, ("val", len(m))


def lru_step_factory(rec, cap, thr):
    def build(hist_):
        al = Alert()
        c = LRUCache(cap, thr, size_alert=al)
        for op in hist_:
            try:
                lru_apply(c, op)
            except KeyError:
                pass
        return c, al

    def step(hist_, ms, op):
        c, al = build(hist_)
        n0 = al.n
        new_m, ret = lru_model(ms, op, cap, thr)
        case = dict(struct="LRUCache", capacity=cap, threshold=thr, history=[list(h) for h in hist_], op=list(op))
        try:
            got = lru_apply(c, op)
            exc = None
        except Exception as e:  # noqa
            got, exc = None, e
        rec.case((cap, thr, ms, op), nontrivial=(op[0] == "set" and ret[1]))
        problem = None
        if ret[0] == "exc":
            if not isinstance(exc, ret[1]):
                problem = "expected %s, got %r / %r" % (ret[1].__name__, got, exc)
        elif exc is not None:
            problem = "raised %r" % (exc,)
        elif ret[0] == "val" and got != ret[1]:
            problem = "returned %r, reference %r" % (got, ret[1])
        elif ret[0] == "none" and op[0] == "set":
            if ret[1] and al.n != n0 + 1:
                problem = "size_alert called %d times on purge, expected once" % (al.n - n0)
            if not ret[1] and al.n != n0:
                problem = "size_alert called without purge"
        if problem is None:
            contents = {k: c._data[k][1] for k in c}
            if contents != dict(new_m):
                problem = "contents %r, reference (capacity most-recent survive) %r" % (contents, dict(new_m))
            elif len(c) > cap + cap * thr:
                problem = "len %d exceeds capacity*(1+threshold)" % len(c)
            elif sorted(c.values()) != sorted(v for _, v in new_m):
                problem = "values() %r disagree with reference" % (list(c.values()),)
            else:
                # recency order must match the model (it decides future purges)
                order = tuple(k for k, _ in sorted(((k, c._data[k][2][0]) for k in c._data), key=lambda t: t[1]))
                if order != tuple(k for k, _ in new_m):
                    problem = "recency order %r, reference %r" % (order, tuple(k for k, _ in new_m))
        if problem is not None:
            sig = "LRUCache(cap=%d,thr=%s).%s: after %r op %r -> %s" % (cap, thr, op[0], list(ms), op, problem)
            rec.violation(sig, problem, case, kind=("lru", cap, thr, op[0]))
            return None
        if op[0] == "set" and ret[1]:
            rec.sample(dict(struct="LRUCache", cap=cap, thr=thr, state=list(ms), op=list(op), after=list(new_m)), limit=8)
        return new_m, ("lru", cap, thr, new_m)

    return step


# ------------------------------------------------------------ immutabledict


def imm_cases(tier):
    doms = [{}, {"a": 1}, {"a": 1, "b": 2}, {"b": 3}, {"c": 4, "a": 5}]
    return doms


def run_immutabledict(tier, rec):
    doms = imm_cases(tier)
    mut = [
        ("__setitem__", lambda d: d.__setitem__("z", 1)),
        ("__delitem__", lambda d: d.__delitem__("a")),
        ("setattr", lambda d: setattr(d, "x", 1)),
        ("clear", lambda d: d.clear()),
        ("pop", lambda d: d.pop("a")),
        ("pop-default", lambda d: d.pop("zz", None)),
        ("popitem", lambda d: d.popitem()),
        ("setdefault", lambda d: d.setdefault("a", 9)),
        ("setdefault-new", lambda d: d.setdefault("q")),
        ("update", lambda d: d.update({"k": 1})),
        ("update-kw", lambda d: d.update(k=1)),
        ("update-empty", lambda d: d.update()),
        ("ior", lambda d: d.__ior__({"k": 1})),
    ]
    for base in doms:
        for name, fn in mut:
            d = immutabledict(base)
            rec.transition()
            rec.trace()
            rec.case(("imm-mut", name, repr(base)), nontrivial=True)
            try:
                fn(d)
                res = "returned"
            except TypeError:
                res = "TypeError"
            except Exception as e:  # noqa
                res = "raised %r" % (e,)
            if res != "TypeError" or dict(d) != base:
                rec.violation(
                    "immutabledict.%s: on %r -> %s, contents now %r" % (name, base, res, dict(d)),
                    res, dict(struct="immutabledict", kind="mutator", base=base, name=name), kind=("imm", name),
                )
        rec.state(("imm", repr(base)))
    # union / merge_with / | / ror / copy / reduce
    kinds = ("dict", "imm", "none")
    nargs = (0, 1, 2) if tier == "quick" else (0, 1, 2, 3)
    for base in doms:
        for n in nargs:
            for combo in itertools.product(range(len(doms) * len(kinds)), repeat=n):
                specs = [(kinds[c % 3], doms[c // 3]) for c in combo]
                if any(k == "none" and dd for k, dd in specs):
                    continue
                for meth in ("union", "merge_with"):
                    d = immutabledict(base)
                    args = [None if k == "none" else (dict(dd) if k == "dict" else immutabledict(dd)) for k, dd in specs]
                    expect = dict(base)
                    for a in args:
                        if a:
                            expect.update(a)
                    rec.transition()
                    rec.trace()
                    rec.case(("imm", meth, repr(base), repr(specs)), nontrivial=n >= 1)
                    problem = None
                    try:
                        r = getattr(d, meth)(*args)
                    except Exception as e:  # noqa
                        problem = "raised %r" % (e,)
                    else:
                        if not isinstance(r, immutabledict):
                            problem = "returned %s" % type(r).__name__
                        elif dict(r) != expect:
                            problem = "returned %r, dict semantics give %r" % (dict(r), expect)
                        elif list(r) != list(expect) and len(expect) == len(r) and not (r is d or any(r is a for a in args)):
                            problem = "key order %r, dict semantics give %r" % (list(r), list(expect))
                        elif dict(d) != base or any(a is not None and dict(a) != dd for a, (k, dd) in zip(args, specs)):
                            problem = "an operand was modified"
                    if problem:
                        rec.violation(
                            "immutabledict.%s: %r.%s(%s) -> %s" % (meth, base, meth, ", ".join("%s%r" % s for s in specs), problem),
                            problem, dict(struct="immutabledict", kind="union", base=base, meth=meth, specs=[list(s) for s in specs]),
                            kind=("imm", meth),
                        )
        for other in doms:
            for ok in ("dict", "imm"):
                o = dict(other) if ok == "dict" else immutabledict(other)
                d = immutabledict(base)
                rec.transition()
                rec.trace()
                rec.case(("imm-or", repr(base), ok, repr(other)), nontrivial=True)
                problems = []
                r = d | o
                if not isinstance(r, immutabledict) or dict(r) != {**base, **other}:
                    problems.append(("or", "%r | %s%r = %r" % (base, ok, other, r)))
                r2 = o | d
                if dict(r2) != {**other, **base} or (ok == "dict" and not isinstance(r2, immutabledict)):
                    problems.append(("ror", "%s%r | %r = %r (%s)" % (ok, other, base, r2, type(r2).__name__)))
                if dict(d) != base or dict(o) != other:
                    problems.append(("or-mutates", "operand modified"))
                for k, p in problems:
                    rec.violation("immutabledict.%s: %s" % (k, p), p, dict(struct="immutabledict", kind="or", base=base, other=other, ok=ok), kind=("imm", k))
        d = immutabledict(base)
        rec.case(("imm-copy", repr(base)), nontrivial=True)
        c = d.copy()
        p = pickle.loads(pickle.dumps(d))
        if dict(c) != base or not isinstance(c, immutabledict):
            rec.violation("immutabledict.copy: %r -> %r" % (base, c), "", dict(struct="immutabledict", kind="copy", base=base), kind=("imm", "copy"))
        if dict(p) != base or not isinstance(p, immutabledict):
            rec.violation("immutabledict.pickle: %r -> %r" % (base, p), "", dict(struct="immutabledict", kind="copy", base=base), kind=("imm", "pickle"))
        try:
            hash(d)
            util  # immutabledict is a dict subclass: unhashable is fine either way
        except TypeError:
            pass
    rec.sample(dict(struct="immutabledict", op="union/merge_with/|/mutators over %d contents" % len(doms)))


# ------------------------------------------------------------ driver


def shards(tier, seed):
    out = [("oset",), ("iset",), ("imm",)]
    caps = (1, 2) if tier == "quick" else (1, 2, 3)
    for cap in caps:
        for thr in (0, 0.5, 1):
            out.append(("lru", cap, thr))
    return out


def run_shard(shard, tier, rec):
    what = shard[0]
    if what == "oset":
        ops = oset_ops(tier)
        step = oset_step_factory(rec)
        roots = []
        for c in lists_upto(3):
            m = uniq(c)
            s = OrderedSet(list(c))
            rec.transition()
            rec.trace()
            p = oset_check_obj(s, m, "constructor")
            if p:
                rec.violation("OrderedSet.__init__(list %r): %s" % (list(c), p), p, dict(struct="OrderedSet", history=[["init", list(c)]], op=None), kind=("oset", "init"))
                continue
            roots.append(((("init", tuple(c)),), m, ("oset", tuple(m))))
        d = hist.explore(rec, roots, lambda ms: ops, step, depth=None)
        rec.count("oset_max_depth", d)
        rec.count("oset_ops_per_state", len(ops))
    elif what == "iset":
        ops = iset_ops(tier)
        step = iset_step_factory(rec)
        roots = []
        for c in lists_upto(3, range(4)):
            m = frozenset(c)
            s = IdentitySet([OBJS[i] for i in c])
            rec.transition()
            rec.trace()
            if iset_contents(s) != m or len(s) != len(m):
                rec.violation("IdentitySet.__init__(%r)" % (list(c),), "", dict(struct="IdentitySet", history=[["init", list(c)]], op=None), kind=("iset", "init"))
                continue
            roots.append(((("init", tuple(c)),), m, ("iset", tuple(sorted(m)))))
        d = hist.explore(rec, roots, lambda ms: ops, step, depth=None)
        rec.count("iset_max_depth", d)
        rec.count("iset_ops_per_state", len(ops))
    elif what == "imm":
        run_immutabledict(tier, rec)
    elif what == "lru":
        _, cap, thr = shard
        ops = lru_ops()
        step = lru_step_factory(rec, cap, thr)
        d = hist.explore(rec, [((), (), ("lru", cap, thr, ()))], lambda ms: ops, step, depth=None)
        rec.count("lru_max_depth_%s_%s" % (cap, thr), d)


def _tuplify(x):
    if isinstance(x, list):
        return tuple(_tuplify(i) for i in x)
    return x


def replay(case):
    rec_ = __import__("vf.core", fromlist=["Rec"]).Rec(ID)
    st = case["struct"]
    hist_ = tuple(_tuplify(h) for h in case.get("history", []))
    op = _tuplify(case.get("op")) if case.get("op") else None

    def fix(o):  # restore op layout (name, argspec, scalar)
        return o

    try:
        if st == "OrderedSet":
            ms = uniq(hist_[0][1])
            for h in hist_[1:]:
                made = [mk_arg(k, c, OrderedSet(ms))[1] for k, c in (h[1] or [])]
                ms, _ = oset_model(ms, h[0], made, h[2])
            if op:
                argspec = [tuple(a) for a in op[1]] if op[1] is not None else None
                oset_step_factory(rec_)(hist_, ms, (op[0], argspec, op[2]))
            else:
                s = OrderedSet(list(hist_[0][1]))
                p = oset_check_obj(s, ms, "constructor")
                if p:
                    rec_.violation("OrderedSet.__init__: " + p, p, case)
        elif st == "IdentitySet":
            ms = frozenset(hist_[0][1])
            for h in hist_[1:]:
                o = frozenset(h[1][1]) if h[1] else None
                if h[1] and h[1][0] == "self":
                    o = ms
                ms2, ret = iset_model(ms, h[0], o, h[2])
                if ret[0] == "pop":
                    s = iset_build(hist_[: hist_.index(h) + 1])
                    ms2 = iset_contents(s)
                ms = ms2
            if op:
                iset_step_factory(rec_)(hist_, ms, op)
        elif st == "LRUCache":
            cap, thr = case["capacity"], case["threshold"]
            ms = ()
            for h in hist_:
                ms, _ = lru_model(ms, h, cap, thr)
            lru_step_factory(rec_, cap, thr)(hist_, ms, op)
        elif st == "immutabledict":
            run_immutabledict("thorough", rec_)
    except __import__("vf.core", fromlist=["StopShard"]).StopShard:
        pass
    return [(v["sig"], v["detail"]) for v in rec_.violations]
