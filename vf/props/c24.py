"""C24 pooled connections carry no state from a previous checkout (engines H + F).

A real ``Engine`` over the ledger proxy of ``sqlite3`` (``vf.engines.faults``), file-backed
database, with every combination of

    pool        QueuePool(1,0)  QueuePool(1,1)  NullPool  StaticPool  SingletonThreadPool  AssertionPool
    reset       pool_reset_on_return = "rollback" | "commit" | None
    driver mode sqlite3 legacy transaction control (SQLAlchemy's default; ``in_transaction`` is exact)
                | ``autocommit=False`` (PEP 249 mode of Python 3.12)

runs every sequence of <= 2 *user programs* (thorough: also every triple whose middle program is one of MIDDLE) drawn from

    idle              connect; close
    commit            write; commit; close
    leave_open        write; close                       (no commit)
    rollback          write; rollback; close
    savepoint_open    begin_nested; write; close         (savepoint and transaction left open)
    begin_block_exc   with conn.begin(): write; raise    (rolled back by the context manager)
    begin_block       with conn.begin(): write           (committed by the context manager)
    autocommit_opt    execution_options(isolation_level="AUTOCOMMIT"); write; close
    read_uncommitted  execution_options(isolation_level="READ UNCOMMITTED"); write; close
    stmt_error        write; failing statement; close
    gc                write; drop the Connection without close; gc.collect()  (pool finalizer)
    gc_autocommit     AUTOCOMMIT option; write; drop without close
    raw               engine.raw_connection(): cursor.execute(insert); close()   (no commit)
    detach            detach(); write; close
    invalidate        write; invalidate(); close
    two_conns         c1 = connect(); c2 = connect(); c2 writes; c2.close(); c1.close()   (pools with room for 2)
    token_then_iso    execution_options(logging_token=..) then execution_options(isolation_level="AUTOCOMMIT"); write; close
    iso_then_token    execution_options(isolation_level="READ UNCOMMITTED") then execution_options(logging_token=..); write; close
    iso_twice         isolation_level="READ UNCOMMITTED" then isolation_level="AUTOCOMMIT" on the same checkout; write; close
    engine_token_conn_iso   engine.execution_options(logging_token=..).connect(), then isolation_level="AUTOCOMMIT"; write; close
    engine_iso        engine.execution_options(isolation_level="READ UNCOMMITTED").connect(); write; close

and finally checks out once more.  Thorough adds one injected driver fault (disconnect-class or
plain error) at every ``rollback`` / ``commit`` / ``close`` call that a program's *release* makes
(reset-on-return, real close; the characteristics-reset PRAGMA calls are C26's, see run_shard).

Oracle -- evaluated at **every** checkout, on the raw DBAPI connection, before the user touches
it (unless reset-on-return was explicitly disabled, where the statement makes no claim):
 O1 no open transaction: ``in_transaction`` is False (legacy mode);
 O2 no uncommitted writes: the rows the handed-out connection sees == the rows an independent
    observer sees, and the observer can take the database write lock at once
    (``BEGIN IMMEDIATE``), i.e. no pooled connection kept a transaction;
 O3 isolation / autocommit state at the engine default: sqlite3 ``isolation_level`` attribute,
    ``autocommit`` attribute and ``PRAGMA read_uncommitted``;
 O4 the new ``Connection`` has the engine's execution options only;
 O5 published rows: everything committed (explicitly, by a ``begin()`` block, or under the
    AUTOCOMMIT option) is there; nothing explicitly rolled back, discarded by invalidate(), or
    -- with reset "rollback" -- left open by an earlier user is there (with reset "commit"
    work left open may legitimately be committed or rolled back, depending on who resets);
 O6 nothing but the program's own expected error escapes (no internal errors).
(Isolation changes made by hand on the raw DBAPI connection, behind SQLAlchemy's back, are not part of the
statement -- the pool cannot know about them -- and are not explored.)

Mutations caught (private copy, README rule 6; each produced VIOLATION lines on the quick tier):
 M7 engine/default.py _set_connection_characteristics: reset finalizer registered only when none is registered yet
    (first execution_options() call wins) -> O3-isolation-state after token_then_iso / engine_token_conn_iso
 M8 same spot: finalizers replaced instead of appended (last call wins) -> O3-isolation-state after iso_then_token
 M1 engine/base.py Connection.invalidate: passes soft=True (DBAPI connection not closed)       -> O5-lost-work-published
 M2 pool/base.py _ConnectionRecord.checkin: finalize_callback entries not called               -> O3-isolation-state
 M3 pool/base.py checkout weakref callback: transaction_was_reset=True on the GC path          -> O1-open-transaction
 M4 engine/base.py Connection.close: `_transaction.close()` skipped, skip_reset still True     -> O1-open-transaction
 M6 pool/base.py _ConnectionFairy._reset: rollback branch taken for reset_commit only          -> O1-open-transaction
"""
from __future__ import annotations

import gc
import itertools
import logging
import os
import shutil
import sqlite3
import warnings

from sqlalchemy import create_engine
from sqlalchemy import exc as sa_exc
from sqlalchemy import pool as sa_pool

from .. import core
from ..engines import faults

ID = "C24"
LEVEL = "model_checking"
NPROG = dict(quick=2, thorough=3)
POOLS = ("queue10", "queue11", "null", "static", "singleton", "assertion")
RESETS = ("rollback", "commit", None)
MODES = ("legacy", "ac_false")
PROGRAMS = (
    "idle", "commit", "leave_open", "rollback", "savepoint_open", "begin_block_exc", "begin_block", "autocommit_opt",
    "read_uncommitted", "stmt_error", "gc", "gc_autocommit", "raw", "detach", "invalidate", "two_conns",
    "token_then_iso", "iso_then_token", "iso_twice", "engine_token_conn_iso", "engine_iso",
)
MIDDLE = ("idle", "leave_open", "autocommit_opt", "gc", "raw", "invalidate", "iso_then_token", "stmt_error")
META = dict(
    engine="H+F",
    technique="exhaustive enumeration of sequences of user programs on a real Engine/pool over a ledger proxy of sqlite3; "
    "state of the raw DBAPI connection inspected at every checkout; fault injection at every reset/close driver call",
    design_ref="DESIGN.md §5 C24",
    level_text="All sequences of <=2 (quick) / <=3 (thorough) of 21 user programs (commit, leave open, rollback, savepoint "
    "left open, begin() blocks, AUTOCOMMIT / READ UNCOMMITTED execution options, failing statement, garbage-collected "
    "Connection, raw_connection() work, detach, invalidate, two connections) x 6 pool classes x 3 reset_on_return "
    "settings x 2 sqlite3 transaction modes; thorough adds one injected driver error at every rollback / commit / close "
    "call made while a connection is released.  At every checkout the raw DBAPI connection (transaction flag, "
    "visible rows, isolation attributes) and an independent observer connection (published rows, write-lock "
    "availability) are compared with what the statement allows.",
    level_note="Trusted: the ledger proxy and this driver's table of which markers each program commits / rolls back / "
    "leaves open.  SQLite only: server-side isolation levels of PostgreSQL / MariaDB are not observable here; SQLite's "
    "connection-level flags are.  Single thread.",
    rule="state = (configuration, what the previous programs left: markers committed / open, observed driver flags at "
    "checkout); transition = one user program; trace = one program sequence incl. final checkout; non-trivial case = a "
    "sequence in which some earlier program left work open, changed isolation, errored, was collected or invalidated",
    assumptions=["single thread", "programs run one after another (two_conns nests two checkouts)"],
    bounds=dict(
        quick="all sequences of <=2 of 21 programs x 36 configurations, fault-free",
        thorough="all sequences of <=2 programs and all triples (any, one of 8 middle programs, any) fault-free; all sequences "
        "of <=2 programs with 1 fault at every "
        "release-time driver call x 36 configurations",
    ),
)
SHARD_TIMEOUT = dict(quick=300, thorough=1700)
logging.getLogger("sqlalchemy").addHandler(logging.NullHandler())


class _Boom(Exception):
    pass


class Env:
    def __init__(self):
        self.dir = "/dev/shm/vf-%d-c24" % os.getpid()
        shutil.rmtree(self.dir, ignore_errors=True)
        os.makedirs(self.dir)
        self.db = os.path.join(self.dir, "t.db")
        c = sqlite3.connect(self.db)
        c.execute("create table t (x integer primary key)")
        c.commit()
        c.close()
        self.obs = sqlite3.connect(self.db, isolation_level=None, timeout=0)
        self.world = None
        self.n = 0

    def reset(self):
        w, self.world = self.world, None
        if w is not None:
            w.dispose()
        self.n += 1
        if self.n % 128 == 0:
            gc.collect()
        self.obs.execute("delete from t")

    def dispose(self):
        try:
            self.reset()
            self.obs.close()
        finally:
            shutil.rmtree(self.dir, ignore_errors=True)


def make_engine(env, cfg, dbapi):
    pool, reset, mode = cfg
    kw = dict(module=dbapi, pool_reset_on_return=reset)
    ca = {"timeout": 0, "check_same_thread": False}
    if mode == "ac_false":
        ca["autocommit"] = False
    if pool == "queue10":
        kw.update(poolclass=sa_pool.QueuePool, pool_size=1, max_overflow=0, pool_timeout=0)
    elif pool == "queue11":
        kw.update(poolclass=sa_pool.QueuePool, pool_size=1, max_overflow=1, pool_timeout=0)
    elif pool == "null":
        kw.update(poolclass=sa_pool.NullPool)
    elif pool == "static":
        kw.update(poolclass=sa_pool.StaticPool)
    elif pool == "singleton":
        kw.update(poolclass=sa_pool.SingletonThreadPool)
    elif pool == "assertion":
        kw.update(poolclass=sa_pool.AssertionPool)
    return create_engine("sqlite:///" + env.db, connect_args=ca, **kw)


class World:
    def __init__(self, env, cfg):
        env.reset()
        env.world = self
        self.env = env
        self.cfg = cfg
        self.led = led = faults.Ledger()
        led.enabled = False
        self.eng = make_engine(env, cfg, faults.LedgerDBAPI(led))
        # engine defaults, read from a throw-away first connection (dialect initialisation happens here)
        c = self.eng.connect()
        real = c.connection.dbapi_connection._vf_real
        self.default = self.flags(real)
        self.default_opts = dict(c.get_execution_options())
        c.close()
        del c
        self.nmark = 0
        self.status = {}  # marker -> 'committed' | 'rolledback' | 'open' | 'lost' | 'either'
        self.problems = []
        self.checkouts = 0
        self.isolation_unknown = False
        self.release_from = None
        led.enabled = True

    def dispose(self):
        self.led.enabled = False
        try:
            self.eng.dispose()
        except BaseException:
            pass
        self.led.close_all()

    @staticmethod
    def flags(real):
        return (real.isolation_level, getattr(real, "autocommit", None),
                real.execute("PRAGMA read_uncommitted").fetchone()[0])

    def mark(self, status):
        self.nmark += 1
        self.status[self.nmark] = status
        return self.nmark

    # ---- the oracle, run at every checkout
    def inspect(self, obj, what, own=()):
        """obj: Connection or pool fairy just handed out; own: clauses this checkout itself affects (an OptionEngine
        applies its own options while connecting) and that are therefore judged at the next checkout only"""
        pool, reset, mode = self.cfg
        self.checkouts += 1
        led = self.led
        with led.paused():
            fairy = obj.connection if hasattr(obj, "get_execution_options") else obj
            raw = fairy.dbapi_connection
            real = raw._vf_real
            o = dict(in_tx=real.in_transaction)
            try:
                o["flags"] = self.flags(real)
                o["inside"] = frozenset(r[0] for r in real.execute("select x from t"))
            except sqlite3.Error as e:
                o["flags"], o["inside"] = None, None
                o["error"] = repr(e)
            if mode == "ac_false" and reset is not None:
                try:
                    real.rollback()  # drop the read lock our own SELECT took (the transaction is clean or already reported)
                except sqlite3.Error:
                    pass
            try:
                o["pub"] = frozenset(r[0] for r in self.env.obs.execute("select x from t"))
            except sqlite3.OperationalError:
                o["pub"] = None
            o["lock_free"] = True
            try:
                self.env.obs.execute("begin immediate")
                self.env.obs.execute("rollback")
            except sqlite3.OperationalError:
                o["lock_free"] = False
            if hasattr(obj, "get_execution_options"):
                o["opts"] = dict(obj.get_execution_options())
        self.last = o
        if reset is None:
            return o  # reset-on-return explicitly disabled: the statement makes no claim
        P = self.problems
        if "error" in o:
            P.append(("O6-unusable-connection", "%s: the handed-out connection cannot be read: %s" % (what, o["error"])))
            return o
        if mode == "legacy" and o["in_tx"]:
            P.append(("O1-open-transaction", "%s: in_transaction is True on the handed-out connection" % what))
        if o["pub"] is None or not o["lock_free"]:
            P.append(("O2-lock-left-behind", "%s: the observer cannot %s: a pooled connection kept a transaction"
                      % (what, "read" if o["pub"] is None else "take the write lock")))
        elif o["inside"] != o["pub"]:
            P.append(("O2-uncommitted-writes", "%s: handed-out connection sees %s, other connections see %s"
                      % (what, sorted(o["inside"]), sorted(o["pub"]))))
        if "O3" not in own and not self.isolation_unknown and o["flags"] != self.default:
            P.append(("O3-isolation-state", "%s: (isolation_level, autocommit, read_uncommitted) = %r, engine default %r"
                      % (what, o["flags"], self.default)))
        if "O4" not in own and "opts" in o and o["opts"] != self.default_opts:
            P.append(("O4-execution-options", "%s: new Connection has options %r" % (what, o["opts"])))
        if o["pub"] is not None:
            must = {m for m, s in self.status.items() if s == "committed"}
            mustnot = {m for m, s in self.status.items() if s in ("rolledback", "lost") or (s == "open" and reset == "rollback")}
            if not must <= o["pub"]:
                P.append(("O5-committed-work-missing", "%s: committed markers %s not published" % (what, sorted(must - o["pub"]))))
            if mustnot & o["pub"]:
                kinds = sorted({self.status[m] for m in mustnot & o["pub"]})
                P.append(("O5-%s-work-published" % "+".join(kinds), "%s: markers %s are visible to other connections"
                          % (what, sorted(mustnot & o["pub"]))))
        return o

    # ---- user programs
    def ins(self, conn, status):
        m = self.mark(status)
        conn.exec_driver_sql("insert into t (x) values (%d)" % m)
        return m

    def settle(self, m, status):
        self.status[m] = status

    def release(self, fn):
        """run the releasing call; remember where its driver calls start (fault positions)"""
        if self.release_from is None:
            self.release_from = len(self.led.log)
        fn()

    def run(self, prog):
        pool, reset, mode = self.cfg
        eng = self.eng
        ac_either = "either" if mode == "ac_false" else "committed"
        self.release_from = None
        if prog == "raw":
            f = eng.raw_connection()
            self.inspect(f, prog)
            cur = f.cursor()
            m = self.mark("open")
            cur.execute("insert into t (x) values (%d)" % m)
            cur.close()
            self.release(f.close)
            del f
            return
        if prog == "two_conns":
            c1 = eng.connect()
            self.inspect(c1, prog + "/1")
            try:
                c2 = eng.connect()
            except (sa_exc.TimeoutError, AssertionError):
                c2 = None  # pool has room for one connection only (documented behaviour)
            if c2 is not None:
                if c2.connection.dbapi_connection is not c1.connection.dbapi_connection:
                    self.inspect(c2, prog + "/2")
                self.ins(c2, "open")
                self.release(c2.close)
            self.release(c1.close)
            del c1, c2
            return
        if prog == "engine_token_conn_iso":
            # engine-level logging_token (applied while connecting), then a connection-level isolation level
            conn = eng.execution_options(logging_token="e").connect()
            self.inspect(conn, prog, own=("O4",))
        elif prog == "engine_iso":
            # isolation level set on an OptionEngine: applied by its engine_connect listener during connect()
            conn = eng.execution_options(isolation_level="READ UNCOMMITTED").connect()
            self.inspect(conn, prog, own=("O3", "O4"))
        else:
            conn = eng.connect()
            self.inspect(conn, prog)
        try:
            if prog == "idle":
                pass
            elif prog == "commit":
                m = self.ins(conn, "open")
                conn.commit()
                self.settle(m, "committed")
            elif prog == "leave_open":
                self.ins(conn, "open")
            elif prog == "rollback":
                m = self.ins(conn, "open")
                conn.rollback()
                self.settle(m, "rolledback")
            elif prog == "savepoint_open":
                conn.begin_nested()
                self.ins(conn, "open")
            elif prog == "begin_block_exc":
                try:
                    with conn.begin():
                        m = self.ins(conn, "open")
                        raise _Boom()
                except _Boom:
                    self.settle(m, "rolledback")
            elif prog == "begin_block":
                with conn.begin():
                    m = self.ins(conn, "open")
                self.settle(m, "committed")
            elif prog in ("autocommit_opt", "gc_autocommit"):
                conn = conn.execution_options(isolation_level="AUTOCOMMIT")
                self.ins(conn, ac_either)
            elif prog == "read_uncommitted":
                conn = conn.execution_options(isolation_level="READ UNCOMMITTED")
                self.ins(conn, "open")
            elif prog == "token_then_iso":
                conn = conn.execution_options(logging_token="t")
                conn = conn.execution_options(isolation_level="AUTOCOMMIT")
                self.ins(conn, ac_either)
            elif prog == "iso_then_token":
                conn = conn.execution_options(isolation_level="READ UNCOMMITTED")
                conn = conn.execution_options(logging_token="t")
                self.ins(conn, "open")
            elif prog == "iso_twice":
                conn = conn.execution_options(isolation_level="READ UNCOMMITTED")
                conn = conn.execution_options(isolation_level="AUTOCOMMIT")
                self.ins(conn, ac_either)
            elif prog == "engine_token_conn_iso":
                conn = conn.execution_options(isolation_level="AUTOCOMMIT")
                self.ins(conn, ac_either)
            elif prog == "engine_iso":
                self.ins(conn, "open")
            elif prog == "stmt_error":
                self.ins(conn, "open")
                try:
                    conn.exec_driver_sql("insert into no_such_table values (1)")
                except sa_exc.OperationalError:
                    pass
            elif prog == "gc":
                self.ins(conn, "open")
            elif prog == "detach":
                conn.detach()
                self.ins(conn, "open")
            elif prog == "invalidate":
                m = self.ins(conn, "open")
                self.release(conn.invalidate)
                self.settle(m, "lost")
        finally:
            if prog in ("gc", "gc_autocommit"):
                self.release_from = len(self.led.log)
                del conn
                gc.collect()  # Connection <-> RootTransaction is a cycle: only the cyclic collector frees the fairy
            else:
                try:
                    self.release(conn.close)
                finally:
                    # (if close() itself failed -- injected fault -- run_history drops the exception and collects
                    # garbage: the application lost the Connection and the collector returns the pooled connection)
                    conn = None


# --------------------------------------------------------------------- enumeration


def configs():
    return [(p, r, m) for p in POOLS for r in RESETS for m in MODES]


def shards(tier, seed):
    out = []
    for c in configs():
        for first in PROGRAMS:
            out.append([list(c), first])
    return out


def run_history(env, cfg, progs, fault):
    """-> (world, outcome list).  fault = (program index, call offset within that program's release, kind)"""
    w = World(env, cfg)
    errors = []
    for i, p in enumerate(progs):
        led = w.led
        led.plan.clear()
        start = len(led.log)
        if fault is not None and fault[0] == i:
            # offset is relative to the first release-time call of this program in the fault-free run
            led.plan[fault[1]] = fault[2]
        failed = False
        try:
            w.run(p)
        except (sa_exc.SQLAlchemyError,) as e:
            errors.append((i, p, type(e), str(e)))  # not the exception object: its traceback pins the Connection
            failed = True
        except Exception as e:
            w.problems.append(("O6-internal-error", "program %s raised %s: %s" % (p, type(e).__name__, str(e)[:150])))
            failed = True
        led.plan.clear()
        if failed:
            gc.collect()  # the failed program's Connection is garbage now: the pool's finalizer returns its connection
        w.slices = getattr(w, "slices", []) + [(start, w.release_from, len(led.log))]
    # final checkout
    try:
        c = w.eng.connect()
        w.inspect(c, "final checkout")
        c.close()
        del c
    except sa_exc.SQLAlchemyError as e:
        errors.append((len(progs), "final", type(e), str(e)))
    except Exception as e:
        w.problems.append(("O6-internal-error", "final checkout raised %s: %s" % (type(e).__name__, str(e)[:150])))
    return w, errors


NONTRIVIAL = set(PROGRAMS) - {"idle", "commit", "begin_block"}


def evaluate(rec, env, cfg, progs, fault):
    pool, reset, mode = cfg
    with warnings.catch_warnings():
        warnings.simplefilter("ignore")
        w, errors = run_history(env, cfg, progs, fault)
    led = w.led
    if fault is not None and not led.fired:
        return w, False
    case = dict(cfg=list(cfg), programs=list(progs), fault=list(fault) if fault else None)
    rec.case((cfg, progs, fault), nontrivial=bool(fault) or any(p in NONTRIVIAL for p in progs[:-1]) or progs[-1] in NONTRIVIAL)
    rec.transition(len(progs))
    rec.trace()
    desc = "pool=%s reset=%s mode=%s programs=%s%s" % (pool, reset, mode, "+".join(progs),
                                                     "" if fault is None else " fault=%s@release-call%d of #%d" % (fault[2], fault[1], fault[0]))
    last = w.last if hasattr(w, "last") else {}
    rec.state((cfg, tuple(sorted(w.status.values())), last.get("in_tx"), last.get("flags"), w.checkouts))
    rec.outcome((pool, reset, mode, tuple(sorted(set(w.status.values()))), last.get("in_tx"), last.get("flags"),
                 None if last.get("pub") is None else len(last["pub"]), len(errors), bool(fault)))
    # unexpected errors: with reset disabled or an injected fault, driver errors may surface (e.g. database is locked)
    for i, p, et, es in errors:
        tolerated = reset is None or fault is not None
        if not tolerated:
            w.problems.append(("O6-unexpected-error", "program #%d %s raised %s: %s" % (i, p, et.__name__, es.split("\n")[0][:120])))
    seen = set()
    for kind, what in w.problems:
        if kind in seen:
            continue
        seen.add(kind)
        prev = "+".join(progs)
        rec.violation("%s: pool=%s reset=%s mode=%s after %s%s -> %s" % (
            kind, pool, reset, mode, prev, "" if fault is None else " with %s fault at release" % fault[2], what.split(": ", 1)[-1]),
            "%s: %s\nledger: %s" % (desc, what, [repr(c) for c in led.log][-40:]), case, kind=(kind, pool, reset, mode))
    if fault is None and len(progs) >= 2 and progs[0] in NONTRIVIAL and (len(progs[0]) + len(progs[-1])) % 9 == 4:
        rec.sample(dict(pool=pool, reset_on_return=reset, mode=mode, programs=list(progs), markers=dict(
            (str(k), v) for k, v in w.status.items()), final_checkout=dict(
            in_transaction=last.get("in_tx"), flags=last.get("flags"),
            visible=None if last.get("inside") is None else sorted(last["inside"]),
            published=None if last.get("pub") is None else sorted(last["pub"]))))
    return w, True


def run_shard(shard, tier, rec):
    gc.disable()
    cfg = (shard[0][0], shard[0][1], shard[0][2])
    first = shard[1]
    env = Env()
    try:
        n = NPROG[tier]
        for k in range(0, n):
            pools_ = [PROGRAMS] * k
            if k == 2:
                pools_ = [MIDDLE, PROGRAMS]  # thorough: first and last program from all 21, the middle one from MIDDLE
            for rest in itertools.product(*pools_):
                progs = (first,) + rest
                w, _ = evaluate(rec, env, cfg, progs, None)
                if tier == "thorough" and len(progs) <= 2:
                    # one fault at every driver call made while a program releases its connection
                    led = w.led
                    for i, (start, rel, end) in enumerate(w.slices):
                        if rel is None or progs[i] == "detach":
                            continue  # a detached connection does not return to the pool (its failing reset: C26)
                        for c in led.log[rel:end]:
                            # (the PRAGMA cursor/execute calls of the characteristics reset are not faulted here: an error
                            # there escapes _ConnectionRecord.checkin and loses the pool slot -- C26's open finding "an error
                            # raised by the isolation-level reset callback (finalize_callback) during check-in ..."; on
                            # StaticPool it would show up here as O3)
                            if c.kind in ("rollback", "commit", "close"):
                                for kind in ("disc", "err"):
                                    evaluate(rec, env, cfg, progs, (i, c.idx, kind))
    finally:
        env.dispose()
        gc.enable()


def replay(case):
    rec = core.Rec(ID)
    env = Env()
    gc.disable()
    try:
        cfg = tuple(case["cfg"])
        try:
            evaluate(rec, env, cfg, tuple(case["programs"]), tuple(case["fault"]) if case["fault"] else None)
        except core.StopShard:
            pass
    finally:
        env.dispose()
        gc.enable()
    return [(v["sig"], v["detail"]) for v in rec.violations]
