"""bulkworld -- shared world for C43 (ORM-enabled UPDATE/DELETE vs session sync).

One mapped class ``R(id, a, b, s)`` whose table holds the *full cross product*
of the small value domains (a, b in {NULL,-7,-1,0,2,3}; s in {NULL,'','a%',
'ab'}: 144 rows), a JSON-able tree language for WHERE criteria and SET values
over the operator set of ``orm/evaluator.py``, a case runner that executes one
ORM-enabled UPDATE/DELETE on a freshly loaded session and compares every
in-session object with the database afterwards, and a root-cause localiser
(smallest sub-tree whose in-Python evaluation differs from the database's own
evaluation of the same sub-tree) used only to give failures stable signatures.

Trees (nested lists, JSON-able):
  ["col", name] | ["lit", value]                     leaves (typed by value / column)
  ["ar", op, x, y]    op in add sub mul div mod      integer arithmetic
  ["fdiv", x, y] | ["neg", x] | ["abs", x]           (not evaluable in Python by design)
  ["cat", x, y]                                      string concatenation
  ["cmp", op, x, y]   op in eq ne lt le gt ge
  ["isnull", x] | ["notnull", x]
  ["in", x, [v...]] | ["nin", x, [v...]]
  ["sw", x, y] | ["ew", x, y]                        startswith / endswith
  ["ct", x, y] | ["like", x, y] | ["btw", x, lo, hi] | ["isdf", x, y]   (not evaluable by design)
  ["and", p, q] | ["or", p, q] | ["not", p]
"""
from __future__ import annotations

import itertools

from sqlalchemy import Integer
from sqlalchemy import String
from sqlalchemy import and_
from sqlalchemy import bindparam
from sqlalchemy import create_engine
from sqlalchemy import delete
from sqlalchemy import exc as sa_exc
from sqlalchemy import func
from sqlalchemy import insert
from sqlalchemy import literal
from sqlalchemy import not_
from sqlalchemy import or_
from sqlalchemy import select
from sqlalchemy import update
from sqlalchemy.orm import DeclarativeBase
from sqlalchemy.orm import Session
from sqlalchemy.orm import attributes
from sqlalchemy.orm import mapped_column
from sqlalchemy.orm import with_loader_criteria
from sqlalchemy.pool import StaticPool


class Base(DeclarativeBase):
    pass


class R(Base):
    __tablename__ = "r"
    id = mapped_column(Integer, primary_key=True, autoincrement=False)
    a = mapped_column(Integer)
    b = mapped_column(Integer)
    s = mapped_column(String)


class RN(Base):
    """same shape and rows as R, but Table(implicit_returning=False): synchronize_session='fetch'
    then has to pre-SELECT the matching primary keys instead of using RETURNING"""

    __tablename__ = "rn"
    __table_args__ = {"implicit_returning": False}
    id = mapped_column(Integer, primary_key=True, autoincrement=False)
    a = mapped_column(Integer)
    b = mapped_column(Integer)
    s = mapped_column(String)


ENTITIES = {"R": R, "RN": RN}
CUR = [R]  # entity the case being run is about (set by run_case)

A_DOM = (None, -7, -1, 0, 2, 3)
S_DOM = (None, "", "a%", "ab")
COLS = ("a", "b", "s")
ROWS = [
    dict(id=i + 1, a=a, b=b, s=s)
    for i, (a, b, s) in enumerate((a, b, s) for a in A_DOM for b in A_DOM for s in S_DOM)
]
BASE = {r["id"]: (r["a"], r["b"], r["s"]) for r in ROWS}

_ENGINE = None


def engine():
    """one in-memory database per process, populated once; every case runs in a
    transaction on its single connection that is rolled back afterwards"""
    global _ENGINE
    if _ENGINE is None:
        e = create_engine("sqlite://", poolclass=StaticPool, connect_args={"autocommit": False})
        Base.metadata.create_all(e)
        with e.begin() as c:
            c.execute(insert(R.__table__), ROWS)
            c.execute(insert(RN.__table__), ROWS)
        _ENGINE = e
    return _ENGINE


# ------------------------------------------------------------------ trees

ARITH = {"add": lambda x, y: x + y, "sub": lambda x, y: x - y, "mul": lambda x, y: x * y,
         "div": lambda x, y: x / y, "mod": lambda x, y: x % y}
CMP = {"eq": lambda x, y: x == y, "ne": lambda x, y: x != y, "lt": lambda x, y: x < y,
       "le": lambda x, y: x <= y, "gt": lambda x, y: x > y, "ge": lambda x, y: x >= y}
ARITH_SYM = {"add": "+", "sub": "-", "mul": "*", "div": "/", "mod": "%"}
CMP_SYM = {"eq": "=", "ne": "!=", "lt": "<", "le": "<=", "gt": ">", "ge": ">="}


def build(t, params=None):
    """fresh SQLAlchemy construct for a tree (never shared between routes); values of
    ["par", v] / ["pard", default, v] leaves are collected into `params` (to be passed to
    execute()) under generated names"""
    if params is None:
        params = {}
    return _build(t, params)


def _build(t, P):
    def build(x):
        return _build(x, P)

    def _needle(x):
        # a plain Python string is what applications pass to startswith()/endswith()
        return x[1] if x[0] == "lit" else build(x)

    k = t[0]
    if k == "col":
        return getattr(CUR[0], t[1])
    if k in ("par", "pard"):
        name = "p%d" % len(P)
        v = t[-1]
        P[name] = v
        typ = String() if isinstance(v, str) else Integer()
        return bindparam(name, type_=typ) if k == "par" else bindparam(name, t[1], type_=typ)
    if k == "lit":
        v = t[1]
        return literal(v, String() if isinstance(v, str) else Integer())
    if k == "ar":
        return ARITH[t[1]](build(t[2]), build(t[3]))
    if k == "fdiv":
        return build(t[1]) // build(t[2])
    if k == "neg":
        return -build(t[1])
    if k == "abs":
        return func.abs(build(t[1]))
    if k == "cat":
        return build(t[1]) + build(t[2])
    if k == "cmp":
        return CMP[t[1]](build(t[2]), build(t[3]))
    if k == "isnull":
        return build(t[1]).is_(None)
    if k == "notnull":
        return build(t[1]).is_not(None)
    if k == "in":
        return build(t[1]).in_(list(t[2]))
    if k == "nin":
        return build(t[1]).not_in(list(t[2]))
    if k == "sw":
        return build(t[1]).startswith(_needle(t[2]), autoescape=len(t) > 3)
    if k == "ew":
        return build(t[1]).endswith(_needle(t[2]), autoescape=len(t) > 3)
    if k == "ct":
        return build(t[1]).contains(_needle(t[2]))
    if k == "like":
        return build(t[1]).like(_needle(t[2]))
    if k == "btw":
        return build(t[1]).between(build(t[2]), build(t[3]))
    if k == "isdf":
        return build(t[1]).is_distinct_from(build(t[2]))
    if k == "and":
        return and_(build(t[1]), build(t[2]))
    if k == "or":
        return or_(build(t[1]), build(t[2]))
    if k == "not":
        return not_(build(t[1]))
    raise AssertionError(t)


def show(t):
    k = t[0]
    if k == "col":
        return t[1]
    if k == "lit":
        return "NULL" if t[1] is None else repr(t[1])
    if k == "par":
        return ":param[%r]" % (t[1],)
    if k == "pard":
        return ":param[default %r, passed %r]" % (t[1], t[2])
    if k == "ar":
        return "(%s %s %s)" % (show(t[2]), ARITH_SYM[t[1]], show(t[3]))
    if k == "fdiv":
        return "(%s // %s)" % (show(t[1]), show(t[2]))
    if k in ("neg", "abs"):
        return "%s(%s)" % (k, show(t[1]))
    if k == "cat":
        return "(%s || %s)" % (show(t[1]), show(t[2]))
    if k == "cmp":
        return "%s %s %s" % (show(t[2]), CMP_SYM[t[1]], show(t[3]))
    if k == "isnull":
        return "%s IS NULL" % show(t[1])
    if k == "notnull":
        return "%s IS NOT NULL" % show(t[1])
    if k in ("in", "nin"):
        return "%s %s (%s)" % (show(t[1]), "IN" if k == "in" else "NOT IN", ", ".join("NULL" if v is None else repr(v) for v in t[2]))
    if k in ("sw", "ew", "ct", "like", "isdf"):
        name = dict(sw="startswith", ew="endswith", ct="contains", like="like", isdf="is_distinct_from")[k]
        return "%s.%s(%s%s)" % (show(t[1]), name, show(t[2]), ", autoescape=True" if len(t) > 3 else "")
    if k == "btw":
        return "%s BETWEEN %s AND %s" % (show(t[1]), show(t[2]), show(t[3]))
    if k in ("and", "or"):
        return "(%s %s %s)" % (show(t[1]), k.upper(), show(t[2]))
    if k == "not":
        return "NOT %s" % show(t[1])
    raise AssertionError(t)


def children(t):
    k = t[0]
    if k in ("col", "lit", "par", "pard"):
        return []
    if k in ("ar", "cmp"):
        return [t[2], t[3]]
    if k in ("in", "nin"):
        return [t[1]]
    return [x for x in t[1:] if isinstance(x, (list, tuple))]


def opname(t):
    if t[0] in ("sw", "ew") and len(t) > 3:
        return t[0] + "-autoescape"
    return t[1] if t[0] in ("ar", "cmp") else t[0]


def subtrees_postorder(t):
    for c in children(t):
        yield from subtrees_postorder(c)
    if t[0] not in ("col", "lit"):
        yield t  # includes ["par"..] leaves: a bound parameter is something the evaluator must resolve


def size(t):
    """operator nodes above the leaf predicates: connectives + arithmetic/concat"""
    k = t[0]
    n = 1 if k in ("and", "or", "not", "ar", "cat", "fdiv", "neg", "abs") else 0
    return n + sum(size(c) for c in children(t))


def tuplify(x):
    if isinstance(x, (list, tuple)):
        return tuple(tuplify(i) for i in x)
    return x


# ------------------------------------------------------------------ criteria universe

C_A, C_B, C_S = ["col", "a"], ["col", "b"], ["col", "s"]


def L(v):
    return ["lit", v]


def atoms0():
    """predicates over leaves (no arithmetic), simplest first"""
    out = []
    for op in ("eq", "ne", "lt", "le", "gt", "ge"):
        for rhs in (L(0), L(2), L(-1), C_B):
            out.append(["cmp", op, C_A, rhs])
    out.append(["cmp", "lt", L(0), C_B])
    out.append(["cmp", "eq", C_B, C_B])
    for op in ("eq", "ne", "lt", "ge"):
        for rhs in (L("ab"), L("a%"), L("")):
            out.append(["cmp", op, C_S, rhs])
    for c in (C_A, C_B, C_S):
        out.append(["isnull", c])
        out.append(["notnull", c])
    for k in ("in", "nin"):
        for vals in ([2], [2, None], [], [-7, 0, 3], [None]):
            out.append([k, C_A, vals])
        for vals in (["ab", None], ["", "a%"]):
            out.append([k, C_S, vals])
    for k in ("sw", "ew"):
        for nd in ("a", "a%", "%", "", "b", "ab"):
            out.append([k, C_S, L(nd)])
        out.append([k, C_S, C_S])
    for k in ("sw", "ew"):
        for nd in ("a", "a%", "%"):
            out.append([k, C_S, L(nd), "autoescape"])
    # explicit bound parameters whose values arrive with execute()
    out += [["cmp", "eq", C_A, ["par", 2]], ["cmp", "gt", C_A, ["pard", 0, 2]], ["cmp", "eq", C_S, ["par", "ab"]], ["in", C_A, [2, 3]]]
    # not evaluable in Python by design: 'evaluate' must refuse before touching anything
    out += [["ct", C_S, L("a")], ["ct", C_S, L("%")], ["like", C_S, L("a%")], ["btw", C_A, L(0), L(2)], ["isdf", C_A, C_B]]
    return out


def terms1():
    """integer / string terms with exactly one operator"""
    out = []
    for op in ("add", "sub", "mul", "div", "mod"):
        for x, y in ((C_A, C_B), (C_A, L(3)), (C_A, L(2)), (C_A, L(0)), (C_A, L(-1)), (L(3), C_A), (L(-7), C_A)):
            out.append(["ar", op, x, y])
    return out


def sterms1():
    return [["cat", C_S, L("b")], ["cat", C_S, C_S], ["cat", L("a"), C_S], ["cat", C_S, L("%")]]


def atoms1():
    """predicates containing one arithmetic / concat operator"""
    out = []
    for t in terms1():
        for op, rhs in (("eq", L(-1)), ("eq", L(1)), ("eq", L(0)), ("lt", L(0)), ("ge", L(2)), ("eq", C_B), ("ne", L(2))):
            out.append(["cmp", op, t, rhs])
        out.append(["isnull", t])
        out.append(["in", t, [-1, 1, None]])
    for t in sterms1():
        out += [["cmp", "eq", t, L("abb")], ["cmp", "eq", t, L("a%b")], ["cmp", "ne", t, L("aab")], ["sw", t, L("a%")], ["ew", t, L("%")], ["isnull", t]]
    out += [["cmp", "eq", ["fdiv", C_A, L(2)], L(1)], ["cmp", "lt", ["neg", C_A], L(0)], ["cmp", "eq", ["abs", C_A], L(7)]]
    return out


def atoms2():
    """two arithmetic operators (thorough)"""
    out = []
    t1 = terms1()
    for t in t1:
        for op in ("add", "mod", "div", "mul"):
            for y in (C_B, L(2), L(-7)):
                for cop, rhs in (("eq", L(-1)), ("lt", L(1)), ("eq", L(0))):
                    out.append(["cmp", cop, ["ar", op, t, y], rhs])
    for t, u in itertools.product(t1[::3], t1[1::4]):
        out.append(["cmp", "eq", t, u])
        out.append(["cmp", "lt", t, u])
    return out


def core_atoms():
    """the small atom base for deep boolean combinations: between them the atoms
    take every truth value (TRUE/FALSE/NULL) in every combination over the rows"""
    return [
        ["cmp", "gt", C_A, L(0)],
        ["cmp", "eq", C_B, L(0)],
        ["isnull", C_A],
        ["cmp", "eq", C_S, L("ab")],
        ["in", C_B, [2, None]],
        ["cmp", "lt", C_B, C_A],
        ["sw", C_S, L("a")],
        ["cmp", "ne", C_B, L(2)],
    ]


def bool_trees(atoms, n):
    """all boolean trees with exactly n connectives over the atom list"""
    if n == 0:
        for a in atoms:
            yield a
        return
    for p in bool_trees(atoms, n - 1):
        yield ["not", p]
    for k in range(n):
        for op in ("and", "or"):
            for p in bool_trees(atoms, k):
                for q in bool_trees(atoms, n - 1 - k):
                    yield [op, p, q]


def criteria(tier):
    """-> list of (level, tree), simplest first.  level names the sub-family"""
    out = []
    a0, a1, core = atoms0(), atoms1(), core_atoms()
    out += [("L0", t) for t in a0]
    out += [("L0a", t) for t in a1]
    out += [("L1n", ["not", t]) for t in a0 + a1]
    for op in ("and", "or"):
        for k in core:
            for t in a0:
                if t in core and core.index(t) <= core.index(k):
                    continue
                out.append(("L1", [op, k, t]))
                out.append(("L1", [op, t, k]))
        for k in core:
            for k2 in core:
                out.append(("L1", [op, k, k2]))
    out += [("L2", t) for t in bool_trees(core, 2)]
    if tier == "thorough":
        out += [("L0b", t) for t in atoms2()]
        out += [("L2n", ["not", ["not", t]]) for t in a0 + a1]
        for op in ("and", "or"):
            for t in a1:
                for k in core[:4]:
                    out.append(("L2a", [op, k, t]))
                    out.append(("L2a", ["not", [op, t, k]]))
        out += [("L3", t) for t in bool_trees(core[:6], 3)]
    seen, res = set(), []
    for lv, t in out:
        key = repr(t)
        if key not in seen:
            seen.add(key)
            res.append((lv, t))
    return res


SET_CLAUSES = [
    {"b": L(9)},
    {"b": L(None)},
    {"b": ["ar", "add", C_A, L(1)]},
    {"a": C_B},
    {"b": ["ar", "mod", C_A, L(3)]},
    {"s": L("q")},
    {"s": ["cat", C_S, L("x")]},
    {"b": ["ar", "mul", C_A, C_B]},
    {"b": ["ar", "div", C_A, L(2)]},
    {"b": ["ar", "sub", C_B, C_A], "s": L("w")},
    {"a": C_B, "b": C_A},
    {"a": ["ar", "add", C_A, L(1)], "b": C_A},
    {"b": ["neg", C_A]},
    {"b": ["fdiv", C_A, L(2)]},
    {"b": ["abs", C_A]},
    {"b": ["ar", "mod", C_B, C_A]},
    {"b": ["ar", "div", L(6), C_A]},
    {"b": ["par", 5]},
    {"b": ["ar", "add", C_A, ["pard", 1, 4]]},
]


def show_set(sc):
    return ", ".join("%s=%s" % (k, show(v)) for k, v in sc.items())


# ------------------------------------------------------------------ session variants

VARIANTS = ("clean", "expired", "pending", "pending_noflush", "partial_load")


def prepare(sess, variant):
    """load objects / perturb them according to the variant; returns the object list.
    The perturbation is a fixed function of the primary key (no randomness)."""
    if variant == "partial_load":
        objs = sess.scalars(select(CUR[0]).where(CUR[0].id % 3 != 0).order_by(CUR[0].id)).all()
    else:
        objs = sess.scalars(select(CUR[0]).order_by(CUR[0].id)).all()
    if variant == "expired":
        for o in objs:
            i = o.id
            if i % 5 == 0:
                sess.expire(o)
            elif i % 5 == 1:
                sess.expire(o, ["a"])
            elif i % 5 == 2:
                sess.expire(o, ["s"])
            elif i % 5 == 3:
                sess.expire(o, ["b"])
    elif variant == "pending":
        # un-flushed application changes; autoflush (on by default) must write them first
        for o in objs:
            i = o.id
            if i % 4 == 0:
                o.a = 2 if o.a != 2 else None
            elif i % 4 == 1:
                o.b = 0 if o.b != 0 else -7
            elif i % 4 == 2:
                o.s = "ab" if o.s != "ab" else None
    elif variant == "pending_noflush":
        # autoflush switched off by the application: only column s carries pending
        # changes and the cases run with this variant never read s (criteria and SET
        # sources over a, b only), so the statement's meaning does not depend on them
        for o in objs:
            if o.id % 2 == 0:
                o.s = "zz"
    return objs


# ------------------------------------------------------------------ one case

SCALAR = (int, float, str, type(None))


def narrowing(ent):
    """the extra entity criterion used with with_loader_criteria(): excludes rows (b NULL or
    negative) that a WHERE clause alone may well match"""
    return ent.b >= 0


def make_stmt(kind, crit, setc, returning, params, opt=None):
    E = CUR[0]
    if kind == "update":
        st = update(E)
        st = st.values({getattr(E, k): build(v, params) for k, v in setc.items()})
    else:
        st = delete(E)
    if crit is not None:
        st = st.where(build(crit, params))
    if returning:
        st = st.returning(E.id)
    if opt == "wlc_lambda":
        st = st.options(with_loader_criteria(E, lambda cls: cls.b >= 0))
    elif opt == "wlc_plain":
        st = st.options(with_loader_criteria(E, narrowing(E)))
    elif opt == "populate_existing":
        st = st.execution_options(populate_existing=True)
        if E is R:
            st = st.returning(E)  # the documented use: RETURNING entities refreshed in place
    return st


def _pk(state):
    return state.key[1][0]


def _snap(objs, with_pending=True):
    out = []
    for o in objs:
        st = attributes.instance_state(o)
        d = st.dict
        out.append((st.persistent, tuple((k, d[k]) for k in ("id",) + COLS if k in d), tuple(sorted(st.committed_state)) if with_pending else ()))
    return out


def _compare(objs, before, after, matched, pending):
    """the property's oracle: every in-session object vs the database after the statement.
    A loaded attribute must equal the row; an expired attribute is fine (it is re-read
    on access); an object whose row is gone must not stay persistent with loaded state."""
    problems = []
    for o in objs:
        st = attributes.instance_state(o)
        pk = _pk(st)
        d = st.dict
        row = after.get(pk)
        loaded = [k for k in COLS if k in d]
        if row is None:
            if st.persistent and loaded:
                problems.append(("zombie", "row id=%d was deleted (before: %r) but the object is still persistent with loaded %r" % (pk, before[pk], {k: d[k] for k in loaded}), pk, None))
            continue
        if not st.persistent:
            problems.append(("ghost", "row id=%d %r still exists but the object left the session" % (pk, row), pk, None))
            continue
        pend = pending.get(pk, ())
        for k in loaded:
            v = d[k]
            want = row[COLS.index(k)]
            if not isinstance(v, SCALAR):
                problems.append(("bad-value", "id=%d .%s holds %s (row %r)" % (pk, k, type(v).__name__, row), pk, k))
            elif k in pend and k in st.committed_state:
                continue  # un-flushed application change kept pending (autoflush off): flush will write it
            elif v != want or (v is None) != (want is None):
                sym = "stale-attr" if pk in matched else "unmatched-changed"
                problems.append((sym, "id=%d before %r: object .%s=%r, database row now %r" % (pk, before[pk], k, v, row), pk, k))
    return problems


def run_bulk_case(case):
    """ORM bulk UPDATE by primary key: session.execute(update(R), [param dicts]).
    case: params (list of dicts with id + columns), sync, variant"""
    params, sync, variant = case["params"], case["sync"], case.get("variant", "clean")
    eng = engine()
    problems, info = [], {}
    with eng.connect() as conn:
        sess = Session(conn)
        try:
            objs = prepare(sess, variant)
            noflush = variant == "pending_noflush"
            pending = {}
            if noflush:
                for o in objs:
                    st = attributes.instance_state(o)
                    if st.committed_state:
                        pending[_pk(st)] = set(st.committed_state)
            before = {r[0]: tuple(r[1:]) for r in conn.execute(select(R.__table__)).all()}
            model = dict(before)
            for p in params:
                row = list(model[p["id"]])
                for k, v in p.items():
                    if k != "id":
                        row[COLS.index(k)] = v
                model[p["id"]] = tuple(row)
            pre = _snap(objs)
            opts = {"synchronize_session": sync}
            if noflush:
                opts["autoflush"] = False
            exc = None
            try:
                sess.execute(update(R), [dict(p) for p in params], execution_options=opts)
            except Exception as e:  # noqa
                exc = e
            after = {r[0]: tuple(r[1:]) for r in conn.execute(select(R.__table__)).all()}
            info["matched"] = len(params)
            info["changed"] = sum(1 for k in before if after.get(k) != before[k])
            if exc is not None:
                untouched = after == before and _snap(objs) == pre
                if isinstance(exc, sa_exc.InvalidRequestError) and untouched and sync == "fetch":
                    info["outcome"] = "refused"  # documented: 'fetch' is not available for bulk-by-pk
                    return dict(problems=[], info=info)
                sym = "raised-after-change" if not untouched else "crash-before-change"
                problems.append((sym, "%s: %s" % (type(exc).__name__, str(exc)[:300]), None, None))
                info["outcome"] = sym + " " + type(exc).__name__
                return dict(problems=problems, info=info)
            info["outcome"] = "ok"
            if after != model:
                bad = [k for k in model if after.get(k) != model[k]]
                problems.append(("wrong-rows-written", "rows %r: database %r, parameter sets imply %r" % (bad[:4], [after.get(k) for k in bad[:4]], [model[k] for k in bad[:4]]), None, None))
            if sync is False:
                if _snap(objs) != pre:
                    problems.append(("unsynchronized-but-touched", "objects changed with synchronize_session=False", None, None))
                return dict(problems=problems, info=info)
            problems += _compare(objs, before, after, {p["id"] for p in params}, pending)
            return dict(problems=problems, info=info)
        finally:
            sess.close()
            conn.rollback()


def _matched(conn, crit, before, opt=None):
    E = CUR[0]
    P = {}
    st = select(E.__table__.c.id)
    if crit is not None:
        st = st.where(build(crit, P))
    if opt in ("wlc_lambda", "wlc_plain"):
        st = st.where(narrowing(E))
    return set(conn.execute(st, P).scalars())


def run_case(case):
    """Execute one case on a fresh session.  case keys: kind (update|delete), crit
    (tree|None), set (dict col->tree), sync (evaluate|fetch|auto|False), variant,
    returning (bool), route (execute|query).
    -> dict(problems=[(symptom, detail, obj_id, attr)], outcome=..., matched=n, ...)"""
    kind, crit, setc = case["kind"], case.get("crit"), case.get("set") or {}
    sync, variant = case["sync"], case.get("variant", "clean")
    returning, route = case.get("returning", False), case.get("route", "execute")
    opt, hint = case.get("opt"), case.get("hint")
    eng = engine()
    problems = []
    info = {}
    with eng.connect() as conn:
        sess = Session(conn)
        CUR[0] = ENTITIES[case.get("entity", "R")]
        try:
            objs = prepare(sess, variant)
            noflush = variant == "pending_noflush"
            pending = {}
            if noflush:
                for o in objs:
                    st = attributes.instance_state(o)
                    if st.committed_state:
                        pending[_pk(st)] = set(st.committed_state)
            if variant == "pending":
                # reference 'before' image = pristine rows + the pending changes, computed
                # in a scratch transaction by an explicit flush (the real run below relies
                # on the statement's own autoflush)
                sess.flush()
                before = {r[0]: tuple(r[1:]) for r in conn.execute(select(CUR[0].__table__)).all()}
                matched = _matched(conn, crit, before, opt)
                sess.close()
                conn.rollback()
                sess = Session(conn)
                objs = prepare(sess, variant)
            else:
                before = {r[0]: tuple(r[1:]) for r in conn.execute(select(CUR[0].__table__)).all()}
                try:
                    matched = _matched(conn, crit, before, opt)
                except sa_exc.DBAPIError:  # the database itself rejects the criterion: not a case
                    info["outcome"] = "db-rejects"
                    return dict(problems=[], info=info)
            wp = variant != "pending"  # there the statement's autoflush legitimately clears pending state
            pre = _snap(objs, wp)
            opts = {"synchronize_session": sync}
            if noflush:
                opts["autoflush"] = False
            if hint:
                opts[hint] = True  # is_delete_using / is_update_from: no RETURNING, pre-SELECT instead
            exc = None
            res_ids = None
            try:
                P = {}
                if route == "query":
                    q = sess.query(CUR[0])
                    if crit is not None:
                        q = q.filter(build(crit, P))
                    if noflush:
                        q = q.execution_options(autoflush=False)
                    if kind == "update":
                        vals = {getattr(CUR[0], k): build(v, P) for k, v in setc.items()}
                        q.params(**P).update(vals, synchronize_session=sync)
                    else:
                        q.params(**P).delete(synchronize_session=sync)
                else:
                    stmt = make_stmt(kind, crit, setc, returning, P, opt)
                    res = sess.execute(stmt, P, execution_options=opts)
                    if returning:
                        res_ids = sorted(r[0] for r in res.all())
                    elif opt == "populate_existing" and CUR[0] is R:
                        got = res.scalars().all()  # populate_existing + RETURNING entity
                        res_ids = sorted(attributes.instance_state(o).key[1][0] for o in got)
                        if res_ids != sorted(matched):
                            problems.append(("returning-mismatch", "RETURNING entities gave ids %r, the database matched %r" % (res_ids[:8], sorted(matched)[:8]), None, None))
            except Exception as e:  # noqa
                exc = e
            after = {r[0]: tuple(r[1:]) for r in conn.execute(select(CUR[0].__table__)).all()}
            info["matched"] = len(matched)
            info["changed"] = sum(1 for k in before if after.get(k) != before[k])
            if exc is not None:
                refused = isinstance(exc, sa_exc.InvalidRequestError) and not isinstance(exc, sa_exc.DBAPIError)
                if isinstance(exc, sa_exc.DBAPIError):
                    info["outcome"] = "db-error " + type(exc.orig).__name__
                    if after != before:
                        problems.append(("db-error-but-changed", repr(exc)[:200], None, None))
                    return dict(problems=problems, info=info)
                untouched = after == before and _snap(objs, wp) == pre
                if refused and untouched and sync == "evaluate":
                    info["outcome"] = "refused"
                    return dict(problems=[], info=info)
                sym = "raised-after-change" if not untouched else ("auto-or-fetch-raised" if refused else "crash-before-change")
                problems.append((sym, "%s: %s" % (type(exc).__name__, str(exc)[:300]), None, None))
                info["outcome"] = sym + " " + type(exc).__name__
                info["exc"] = type(exc).__name__
                return dict(problems=problems, info=info)
            info["outcome"] = "ok"
            if returning and res_ids is not None and res_ids != sorted(matched):
                problems.append(("returning-mismatch", "RETURNING gave ids %r, the database matched %r" % (res_ids[:8], sorted(matched)[:8]), None, None))
            if sync is False:
                # documented: no synchronisation; the only requirement is non-interference
                if _snap(objs, wp) != pre:
                    problems.append(("unsynchronized-but-touched", "objects changed with synchronize_session=False", None, None))
                return dict(problems=problems, info=info)
            problems += _compare(objs, before, after, matched, pending)
            return dict(problems=problems, info=info, before=before)
        finally:
            CUR[0] = R
            sess.close()
            conn.rollback()


# ------------------------------------------------------------------ root-cause localisation


def _cls(v):
    if isinstance(v, BaseException):
        return type(v).__name__
    if v is None:
        return "NULL"
    if v is True or v is False:
        return "TRUE" if v else "FALSE"
    if isinstance(v, (int, float)):
        return "number"
    if isinstance(v, str):
        return "string"
    return type(v).__name__


def _same(p, q):
    if isinstance(p, BaseException) or isinstance(q, BaseException):
        return False
    if p is None or q is None:
        return p is None and q is None
    if isinstance(p, bool) or isinstance(q, bool):
        return bool(p) == bool(q) and isinstance(p, (bool, int)) and isinstance(q, (bool, int))
    if isinstance(p, (int, float)) and isinstance(q, (int, float)):
        return abs(p - q) <= 1e-9 * max(1.0, abs(p), abs(q))
    return p == q


_EVAL_CACHE = {}


def eval_both(t, pk):
    """(python value per orm/evaluator, value computed by the database) of sub-tree t
    on the pristine row pk; python side 'UNEVALUATABLE' when refused"""
    key = (repr(t), pk)
    if key not in _EVAL_CACHE:
        if len(_EVAL_CACHE) > 300000:
            _EVAL_CACHE.clear()
        _EVAL_CACHE[key] = _eval_both(t, pk)
    return _EVAL_CACHE[key]


def _eval_both(t, pk):
    from sqlalchemy import Float, Numeric, type_coerce
    from sqlalchemy.orm import evaluator

    eng = engine()
    with eng.connect() as conn:
        sess = Session(conn)
        try:
            o = sess.get(R, pk)
            P = {}
            expr = build(t, P)
            if isinstance(expr.type, Numeric):
                expr = type_coerce(expr, Float())  # the raw driver value, not a rounded Decimal
            try:
                sqlv = conn.execute(select(expr).where(R.__table__.c.id == pk), P).scalar()
            except sa_exc.DBAPIError as e:
                sqlv = e
            try:
                P2 = {}
                expr2 = build(t, P2)
                try:
                    comp = evaluator._EvaluatorCompiler(R, P2)  # execution-time parameter values
                except TypeError:
                    comp = evaluator._EvaluatorCompiler(R)
                fn = comp.process(expr2)
            except evaluator.UnevaluatableError:
                return "UNEVALUATABLE", sqlv
            try:
                pyv = fn(o)
            except Exception as e:  # noqa
                pyv = e
            return pyv, sqlv
        finally:
            sess.close()
            conn.rollback()


_IS_BOOL = ("cmp", "isnull", "notnull", "in", "nin", "sw", "ew", "and", "or", "not")


def culprit(t, pk):
    """smallest sub-tree (post-order) of t on which the evaluator and the database
    disagree for row pk -> (subtree, py, sql) or None"""
    for sub in subtrees_postorder(t):
        pyv, sqlv = eval_both(sub, pk)
        if isinstance(pyv, str) and pyv == "UNEVALUATABLE":
            continue
        if sub[0] in _IS_BOOL and isinstance(sqlv, int):
            sqlv = bool(sqlv)
        if not _same(pyv, sqlv):
            return sub, pyv, sqlv
    return None


def _operand_values(sub, pk):
    vals = []
    for c in children(sub):
        if c[0] == "lit":
            vals.append(c[1])
        elif c[0] == "col":
            vals.append(BASE[pk][COLS.index(c[1])])
        else:
            _, sv = eval_both(c, pk)
            if c[0] in _IS_BOOL and isinstance(sv, int):
                sv = bool(sv)
            vals.append(sv)
    if sub[0] in ("in", "nin"):
        vals.append(tuple(sub[2]))
    return vals


def _fmt(v):
    if v is None:
        return "NULL"
    if v is True:
        return "TRUE"
    if v is False:
        return "FALSE"
    if isinstance(v, BaseException):
        return type(v).__name__
    if isinstance(v, tuple):
        return "(" + ", ".join(_fmt(x) for x in v) + ")"
    return repr(v)


_PROBES = None
_WITNESS = {}


def _probe_exprs(op):
    """canonical column-operand expressions with `op` at the root; scanned over all rows"""
    if op in ARITH:
        return [["ar", op, C_A, C_B]]
    if op in CMP:
        return [["cmp", op, C_A, C_B], ["cmp", op, C_S, L("ab")]]
    if op in ("and", "or"):
        p, q = ["cmp", "gt", C_A, L(0)], ["cmp", "gt", C_B, L(0)]
        return [[op, p, q]]
    if op == "not":
        return [["not", ["cmp", "gt", C_A, L(0)]], ["not", ["and", ["cmp", "gt", C_A, L(0)], ["cmp", "gt", C_B, L(0)]]]]
    if op in ("isnull", "notnull"):
        return [[op, C_A], [op, C_S]]
    if op in ("in", "nin"):
        return [[op, C_A, v] for v in ([], [2], [None], [2, None], [-7, 0, 3])]
    if op in ("sw", "ew"):
        return [[op, C_S, L(n)] for n in ("", "a", "b", "%", "a%", "ab")] + [[op, C_S, C_S]]
    if op in ("sw-autoescape", "ew-autoescape"):
        return [[op[:2], C_S, L(n), "autoescape"] for n in ("", "a", "b", "%", "a%", "ab")]
    if op == "par":
        return [["par", 2], ["par", "ab"]]
    if op == "pard":
        return [["pard", 0, 2]]
    if op == "cat":
        return [["cat", C_S, L("b")], ["cat", C_S, C_S]]
    return []


def witness(op, pycls, sqlcls):
    """deterministic minimal witness for a root-cause class: first (canonical
    expression, row in id order) on which the evaluator gives a value of class pycls
    where the database gives one of class sqlcls.  Independent of the failing case."""
    key = (op, pycls, sqlcls)
    if key in _WITNESS:
        return _WITNESS[key]
    found = None
    for expr in _probe_exprs(op):
        seen = set()
        for r in ROWS:
            vals = tuple(_operand_values(expr, r["id"]))
            if vals in seen:
                continue
            seen.add(vals)
            pyv, sqlv = eval_both(expr, r["id"])
            if isinstance(pyv, str) and pyv == "UNEVALUATABLE":
                break
            if expr[0] in _IS_BOOL and isinstance(sqlv, int):
                sqlv = bool(sqlv)
            if not _same(pyv, sqlv) and _cls(pyv) == pycls and _cls(sqlv) == sqlcls:
                found = "%s(%s): python %s, SQL %s" % (op, ", ".join(_fmt(v) for v in vals), _fmt(pyv), _fmt(sqlv))
                break
        if found:
            break
    _WITNESS[key] = found
    return found


def _assigned_read(setc):
    """a SET source reads a column that the same statement assigns"""
    def reads(t, names):
        if t[0] == "col":
            return t[1] in names
        return any(reads(c, names) for c in children(t))
    return len(setc) > 1 and any(reads(v, set(setc) - {k}) for k, v in setc.items())


def describe(case):
    crit, setc = case.get("crit"), case.get("set") or {}
    return "%s WHERE %s%s sync=%r variant=%s%s%s" % (
        case["kind"].upper(), show(crit) if crit is not None else "<all rows>",
        (" SET " + show_set(setc)) if case["kind"] == "update" else "", case["sync"], case.get("variant", "clean"),
        " RETURNING" if case.get("returning") else "", " via Query" if case.get("route") == "query" else "") + "".join(
        " %s=%s" % (k, case[k]) for k in ("entity", "hint", "opt") if case.get(k) and case.get(k) != "R")


def diagnose(case, result):
    """-> list of (kind, signature, detail) root causes for a failing case, deduplicated.
    Evaluator-level causes (found on the clean base case: all objects exact images of
    their rows) get a case-independent signature: operator + value classes + canonical
    minimal witness.  Everything else is described by symptom and case."""
    out, seenk = [], set()
    crit, setc = case.get("crit"), case.get("set") or {}
    variant = case.get("variant", "clean")
    desc = describe(case)
    # deviation from a base case: if the base case already fails, that is the cause
    base = None
    if case.get("entity", "R") != "R" or case.get("hint") or case.get("opt"):
        base = {k: v for k, v in case.items() if k not in ("entity", "hint", "opt")}
    elif case.get("returning") or case.get("route", "execute") != "execute":
        base = dict(case, returning=False, route="execute")
    elif variant != "clean":
        base = dict(case, variant="clean")
    if base is not None:
        res0 = run_case(base)
        if res0["problems"]:
            return [(k, sg, "%s\n  (seen through) %s" % (d, desc)) for k, sg, d in diagnose(base, res0)]
    groups = {}
    for prob in result["problems"]:
        groups.setdefault((prob[0], prob[3]), []).append(prob)
    for (sym, attr), probs in groups.items():
        for sym, detail, pk, attr in probs[:2]:
            cause = None
            if variant == "clean":
                trees = []
                if sym in ("stale-attr", "unmatched-changed", "zombie", "ghost", "raised-after-change", "crash-before-change") and crit is not None:
                    trees.append(crit)
                if sym in ("stale-attr", "bad-value", "raised-after-change", "crash-before-change") and case["kind"] == "update":
                    trees += [v for k, v in setc.items() if attr is None or k == attr]
                pks = [pk] if pk is not None else [r["id"] for r in ROWS]
                for t in trees:
                    for p in pks:
                        cause = culprit(t, p)
                        if cause:
                            pk = p
                            break
                    if cause:
                        break
            if cause:
                sub, pyv, sqlv = cause
                op = opname(sub)
                pc, sc = _cls(pyv), _cls(sqlv)
                kind = ("evaluator", op, pc, sc) if op not in ("par", "pard") else ("evaluator", op)
                if kind in seenk:
                    continue
                seenk.add(kind)
                if op in ("par", "pard"):
                    # a bound parameter leaf: one root cause whatever the value's type
                    sig = "evaluator bindparam: value passed to execute() is ignored, python uses %s; minimal: %s" % (
                        "None" if op == "par" else "the bindparam() default", ":param[2]" if op == "par" else ":param[default 0, passed 2]")
                else:
                    w = witness(op, pc, sc)
                    sig = "evaluator %s: python gives %s where SQL gives %s; minimal: %s" % (op, pc, sc, w or "(no column-operand witness)")
                out.append((kind, sig, "%s\n  %s\n  root cause sub-tree %s on row id=%s %r: python %s, database %s" % (desc, detail, show(sub), pk, BASE.get(pk), _fmt(pyv), _fmt(sqlv))))
            else:
                marker = "SET source reads a column assigned by the same statement" if _assigned_read(setc) and sym == "stale-attr" else ""
                kind = ("sync", sym, case["kind"], marker or variant, bool(case.get("returning")), case.get("route", "execute"),
                        case.get("entity", "R"), case.get("hint"), case.get("opt"))
                if kind in seenk:
                    continue
                seenk.add(kind)
                sig = "%s [%s]: %s" % (sym, marker or variant, desc)
                out.append((kind, sig, "%s\n  %s" % (desc, detail)))
    return out
