"""Result sources for C10: every way of obtaining a ``Result`` over a given row list.

Row universe: three row values per variant, chosen so that projections collide

    variant "h" (hashable)    (1,'a') (1,'b') (None,'a')   col a: 1,1,NULL   col b: a,b,a
    variant "u" (unhashable)  ([1],'a') ([1],'b') (None,'a')   (JSON column -> python list,
                              goes through a result processor; unique() needs a strategy)

A *row set* is a tuple of indexes into that universe, e.g. (0, 0, 2).

One in-memory SQLite database per process holds every row set up to length 4
(table ``d`` / ``dj``, keyed by ``sid``), so a CursorResult for a row set is one
``SELECT a, b FROM d WHERE sid = ? ORDER BY pos``.  A second engine uses a
sub-classed pysqlite dialect that declares ``supports_server_side_cursors`` and
hands out an ordinary sqlite3 cursor as its "server side" cursor: this is what
makes ``context._is_server_side`` true, i.e. the code path every PostgreSQL /
MySQL driver takes with ``stream_results`` / ``yield_per`` (ORM results then
use ``ChunkedIteratorResult(dynamic_yield_per=True)``).
"""
import itertools
import sys
import types
import warnings

from sqlalchemy import bindparam
from sqlalchemy import Column
from sqlalchemy import create_engine
from sqlalchemy import event
from sqlalchemy import Integer
from sqlalchemy import JSON
from sqlalchemy import MetaData
from sqlalchemy import select
from sqlalchemy import String
from sqlalchemy import Table
from sqlalchemy.dialects import registry
from sqlalchemy.dialects.sqlite.pysqlite import SQLiteDialect_pysqlite
from sqlalchemy.engine import cursor as _cursor
from sqlalchemy.engine.result import ChunkedIteratorResult
from sqlalchemy.engine.result import IteratorResult
from sqlalchemy.engine.result import SimpleResultMetaData
from sqlalchemy.orm import registry as orm_registry
from sqlalchemy.orm import Session

UNIVERSE = {
    "h": ((1, "a"), (1, "b"), (None, "a")),
    "u": (([1], "a"), ([1], "b"), (None, "a")),
}
MAXLEN = 4
LONG_SID = 999  # one long row set for the buffer-growth shard
LONG_ROWS = tuple((i % 3) for i in range(13))


def rows_of(variant, idxs):
    """fresh python values (lists are not shared between builds)"""
    out = []
    for i in idxs:
        a, b = UNIVERSE[variant][i]
        out.append((list(a) if isinstance(a, list) else a, b))
    return out


def sid_of(idxs):
    if tuple(idxs) == LONG_ROWS:
        return LONG_SID
    s = 0
    for k, i in enumerate(idxs):
        s += (i + 1) * 4**k
    return s


def all_rowsets(maxlen):
    for n in range(maxlen + 1):
        yield from itertools.product(range(3), repeat=n)


# ------------------------------------------------------------------ dialect with "server side cursors"


class _SSContext(SQLiteDialect_pysqlite.execution_ctx_cls):
    def create_server_side_cursor(self):
        return self._dbapi_connection.cursor()


class SSDialect(SQLiteDialect_pysqlite):
    supports_server_side_cursors = True
    supports_statement_cache = True
    execution_ctx_cls = _SSContext


_m = types.ModuleType("vf_c10_ssdialect")
_m.dialect = SSDialect
sys.modules["vf_c10_ssdialect"] = _m
registry.register("sqlite.vfss", "vf_c10_ssdialect", "dialect")


# ------------------------------------------------------------------ schema / mapping

metadata = MetaData()
d = Table(
    "d", metadata,
    Column("sid", Integer, primary_key=True), Column("pos", Integer, primary_key=True),
    Column("a", Integer), Column("b", String),
)
dj = Table(
    "dj", metadata,
    Column("sid", Integer, primary_key=True), Column("pos", Integer, primary_key=True),
    Column("a", JSON), Column("b", String),
)


class D:
    pass


class DJ:
    pass


_reg = orm_registry()
_reg.map_imperatively(D, d)
_reg.map_imperatively(DJ, dj)


def _core_stmt(t, **opts):
    s = select(t.c.a, t.c.b).where(t.c.sid == bindparam("sid")).order_by(t.c.pos)
    return s.execution_options(**opts) if opts else s


def _orm_stmt(cls, **opts):
    s = select(cls.a, cls.b).where(cls.sid == bindparam("sid")).order_by(cls.pos)
    return s.execution_options(**opts) if opts else s


def STRATEGY(x):
    """unique(strategy=...): value-based key that also works for unhashable values"""
    return repr(list(x)) if hasattr(x, "_fields") else repr(x)


class World:
    def __init__(self):
        self.engines = {}
        self.conns = {}
        self.sessions = {}
        for name, url in (("std", "sqlite://"), ("ss", "sqlite+vfss://")):
            e = create_engine(url)
            c = e.connect()
            metadata.create_all(c)
            for t, variant in ((d, "h"), (dj, "u")):
                params = []
                for idxs in list(all_rowsets(MAXLEN)) + [LONG_ROWS]:
                    for pos, (a, b) in enumerate(rows_of(variant, idxs)):
                        params.append(dict(sid=sid_of(idxs), pos=pos, a=a, b=b))
                c.execute(t.insert(), params)
            c.commit()
            event.listen(e, "after_cursor_execute", self._fully_buffer)
            self.engines[name], self.conns[name] = e, c
            self.sessions[name] = Session(bind=c)
        self.stmts = {}

    @staticmethod
    def _fully_buffer(conn, cursor, statement, parameters, context, executemany):
        # what e.g. the MSSQL dialect does in post_exec(): replace the fetch strategy by
        # one that buffered everything up front
        if context is not None and context.execution_options.get("vf_full"):
            context.cursor_fetch_strategy = _cursor.FullyBufferedCursorFetchStrategy(cursor)

    def _stmt(self, key, maker):
        s = self.stmts.get(key)
        if s is None:
            s = self.stmts[key] = maker()
        return s

    def core(self, variant, idxs, eng="std", **opts):
        t = d if variant == "h" else dj
        s = self._stmt(("core", variant, tuple(sorted(opts.items()))), lambda: _core_stmt(t, **opts))
        return self.conns[eng].execute(s, {"sid": sid_of(idxs)})

    def core_range(self, variant, idxs, lo, hi):
        t = d if variant == "h" else dj
        s = self._stmt(
            ("range", variant),
            lambda: select(t.c.a, t.c.b).where(t.c.sid == bindparam("sid"), t.c.pos >= bindparam("lo"), t.c.pos < bindparam("hi")).order_by(t.c.pos),
        )
        return self.conns["std"].execute(s, {"sid": sid_of(idxs), "lo": lo, "hi": hi})

    def orm(self, variant, idxs, eng="std", **opts):
        cls = D if variant == "h" else DJ
        s = self._stmt(("orm", variant, tuple(sorted(opts.items()))), lambda: _orm_stmt(cls, **opts))
        return self.sessions[eng].execute(s, {"sid": sid_of(idxs)})


_WORLD = None


def world():
    global _WORLD
    if _WORLD is None:
        _WORLD = World()
    return _WORLD


# ------------------------------------------------------------------ sources


def _meta(keys=("a", "b")):
    return SimpleResultMetaData(list(keys))


def _iter(rows, keys=("a", "b")):
    return IteratorResult(_meta(keys), iter(list(rows)))


def _chunks_fn(rows):
    """the contract of ChunkedIteratorResult.chunks (and exactly the shape of
    orm.loading.instances.chunks): called with a size or None, continues from the
    same underlying source"""
    src = iter(list(rows))

    def chunks(size):
        while True:
            chunk = list(itertools.islice(src, size)) if size else list(src)
            if not chunk:
                break
            yield chunk
            if not size:
                break

    return chunks


class Source:
    """name, how to build it, and what the reference model must know about it"""

    def __init__(self, name, build, keys=("a", "b"), transform=None, yield_per=None, scalar_source=False,
                 merged=False, dynamic=False, cursor=False, hidden=False, unique_base=False):
        self.name, self.build = name, build
        self.keys, self.transform, self.yield_per = keys, transform, yield_per
        self.scalar_source, self.merged, self.dynamic, self.cursor, self.hidden = scalar_source, merged, dynamic, cursor, hidden
        self.orm = name.startswith("orm")
        self.chunked = self.orm or name.startswith("chunk")  # a ChunkedIteratorResult

    def model_rows(self, variant, idxs):
        rows = rows_of(variant, idxs)
        return self.transform(rows) if self.transform else rows


def _uniq_rows(rows):
    out = []
    for r in rows:
        if r not in out:
            out.append(r)
    return out


def _merged(v, ix, split):
    rows = rows_of(v, ix)
    k = split(len(rows))
    return _iter(rows[:k]).merge(_iter(rows[k:]))


def _merged3(v, ix):
    rows = rows_of(v, ix)
    return _iter(rows[:1]).merge(_iter(rows[1:2]), _iter(rows[2:]))


def _merged_cur(v, ix):
    w = world()
    k = len(ix) // 2
    return w.core_range(v, ix, 0, k).merge(w.core_range(v, ix, k, 99))


SOURCES = {}


def _reg_source(s):
    SOURCES[s.name] = s


_reg_source(Source("iter", lambda v, ix: _iter(rows_of(v, ix))))
_reg_source(Source(
    "iter_s",
    lambda v, ix: IteratorResult(_meta(("a",)), iter([r[0] for r in rows_of(v, ix)]), _source_supports_scalars=True),
    keys=("a",), transform=lambda rows: [(r[0],) for r in rows], scalar_source=True,
))
_reg_source(Source("chunk", lambda v, ix: ChunkedIteratorResult(_meta(), _chunks_fn(rows_of(v, ix))), hidden=True))
_reg_source(Source(
    "chunk_dyn", lambda v, ix: ChunkedIteratorResult(_meta(), _chunks_fn(rows_of(v, ix)), dynamic_yield_per=True),
    dynamic=True, hidden=True,
))
_reg_source(Source(
    "chunk_s",
    lambda v, ix: ChunkedIteratorResult(_meta(("a",)), _chunks_fn([r[0] for r in rows_of(v, ix)]), source_supports_scalars=True),
    keys=("a",), transform=lambda rows: [(r[0],) for r in rows], scalar_source=True, hidden=True,
))
_reg_source(Source("cur", lambda v, ix: world().core(v, ix), cursor=True))
_reg_source(Source("cur_sr1", lambda v, ix: world().core(v, ix, stream_results=True, max_row_buffer=1), cursor=True))
_reg_source(Source("cur_sr2", lambda v, ix: world().core(v, ix, stream_results=True, max_row_buffer=2), cursor=True))
_reg_source(Source("cur_sr3", lambda v, ix: world().core(v, ix, stream_results=True, max_row_buffer=3), cursor=True))
_reg_source(Source("cur_sr7", lambda v, ix: world().core(v, ix, stream_results=True, max_row_buffer=7), cursor=True))
_reg_source(Source("cur_sr", lambda v, ix: world().core(v, ix, stream_results=True), cursor=True))
_reg_source(Source("cur_yp2", lambda v, ix: world().core(v, ix, yield_per=2), yield_per=2, cursor=True))
_reg_source(Source("cur_full", lambda v, ix: world().core(v, ix, vf_full=True), cursor=True))
_reg_source(Source("cur_ss", lambda v, ix: world().core(v, ix, eng="ss", stream_results=True, max_row_buffer=2), cursor=True))
_reg_source(Source("frozen", lambda v, ix: _iter(rows_of(v, ix)).freeze()()))
_reg_source(Source("frozen_cur", lambda v, ix: world().core(v, ix).freeze()()))
_reg_source(Source(
    "frozen_c10", lambda v, ix: _iter(rows_of(v, ix)).columns(1, 0).freeze()(),
    keys=("b", "a"), transform=lambda rows: [(r[1], r[0]) for r in rows],
))
_reg_source(Source("frozen_uniq", lambda v, ix: _iter(rows_of(v, ix)).unique(STRATEGY).freeze()(), transform=_uniq_rows))
_reg_source(Source("merged", lambda v, ix: _merged(v, ix, lambda n: n // 2), merged=True))
_reg_source(Source("merged0", lambda v, ix: _merged(v, ix, lambda n: 0), merged=True))
_reg_source(Source("merged_n", lambda v, ix: _merged(v, ix, lambda n: n), merged=True))
_reg_source(Source("merged3", _merged3, merged=True))
_reg_source(Source("merged_cur", _merged_cur, merged=True))
_reg_source(Source("orm", lambda v, ix: world().orm(v, ix), hidden=True))
_reg_source(Source("orm_yp2", lambda v, ix: world().orm(v, ix, yield_per=2), yield_per=2, hidden=True))
_reg_source(Source("orm_ss_sr", lambda v, ix: world().orm(v, ix, eng="ss", stream_results=True), dynamic=True, hidden=True))
_reg_source(Source("orm_ss_yp2", lambda v, ix: world().orm(v, ix, eng="ss", yield_per=2), yield_per=2, dynamic=True, hidden=True))


# ------------------------------------------------------------------ views


def apply_view(base, steps, variant):
    """apply the view prefix to a fresh Result; returns the object the program talks to"""
    cur = base
    with warnings.catch_warnings():
        warnings.simplefilter("ignore")
        for s in steps:
            name = s[0]
            if name == "unique":
                cur = cur.unique(STRATEGY) if variant == "u" else cur.unique()
            elif name == "unique_s":
                cur = cur.unique(STRATEGY)
            elif name == "columns":
                cur = cur.columns(*s[1])
            elif name == "yield_per":
                cur = cur.yield_per(s[1])
            elif name == "tuples":
                cur = cur.tuples()
            elif name == "scalars":
                cur = cur.scalars(s[1])
            elif name == "mappings":
                cur = cur.mappings()
            else:
                raise AssertionError(name)
    return cur


def _memo_yield_per(obj):
    """the yield_per captured by a memoized _manyrow_getter closure (pure-Python build), or a marker"""
    fn = getattr(obj, "__dict__", {}).get("_manyrow_getter")
    if fn is None:
        return "-"
    try:
        return dict(zip(fn.__code__.co_freevars, (c.cell_contents for c in fn.__closure__))).get("yield_per", "?")
    except Exception:  # noqa: BLE001 - compiled closure: only presence is visible
        return "memo"


def fingerprint(base, view=None):
    """implementation-side state that the model does not carry (buffer fill, strategy, memoized getters)"""
    out = [bool(getattr(base, "_soft_closed", False)), bool(base.closed), _memo_yield_per(base)]
    if view is not None and view is not base:
        out.append(_memo_yield_per(view))
    cs = getattr(base, "cursor_strategy", None)
    if cs is None:
        raw = getattr(base, "raw", None)
        if raw is not None:
            cs = getattr(raw, "cursor_strategy", None)
            out.append(bool(getattr(raw, "_soft_closed", False)))
    if cs is not None:
        out.append(type(cs).__name__)
        rb = getattr(cs, "_rowbuffer", None)
        out.append(len(rb) if rb is not None else -1)
        out.append(getattr(cs, "_bufsize", -1))
    return tuple(out)
