"""collworld: small declarative mappings for C38 / C49 / C50.

Everything is built once per process (``world()``) on a private registry.

C38  ``KINDS`` = list / set / adict (attribute_keyed_dict("name")) /
     cdict (column_keyed_dict(child.name)): one Parent/Child class pair per
     kind, ``Parent.kids`` with the collection class and backref
     ``Child.parent``.
C49  ``Doc`` with MutableDict / MutableList (JSON), MutableSet (PickleType)
     and a MutableComposite ``Point`` column pair.
C50  ``Slide.bullets`` ordering_list variants; ``Owner`` with list / set /
     dict association proxies and a proxy-of-proxy.
"""
from __future__ import annotations

import sqlalchemy as sa
from sqlalchemy import event
from sqlalchemy import orm
from sqlalchemy.ext.associationproxy import association_proxy
from sqlalchemy.ext.mutable import MutableComposite
from sqlalchemy.ext.mutable import MutableDict
from sqlalchemy.ext.mutable import MutableList
from sqlalchemy.ext.mutable import MutableSet
from sqlalchemy.ext.orderinglist import ordering_list
from sqlalchemy.orm import attribute_keyed_dict
from sqlalchemy.orm import column_keyed_dict
from sqlalchemy.orm import relationship

KINDS = ("list", "set", "adict", "cdict")

_W = None


class World:
    pass


def _mk_pair(Base, kind):
    ptab, ctab = "p_" + kind, "c_" + kind

    def crepr(self):
        return self.name if self.name is not None else "c?"

    Child = type(
        "Child_" + kind,
        (Base,),
        dict(
            __tablename__=ctab,
            id=sa.Column(sa.Integer, primary_key=True),
            parent_id=sa.Column(sa.ForeignKey(ptab + ".id")),
            name=sa.Column(sa.String),
            __repr__=crepr,
        ),
    )

    if kind == "list":
        cc = list
    elif kind == "set":
        cc = set
    elif kind == "adict":
        cc = attribute_keyed_dict("name")
    else:
        cc = column_keyed_dict(Child.__table__.c.name)

    def prepr(self):
        return self.name or "p?"

    Parent = type(
        "Parent_" + kind,
        (Base,),
        dict(
            __tablename__=ptab,
            id=sa.Column(sa.Integer, primary_key=True),
            name=sa.Column(sa.String),
            kids=relationship(Child, collection_class=cc, backref="parent"),
            __repr__=prepr,
        ),
    )
    return Parent, Child


class EventLog:
    """collection events of one relationship attribute, recorded per target"""

    def __init__(self, attr):
        self.log = []
        event.listen(attr, "append", self._append)
        event.listen(attr, "remove", self._remove)
        event.listen(attr, "bulk_replace", self._bulk)
        event.listen(attr, "append_wo_mutation", self._wo)

    def _append(self, target, value, initiator):
        self.log.append(("append", target, value))

    def _remove(self, target, value, initiator):
        self.log.append(("remove", target, value))

    def _bulk(self, target, values, initiator):
        self.log.append(("bulk_replace", target, tuple(values)))

    def _wo(self, target, value, initiator):
        self.log.append(("append_wo_mutation", target, value))

    def reset(self):
        del self.log[:]


# ---------------------------------------------------------------- C49


class Point(MutableComposite):
    def __init__(self, x, y):
        self.x = x
        self.y = y

    def __setattr__(self, key, value):
        object.__setattr__(self, key, value)
        self.changed()

    def __composite_values__(self):
        return self.x, self.y

    def __eq__(self, other):
        return isinstance(other, Point) and other.x == self.x and other.y == self.y

    def __ne__(self, other):
        return not self.__eq__(other)

    def __hash__(self):
        return hash((self.x, self.y))

    def __getstate__(self):
        return self.x, self.y

    def __setstate__(self, state):
        object.__setattr__(self, "x", state[0])
        object.__setattr__(self, "y", state[1])

    def __repr__(self):
        return "Point(%r, %r)" % (self.x, self.y)


def _mk_mutable(Base):
    class Doc(Base):
        __tablename__ = "doc"
        id = sa.Column(sa.Integer, primary_key=True)
        d = sa.Column(MutableDict.as_mutable(sa.JSON))
        l = sa.Column(MutableList.as_mutable(sa.JSON))
        s = sa.Column(MutableSet.as_mutable(sa.PickleType))
        x = sa.Column(sa.Integer)
        y = sa.Column(sa.Integer)
        pt = orm.composite(Point, x, y)
        other = sa.Column(sa.Integer)

    return Doc


# ---------------------------------------------------------------- C50


def tens(index, collection):
    """custom ordering function: 10, 20, 30 ..."""
    return (index + 1) * 10


OL_VARIANTS = ("cf0", "cf1", "tens", "roa")


def _mk_ordering(Base, variant):
    stab, btab = "slide_" + variant, "bullet_" + variant
    if variant == "cf0":
        cc = ordering_list("position")
    elif variant == "cf1":
        cc = ordering_list("position", count_from=1)
    elif variant == "roa":
        cc = ordering_list("position", reorder_on_append=True)
    else:
        cc = ordering_list("position", ordering_func=tens)

    def brepr(self):
        return "%s@%s" % (self.text, self.position)

    Bullet = type(
        "Bullet_" + variant,
        (Base,),
        dict(
            __tablename__=btab,
            id=sa.Column(sa.Integer, primary_key=True),
            slide_id=sa.Column(sa.ForeignKey(stab + ".id")),
            position=sa.Column(sa.Integer),
            text=sa.Column(sa.String),
            __repr__=brepr,
        ),
    )
    Slide = type(
        "Slide_" + variant,
        (Base,),
        dict(
            __tablename__=stab,
            id=sa.Column(sa.Integer, primary_key=True),
            bullets=relationship(Bullet, order_by=[Bullet.position, Bullet.id], collection_class=cc, cascade="all, delete-orphan"),
        ),
    )
    return Slide, Bullet


def expected_position(variant, index):
    if variant in ("cf0", "roa"):
        return index
    if variant == "cf1":
        return index + 1
    return (index + 1) * 10


class Runaway(Exception):
    """raised by the association creators when one case creates too many objects (guards l.extend(l)-style loops)"""


CREATED = [0]
CREATE_LIMIT = 200


def _count():
    CREATED[0] += 1
    if CREATED[0] > CREATE_LIMIT:
        raise Runaway("more than %d intermediary objects created by one operation" % CREATE_LIMIT)


def _mk_proxies(Base):
    # list of scalars through an association object
    class LItem(Base):
        __tablename__ = "ap_litem"
        id = sa.Column(sa.Integer, primary_key=True)
        owner_id = sa.Column(sa.ForeignKey("ap_owner.id"))
        val = sa.Column(sa.String)

        def __init__(self, val):
            _count()
            self.val = val

    class SItem(Base):
        __tablename__ = "ap_sitem"
        id = sa.Column(sa.Integer, primary_key=True)
        owner_id = sa.Column(sa.ForeignKey("ap_owner.id"))
        val = sa.Column(sa.String)

        def __init__(self, val):
            _count()
            self.val = val

    class DItem(Base):
        __tablename__ = "ap_ditem"
        id = sa.Column(sa.Integer, primary_key=True)
        owner_id = sa.Column(sa.ForeignKey("ap_owner.id"))
        key = sa.Column(sa.String)
        val = sa.Column(sa.String)

        def __init__(self, key, val):
            _count()
            self.key = key
            self.val = val

    # proxy of proxy: Owner.groups -> Group.members(list proxy of names)
    class Member(Base):
        __tablename__ = "ap_member"
        id = sa.Column(sa.Integer, primary_key=True)
        group_id = sa.Column(sa.ForeignKey("ap_group.id"))
        name = sa.Column(sa.String)

        def __init__(self, name):
            _count()
            self.name = name

    class Group(Base):
        __tablename__ = "ap_group"
        id = sa.Column(sa.Integer, primary_key=True)
        only_id = sa.Column(sa.ForeignKey("ap_owner.id"))
        member_objs = relationship(Member, order_by=Member.id, cascade="all, delete-orphan")
        members = association_proxy("member_objs", "name")

    class Owner(Base):
        __tablename__ = "ap_owner"
        id = sa.Column(sa.Integer, primary_key=True)
        litems = relationship(LItem, order_by=LItem.id, cascade="all, delete-orphan")
        sitems = relationship(SItem, collection_class=set, cascade="all, delete-orphan")
        ditems = relationship(DItem, collection_class=attribute_keyed_dict("key"), cascade="all, delete-orphan")
        lvals = association_proxy("litems", "val")
        svals = association_proxy("sitems", "val")
        dvals = association_proxy("ditems", "val", creator=lambda k, v: DItem(k, v))
        # scalar relationship -> list proxy (proxy of proxy)
        group = relationship(Group, uselist=False, foreign_keys=[Group.only_id], cascade="all, delete-orphan")
        gmembers = association_proxy("group", "members")

    return dict(Owner=Owner, LItem=LItem, SItem=SItem, DItem=DItem, Group=Group, Member=Member)


def world():
    global _W
    if _W is not None:
        return _W
    w = World()
    reg = orm.registry()
    Base = reg.generate_base()
    w.Base = Base
    w.pairs = {}
    w.logs = {}
    for kind in KINDS:
        P, C = _mk_pair(Base, kind)
        w.pairs[kind] = (P, C)
    w.Doc = _mk_mutable(Base)
    # picklable: reachable as vf.worlds.collworld.Doc
    w.Doc.__qualname__ = "Doc"
    globals()["Doc"] = w.Doc
    w.Point = Point
    w.ol = {v: _mk_ordering(Base, v) for v in OL_VARIANTS}
    w.ap = _mk_proxies(Base)
    reg.configure()
    for kind in KINDS:
        w.logs[kind] = EventLog(w.pairs[kind][0].kids)
    w.metadata = Base.metadata
    _W = w
    return w


def new_engine():
    e = sa.create_engine("sqlite://", connect_args={"autocommit": False}, poolclass=sa.pool.StaticPool)
    world().metadata.create_all(e)
    return e
